//! C03 — a proof is accepted only for the exact statement and bytes it was made for.
//!
//! For every generated honest proof (E1 spec x num_proofs 1..2 x committed 0..1
//! x {Blake2b, Poseidon}) the untouched proof must verify (positive control) and
//! every mutation below must make verification return an error (from
//! `prepare`, `assert_empty` or the guard), never accept and never panic:
//! (a) element-level edits located with the recording transcript: every point <-
//!     other valid point / identity / off-curve x / on-curve non-subgroup point /
//!     flag-bit variants; every scalar <- v+1 / 0 / non-canonical v+p;
//! (b) single-bit flips (sampled in quick, all bits in thorough);
//! (c) truncation at every element boundary and inside elements; appended bytes;
//! (d) public-input edits: one value changed, two swapped, last dropped, zero
//!     appended, a value moved between columns, per-proof instance sets swapped;
//!     committed instance <- other commitment / identity;
//! (e) malformed outer shapes (must be Err, no panic);
//! (f) wrong key: other k, same shape with different fixed content, other
//!     constants; other transcript hash.

use ff::{Field, PrimeField};
use group::{Curve, Group, GroupEncoding};
use midnight_curves::{Fp, G1Affine, G1Projective};
use midnight_proofs::transcript::{CircuitTranscript, Transcript};
use proptest::prelude::*;
use serde::{Deserialize, Serialize};
use vp_plonk::{
    e1::{build_plan, expand, knobs_strategy, min_k, Knobs, Spec, F},
    pv::{self, Blake, Poseidon, RecordingTranscript, Statement, Written},
};
use vpcore::{CaseResult, Failure, SplitMix, Verdict};

#[derive(Clone, Debug, Serialize, Deserialize)]
struct Case {
    knobs: Knobs,
    wseed: u64,
    num_proofs: usize,
    n_committed: usize,
    poseidon: bool,
    mseed: u64,
    /// pad every instance column with zeros up to the last usable row (the
    /// statement then has maximal length: appended values fall outside it)
    #[serde(default)]
    pad_full: bool,
}

fn strategy(max_ops: usize) -> BoxedStrategy<Case> {
    (knobs_strategy(max_ops), any::<u64>(), 1usize..=2, 0usize..=1, any::<bool>(), any::<u64>(), proptest::bool::weighted(0.3))
        .prop_map(|(knobs, wseed, num_proofs, n_committed, poseidon, mseed, pad_full)| Case { knobs, wseed, num_proofs, n_committed, poseidon, mseed, pad_full })
        .boxed()
}

type Vk = midnight_proofs::plonk::VerifyingKey<F, pv::CS>;

fn verify_with(vk: &Vk, k: u32, st: &Statement, proof: &[u8], poseidon: bool) -> Result<Result<(), String>, String> {
    vpcore::catch(|| {
        if poseidon {
            let mut t = CircuitTranscript::<Poseidon>::init_from_bytes(proof);
            pv::verify(vk, k, st, &mut t)
        } else {
            let mut t = CircuitTranscript::<Blake>::init_from_bytes(proof);
            pv::verify(vk, k, st, &mut t)
        }
    })
}

/// x-coordinates (big-endian, 48 bytes, flags cleared) of an off-curve x and of
/// an on-curve point outside the prime-order subgroup.
fn special_xs(seed: u64) -> ([u8; 48], [u8; 48]) {
    let mut rng = SplitMix(seed);
    let mut off = None;
    let mut nonsub = None;
    while off.is_none() || nonsub.is_none() {
        let x = Fp::from(rng.next_u64()) * Fp::from(rng.next_u64()) + Fp::from(rng.next_u64());
        let rhs = x.square() * x + Fp::from(4u64);
        let is_sq: bool = rhs.sqrt().is_some().into();
        let bytes = x.to_bytes_be();
        if !is_sq && off.is_none() {
            off = Some(bytes);
        }
        if is_sq && nonsub.is_none() {
            // decode without subgroup check to classify
            let mut c = bytes;
            c[0] |= 0x80;
            let mut repr = <G1Affine as GroupEncoding>::Repr::default();
            repr.as_mut().copy_from_slice(&c);
            let p: Option<G1Affine> = <G1Affine as GroupEncoding>::from_bytes_unchecked(&repr).into();
            if let Some(p) = p {
                if !bool::from(p.is_torsion_free()) {
                    nonsub = Some(bytes);
                }
            }
        }
    }
    (off.unwrap(), nonsub.unwrap())
}

struct Mutation {
    kind: String,
    bytes: Vec<u8>,
}

fn proof_mutations(proof: &[u8], log: &[Written], mseed: u64, all_bits: bool) -> Vec<Mutation> {
    let mut out = vec![];
    let (offx, nonsubx) = special_xs(mseed);
    let modulus = {
        // little-endian bytes of the scalar modulus
        let mut m = (-F::ONE).to_repr().as_ref().to_vec();
        // +1
        for b in m.iter_mut() {
            let (v, c) = b.overflowing_add(1);
            *b = v;
            if !c {
                break;
            }
        }
        m
    };
    for (ei, w) in log.iter().enumerate() {
        let el = &proof[w.offset..w.offset + w.len];
        let mut put = |kind: &str, new: Vec<u8>| {
            if new != el {
                let mut b = proof.to_vec();
                b[w.offset..w.offset + w.len].copy_from_slice(&new);
                out.push(Mutation { kind: format!("{}:{kind}", w.kind), bytes: b });
            }
            let _ = ei;
        };
        match w.kind {
            "point" => {
                // another valid point: P + G
                let mut repr = <G1Affine as GroupEncoding>::Repr::default();
                repr.as_mut().copy_from_slice(el);
                let p: Option<G1Affine> = G1Affine::from_bytes(&repr).into();
                if let Some(p) = p {
                    let q = (G1Projective::from(p) + G1Projective::generator()).to_affine();
                    put("other-valid", q.to_bytes().as_ref().to_vec());
                    let n = (-G1Projective::from(p)).to_affine();
                    put("negated", n.to_bytes().as_ref().to_vec());
                }
                let mut id = vec![0u8; 48];
                id[0] = 0xC0;
                put("identity", id);
                let mut o = offx.to_vec();
                o[0] |= 0x80;
                put("off-curve", o);
                let mut s = nonsubx.to_vec();
                s[0] |= 0x80;
                put("non-subgroup", s);
                let mut f = el.to_vec();
                f[0] ^= 0x80;
                put("flag-compression", f);
                let mut f = el.to_vec();
                f[0] ^= 0x40;
                put("flag-infinity", f);
                put("all-ff", vec![0xff; 48]);
            }
            "scalar" => {
                let mut repr = <F as PrimeField>::Repr::default();
                repr.as_mut().copy_from_slice(el);
                let v: Option<F> = F::from_repr(repr).into();
                if let Some(v) = v {
                    put("plus-one", (v + F::ONE).to_repr().as_ref().to_vec());
                    put("zero", F::ZERO.to_repr().as_ref().to_vec());
                    // non-canonical v + p when it fits in 32 bytes
                    let mut carry = 0u16;
                    let mut nc = vec![0u8; 32];
                    for i in 0..32 {
                        let s = el[i] as u16 + modulus[i] as u16 + carry;
                        nc[i] = s as u8;
                        carry = s >> 8;
                    }
                    if carry == 0 {
                        put("non-canonical", nc);
                    }
                }
                put("all-ff", vec![0xff; 32]);
            }
            _ => {}
        }
        // truncations: at the boundary before this element and in its middle
        out.push(Mutation { kind: "truncate:boundary".into(), bytes: proof[..w.offset].to_vec() });
        out.push(Mutation { kind: "truncate:mid-element".into(), bytes: proof[..w.offset + w.len / 2].to_vec() });
    }
    let mut rng = SplitMix(mseed ^ 0xb17);
    for n in [1usize, 2, 31, 32, 48, 64] {
        let mut b = proof.to_vec();
        b.extend(rng.bytes(n));
        out.push(Mutation { kind: "append".into(), bytes: b });
        let mut b = proof.to_vec();
        b.extend(vec![0u8; n]);
        out.push(Mutation { kind: "append-zeros".into(), bytes: b });
    }
    let nbits = proof.len() * 8;
    if all_bits {
        for bit in 0..nbits {
            let mut b = proof.to_vec();
            b[bit / 8] ^= 1 << (bit % 8);
            out.push(Mutation { kind: "bitflip".into(), bytes: b });
        }
    } else {
        for _ in 0..128 {
            let bit = rng.below(nbits as u64) as usize;
            let mut b = proof.to_vec();
            b[bit / 8] ^= 1 << (bit % 8);
            out.push(Mutation { kind: "bitflip".into(), bytes: b });
        }
    }
    out
}

fn statement_mutations(st: &Statement, mseed: u64) -> Vec<(String, Statement)> {
    let mut out = vec![];
    let mut rng = SplitMix(mseed ^ 0x57a7);
    for (pi, cols) in st.plain.iter().enumerate() {
        for (ci, col) in cols.iter().enumerate() {
            if !col.is_empty() {
                let r = rng.below(col.len() as u64) as usize;
                let mut s = st.clone();
                s.plain[pi][ci][r] += F::ONE;
                out.push(("pi:value+1".to_string(), s));
                let mut s = st.clone();
                s.plain[pi][ci][r] = F::from(rng.next_u64());
                out.push(("pi:value-random".to_string(), s));
                let mut s = st.clone();
                s.plain[pi][ci].pop();
                out.push(("pi:drop-last".to_string(), s));
                if col.len() >= 2 {
                    let r2 = (r + 1) % col.len();
                    if col[r] != col[r2] {
                        let mut s = st.clone();
                        s.plain[pi][ci].swap(r, r2);
                        out.push(("pi:swap-two".to_string(), s));
                    }
                }
            }
            let mut s = st.clone();
            s.plain[pi][ci].push(F::ZERO);
            out.push(("pi:append-zero".to_string(), s));
            if cols.len() >= 2 && !col.is_empty() {
                let other = (ci + 1) % cols.len();
                let mut s = st.clone();
                let v = s.plain[pi][ci].pop().unwrap();
                s.plain[pi][other].push(v);
                out.push(("pi:move-between-columns".to_string(), s));
            }
        }
        if cols.len() >= 2 && cols[0] != cols[1] {
            let mut s = st.clone();
            s.plain[pi].swap(0, 1);
            out.push(("pi:swap-columns".to_string(), s));
        }
    }
    if st.plain.len() >= 2 && (st.plain[0] != st.plain[1] || st.committed[0] != st.committed[1]) {
        let mut s = st.clone();
        s.plain.swap(0, 1);
        s.committed.swap(0, 1);
        out.push(("pi:swap-proof-instance-sets".to_string(), s));
    }
    for (pi, coms) in st.committed.iter().enumerate() {
        for ci in 0..coms.len() {
            let mut s = st.clone();
            s.committed[pi][ci] += G1Projective::generator();
            out.push(("committed:other-commitment".to_string(), s));
            if !bool::from(coms[ci].is_identity()) {
                let mut s = st.clone();
                s.committed[pi][ci] = G1Projective::identity();
                out.push(("committed:identity".to_string(), s));
            }
        }
    }
    // malformed outer shapes
    let mut s = st.clone();
    s.committed.push(vec![]);
    out.push(("shape:extra-committed-entry".to_string(), s));
    let mut s = st.clone();
    s.committed.pop();
    out.push(("shape:missing-committed-entry".to_string(), s));
    let mut s = st.clone();
    s.plain.pop();
    out.push(("shape:missing-plain-entry".to_string(), s));
    let mut s = st.clone();
    s.plain.push(st.plain[0].clone());
    out.push(("shape:extra-plain-entry".to_string(), s));
    let mut s = st.clone();
    s.plain[0].push(vec![]);
    out.push(("shape:extra-column".to_string(), s));
    if !st.plain[0].is_empty() {
        let mut s = st.clone();
        s.plain[0].pop();
        out.push(("shape:missing-column".to_string(), s));
    }
    out.push(("shape:all-empty".to_string(), Statement { committed: vec![], plain: vec![] }));
    out
}

fn run(c: &Case, all_bits: bool) -> CaseResult {
    let spec = expand(&c.knobs);
    let n_committed = c.n_committed.min(spec.n_instance);
    let mut plans: Vec<_> = (0..c.num_proofs).map(|i| build_plan(&spec, c.wseed.wrapping_add(i as u64 * 104729))).collect();
    let (pk, vk) = pv::keygen(&spec).map_err(|e| Failure::new("keygen-fails", format!("{e}; spec={spec:?}")))?;
    if c.pad_full {
        let usable = (1usize << spec.k) - (vk.cs().blinding_factors() + 1);
        for pl in plans.iter_mut() {
            for col in pl.instances.iter_mut() {
                if col.len() < usable {
                    col.resize(usable, F::ZERO);
                }
            }
        }
    }
    let instances: Vec<_> = plans.iter().map(|p| p.instances.clone()).collect();
    let st = pv::statement(&vk, &spec, &instances, n_committed);
    let (proof, log) = if c.poseidon {
        let mut t = RecordingTranscript::<Poseidon>::init();
        pv::prove(&pk, &spec, &plans, n_committed, c.wseed ^ 0x99, &mut t).map_err(|e| Failure::new("create_proof-fails", e))?;
        let log = t.log.clone();
        (t.finalize(), log)
    } else {
        let mut t = RecordingTranscript::<Blake>::init();
        pv::prove(&pk, &spec, &plans, n_committed, c.wseed ^ 0x99, &mut t).map_err(|e| Failure::new("create_proof-fails", e))?;
        let log = t.log.clone();
        (t.finalize(), log)
    };
    let total: usize = log.iter().map(|w| w.len).sum();
    vpcore::ensure!(total == proof.len(), "harness:layout", "recorded layout covers {total} of {} bytes", proof.len());
    // positive control
    match verify_with(&vk, spec.k, &st, &proof, c.poseidon) {
        Ok(Ok(())) => {}
        other => return Err(Failure::new("control:honest-proof-rejected", format!("{other:?}; spec={spec:?}"))),
    }
    let mut counts: std::collections::BTreeMap<String, usize> = Default::default();
    let mut judge = |kind: &str, r: Result<Result<(), String>, String>, what: &str| -> Result<(), Failure> {
        match r {
            Ok(Err(_)) => {
                *counts.entry(kind.to_string()).or_insert(0) += 1;
                Ok(())
            }
            Ok(Ok(())) => Err(Failure::new(format!("accepted:{kind}"), format!("verification ACCEPTED after mutation {kind} ({what}); spec={spec:?}"))),
            Err(p) => Err(Failure::new(format!("panic:{kind}:{}", vpcore::panic_signature(&p)), format!("verification PANICKED after mutation {kind} ({what}): {p}; spec={spec:?}"))),
        }
    };
    for m in proof_mutations(&proof, &log, c.mseed, all_bits) {
        judge(&m.kind, verify_with(&vk, spec.k, &st, &m.bytes, c.poseidon), &format!("proof len {} -> {}", proof.len(), m.bytes.len()))?;
    }
    for (kind, s) in statement_mutations(&st, c.mseed) {
        judge(&kind, verify_with(&vk, spec.k, &s, &proof, c.poseidon), "statement edit")?;
    }
    // other transcript hash
    judge("wrong-hash", verify_with(&vk, spec.k, &st, &proof, !c.poseidon), "other transcript hash")?;
    // wrong keys
    {
        let mut s2 = spec.clone();
        s2.k += 1;
        if let Ok((_, vk2)) = pv::keygen(&s2) {
            judge("wrong-vk:other-k", verify_with(&vk2, s2.k, &st, &proof, c.poseidon), "vk of the same circuit at k+1")?;
        }
        // same constraint system, different fixed content: duplicate the last op
        let mut s3 = spec.clone();
        let last = s3.ops.last().unwrap().clone();
        s3.ops.push(last);
        if min_k(&s3) <= spec.k && build_plan(&s3, 0).instances.iter().map(|c| c.len()).eq(build_plan(&spec, 0).instances.iter().map(|c| c.len())) {
            if let Ok((_, vk3)) = pv::keygen(&s3) {
                judge("wrong-vk:other-fixed-content", verify_with(&vk3, s3.k, &st, &proof, c.poseidon), "vk of a circuit with one more enabled row")?;
            }
        }
        // another gate constant
        let mut s4 = spec.clone();
        let mut changed = false;
        for g in s4.gates.iter_mut() {
            for e in g.eqs.iter_mut() {
                if let vp_plonk::e1::Eqn::Lin { konst, .. } = e {
                    *konst += 1;
                    changed = true;
                }
            }
        }
        if changed {
            if let Ok((_, vk4)) = pv::keygen(&s4) {
                judge("wrong-vk:other-gate-constant", verify_with(&vk4, s4.k, &st, &proof, c.poseidon), "vk of a circuit with other gate constants")?;
            }
        }
    }
    let mut v = Verdict::of(true, format!("np{}/c{}/{}", c.num_proofs, n_committed, if c.poseidon { "poseidon" } else { "blake2b" }));
    if c.pad_full {
        v = v.with("instance-columns-full");
    }
    for (k, n) in counts {
        v = v.with(format!("{k} x{}", if n >= 100 { "100+" } else if n >= 10 { "10+" } else { "1+" }));
    }
    Ok(v)
}

// ---------------------------------------------------------------------------
// proofs whose encoding ends in zero bytes: dropping the zero tail changes the bytes but not the
// value a lenient reader would decode for the last element

#[derive(Clone, Debug, Serialize, Deserialize)]
struct TailCase {
    knobs: Knobs,
    wseed: u64,
    poseidon: bool,
}

fn zero_tail(c: &TailCase) -> CaseResult {
    // small circuits: the search proves a few hundred times
    let mut kn = c.knobs.clone();
    kn.k_extra = 0;
    kn.lookups.clear();
    kn.ops.truncate(2);
    let spec = expand(&kn);
    if spec.k > 5 {
        return Ok(Verdict::trivial("circuit-too-large-for-the-search"));
    }
    let plan = build_plan(&spec, c.wseed);
    let (pk, vk) = pv::keygen(&spec).map_err(|e| Failure::new("keygen-fails", format!("{e}; spec={spec:?}")))?;
    let st = pv::statement(&vk, &spec, &[plan.instances.clone()], 0);
    // the prover is randomised: search its rng seeds for a proof that ends in 0x00 (1 in 256)
    let mut found = None;
    for s in 0..1500u64 {
        let proof = if c.poseidon {
            let mut t = CircuitTranscript::<Poseidon>::init();
            pv::prove(&pk, &spec, &[plan.clone()], 0, c.wseed ^ s, &mut t).map_err(|e| Failure::new("create_proof-fails", e))?;
            t.finalize()
        } else {
            let mut t = CircuitTranscript::<Blake>::init();
            pv::prove(&pk, &spec, &[plan.clone()], 0, c.wseed ^ s, &mut t).map_err(|e| Failure::new("create_proof-fails", e))?;
            t.finalize()
        };
        if proof.last() == Some(&0) {
            found = Some(proof);
            break;
        }
    }
    let Some(proof) = found else { return Ok(Verdict::trivial("no-proof-ending-in-zero-found")) };
    match verify_with(&vk, spec.k, &st, &proof, c.poseidon) {
        Ok(Ok(())) => {}
        other => return Err(Failure::new("control:honest-proof-rejected", format!("{other:?}; spec={spec:?}"))),
    }
    let zeros = proof.iter().rev().take_while(|b| **b == 0).count();
    for cut in 1..=zeros + 1 {
        let t = &proof[..proof.len() - cut];
        match verify_with(&vk, spec.k, &st, t, c.poseidon) {
            Ok(Err(_)) => {}
            Ok(Ok(())) => return Err(Failure::new("accepted:truncate:zero-tail", format!("a proof of {} bytes ending in {zeros} zero byte(s) is ACCEPTED with its last {cut} byte(s) removed; spec={spec:?}", proof.len()))),
            Err(p) => return Err(Failure::new(format!("panic:truncate:zero-tail:{}", vpcore::panic_signature(&p)), p)),
        }
    }
    Ok(Verdict::nontrivial(format!("zero-tail:{}", zeros.min(2))).with(if c.poseidon { "poseidon" } else { "blake2b" }))
}

fn main() {
    vpcore::main("C03", "fault_enumeration", (1800, 14400), |p| {
        p.assume("a mutation that leaves verification accepting is a violation; verification failing for any reason (decode error, transcript mismatch, pairing check) is the required outcome");
        let all_bits = !p.quick();
        p.sub_cfg(
            "e1.mutations",
            "E1 honest proofs x {every element replaced by other valid / identity / off-curve / non-subgroup / flag variants / v+1 / 0 / non-canonical; truncation at and inside every element; appended bytes; bit flips (128 sampled per proof in quick, all bits in thorough); public-input edits; committed-instance edits; malformed shapes; wrong hash; wrong vk}; every mutated verification must be Err; non-trivial = every case (each runs hundreds of mutations after a positive control); distinct by case digest",
            p.tier.pick(64, 600),
            16,
            24,
            || strategy(p.tier.pick(6, 12)),
            move |c| run(c, all_bits),
        );
        p.sub_cfg(
            "e1.zero-tail",
            "for small E1 circuits the prover's rng seeds are searched (<= 1500) for an honest proof whose encoding ends in 0x00; that proof with its zero tail removed (1..tail+1 bytes) must be refused; non-trivial = such a proof was found",
            p.tier.pick(12, 96),
            12,
            4,
            || (knobs_strategy(3), any::<u64>(), any::<bool>()).prop_map(|(knobs, wseed, poseidon)| TailCase { knobs, wseed, poseidon }).boxed(),
            zero_tail,
        );
    });
}
