//! E6 — standard-library relation fixtures: a few small relations over
//! different architectures with keys, honest (instance, witness) pairs and
//! proofs under both transcript hashes, cached per process.

use std::{
    collections::HashMap,
    sync::{Arc, Mutex, OnceLock},
};

use ff::Field;
use midnight_circuits::{
    hash::poseidon::PoseidonChip,
    instructions::{hash::HashCPU, ArithInstructions, AssignmentInstructions, DecompositionInstructions, PublicInputInstructions},
    types::AssignedNative,
};
use midnight_curves::Bls12;
use midnight_proofs::{
    circuit::{Layouter, Value},
    plonk::Error,
    poly::kzg::params::ParamsKZG,
};
use midnight_zk_stdlib::{MidnightCircuit, MidnightPK, MidnightVK, Relation, ZkStdLib, ZkStdLibArch};
use rand_chacha::ChaCha20Rng;
use rand_core::SeedableRng;
use serde::{Deserialize, Serialize};
use vpcore::SplitMix;

pub type F = midnight_curves::Fq;
pub type Blake = blake2b_simd::State;
pub type Poseidon = midnight_circuits::hash::poseidon::PoseidonState<F>;

/// The fixture relations. `Instance = Vec<F>` (raw public inputs), `Witness = Vec<F>`.
#[derive(Clone, Copy, Debug, PartialEq, Eq, Hash, Serialize, Deserialize)]
pub enum Fix {
    /// h = Poseidon(w0, w1, w2); no lookups used by the relation itself.
    PoseidonPreimage,
    /// publishes a*b and the 8 low bits' recomposition check through a
    /// range-checked decomposition (uses the pow2range lookup).
    MulRange,
    /// publishes a*b + c (default architecture, another shape and k).
    Affine3,
}

pub const ALL_FIX: [Fix; 3] = [Fix::PoseidonPreimage, Fix::MulRange, Fix::Affine3];

impl Relation for Fix {
    type Instance = Vec<F>;
    type Witness = Vec<F>;

    fn format_instance(instance: &Vec<F>) -> Result<Vec<F>, Error> {
        Ok(instance.clone())
    }

    fn circuit(&self, std: &ZkStdLib, l: &mut impl Layouter<F>, _i: Value<Vec<F>>, w: Value<Vec<F>>) -> Result<(), Error> {
        match self {
            Fix::PoseidonPreimage => {
                let m: Vec<AssignedNative<F>> = (0..3).map(|i| std.assign(l, w.clone().map(|w| w[i]))).collect::<Result<_, _>>()?;
                let out = std.poseidon(l, &m)?;
                std.constrain_as_public_input(l, &out)
            }
            Fix::MulRange => {
                let a: AssignedNative<F> = std.assign(l, w.clone().map(|w| w[0]))?;
                let b: AssignedNative<F> = std.assign(l, w.clone().map(|w| w[1]))?;
                // a is a 16-bit value: decomposed (range-checked) into bytes
                let bytes = std.assigned_to_le_bytes(l, &a, Some(2))?;
                let ab = std.mul(l, &a, &b, None)?;
                std.constrain_as_public_input(l, &ab)?;
                std.constrain_as_public_input(l, &bytes[0])
            }
            Fix::Affine3 => {
                let a: AssignedNative<F> = std.assign(l, w.clone().map(|w| w[0]))?;
                let b: AssignedNative<F> = std.assign(l, w.clone().map(|w| w[1]))?;
                let c: AssignedNative<F> = std.assign(l, w.clone().map(|w| w[2]))?;
                let ab = std.mul(l, &a, &b, None)?;
                let r = std.add(l, &ab, &c)?;
                std.constrain_as_public_input(l, &r)?;
                std.constrain_as_public_input(l, &c)
            }
        }
    }

    fn used_chips(&self) -> ZkStdLibArch {
        match self {
            Fix::PoseidonPreimage => ZkStdLibArch { poseidon: true, ..ZkStdLibArch::default() },
            _ => ZkStdLibArch::default(),
        }
    }

    fn write_relation<W: std::io::Write>(&self, w: &mut W) -> std::io::Result<()> {
        w.write_all(&[*self as u8])
    }

    fn read_relation<R: std::io::Read>(r: &mut R) -> std::io::Result<Self> {
        let mut b = [0u8; 1];
        r.read_exact(&mut b)?;
        ALL_FIX.get(b[0] as usize).copied().ok_or_else(|| std::io::Error::other("unknown fixture relation"))
    }
}

impl Fix {
    /// Honest (instance, witness) from a seed.
    pub fn sample(&self, seed: u64) -> (Vec<F>, Vec<F>) {
        let mut rng = SplitMix(seed ^ 0xf1);
        let mut rf = || F::from(rng.next_u64()) * F::from(rng.next_u64()) + F::from(rng.next_u64());
        match self {
            Fix::PoseidonPreimage => {
                let w = vec![rf(), rf(), rf()];
                let h = <PoseidonChip<F> as HashCPU<F, F>>::hash(&w);
                (vec![h], w)
            }
            Fix::MulRange => {
                let a = rng.next_u64() & 0xffff;
                let b = F::from(rng.next_u64());
                (vec![F::from(a) * b, F::from(a & 0xff)], vec![F::from(a), b])
            }
            Fix::Affine3 => {
                let (a, b, c) = (rf(), rf(), rf());
                (vec![a * b + c, c], vec![a, b, c])
            }
        }
    }
}

pub struct Keys {
    pub fix: Fix,
    pub k: u32,
    pub params: ParamsKZG<Bls12>,
    pub vk: MidnightVK,
    pub pk: MidnightPK<Fix>,
}

/// Keys of a fixture (cached). The SRS secret is fixed; it is not part of any case.
pub fn keys(fix: Fix) -> Arc<Keys> {
    static CACHE: OnceLock<Mutex<HashMap<Fix, Arc<Keys>>>> = OnceLock::new();
    let m = CACHE.get_or_init(|| Mutex::new(HashMap::new()));
    if let Some(k) = m.lock().unwrap().get(&fix) {
        return k.clone();
    }
    let k = MidnightCircuit::from_relation(&fix).min_k();
    let params = ParamsKZG::<Bls12>::unsafe_setup(k, ChaCha20Rng::seed_from_u64(0xE6) /* same secret for every k: batches share verifier params */);
    let vk = midnight_zk_stdlib::setup_vk(&params, &fix);
    let pk = midnight_zk_stdlib::setup_pk(&fix, &vk);
    let keys = Arc::new(Keys { fix, k, params, vk, pk });
    m.lock().unwrap().entry(fix).or_insert(keys).clone()
}

pub fn prove(keys: &Keys, instance: &Vec<F>, witness: Vec<F>, poseidon: bool, seed: u64) -> Result<Vec<u8>, String> {
    let rng = ChaCha20Rng::seed_from_u64(seed);
    if poseidon {
        midnight_zk_stdlib::prove::<Fix, Poseidon>(&keys.params, &keys.pk, &keys.fix, instance, witness, rng).map_err(|e| format!("{e:?}"))
    } else {
        midnight_zk_stdlib::prove::<Fix, Blake>(&keys.params, &keys.pk, &keys.fix, instance, witness, rng).map_err(|e| format!("{e:?}"))
    }
}

pub fn verify(keys: &Keys, instance: &Vec<F>, proof: &[u8], poseidon: bool) -> Result<(), String> {
    let vp = keys.params.verifier_params();
    if poseidon {
        midnight_zk_stdlib::verify::<Fix, Poseidon>(&vp, &keys.vk, instance, None, proof).map_err(|e| format!("{e:?}"))
    } else {
        midnight_zk_stdlib::verify::<Fix, Blake>(&vp, &keys.vk, instance, None, proof).map_err(|e| format!("{e:?}"))
    }
}

pub fn _unused(_: F) -> F {
    F::ZERO
}
