#!/usr/bin/env python3
"""Writes the task text handed to a fresh seeding sub-agent (property text only, nothing from /verif).
usage: mk_seedprompt.py <ID> [suffix]  -> /tmp/seedprompt-<id><suffix>.txt"""
import json, sys
pid = sys.argv[1]; suf = sys.argv[2] if len(sys.argv) > 2 else ""
tag = pid.lower() + suf
prop = next(json.loads(l) for l in open('/verif/properties.jsonl') if json.loads(l)['id'] == pid)
tmpl = open('/verif/tools/seedprompt.tmpl').read()
out = (tmpl.replace('@TAG@', tag).replace('@ID@', pid).replace('@TITLE@', prop['title'])
       .replace('@STATEMENT@', prop['statement']).replace('@QUANT@', prop['quantifier']['text'])
       .replace('@ANCHORS@', ', '.join(prop['anchors']['files'])))
open(f'/tmp/seedprompt-{tag}.txt', 'w').write(out)
print(f'/tmp/seedprompt-{tag}.txt')
