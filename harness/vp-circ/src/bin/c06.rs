//! C06 — elliptic-curve gadgets compute the group law and accept nothing else.
//!
//! Ops (vp_circ::ops_ecc) over Jubjub (native `EccChip`), secp256k1 and
//! BLS12-381 G1 (`ForeignEccChip`), run through the E2/E3 engine: honest
//! witness + model instance accepted, every (sampled) instance position
//! changed once rejected (S1), assignment-time faults (S2, hook H1) judged on
//! the decoded public values against the affine big-integer group law.
//!
//! Sub-checks: `ops.complete_s1`, `ops.s2` (single-cell faults, coherent
//! limb-pair faults for foreign ops, GLV-hint plans), `exhaustive_single_faults`,
//! `jubjub.assign.adversarial_coordinates`, `bls12_381.assert_in_subgroup.negative`
//! three `regression.*` sub-checks (defects D1-D3 found by this check and fixed in
//! /repo bac5b50) and `known.foreign.mul_by_constant.identity_base_large_constant`
//! (known finding D4, unfixed; see the comments at those sub-checks).
//!
//! Sensitivity (scratch worktree /tmp/wt-c06 + harness copy, see GUIDE; all on
//! VERIF_SEED=1, quick tier):
//!  M1 edwards_chip.rs `assign`: `q_mem` (curve-membership gate) not enabled on the cofactor root
//!     -> caught: jubjub.assign.adversarial_coordinates, jubjub.assign:unsound:coherent-off-curve-root:exposed-point-off-curve
//!        (single-cell faults cannot catch it: the coherent multiply-by-8 witness is needed).
//!  M2 foreign `add`: the `assert_double` call of the P = Q branch removed
//!     -> caught: exhaustive_single_faults, {secp256k1,bls12_381}.add:unsound:S2-limb-pair:output-point-off-curve
//!        (not caught by single-cell faults, even exhaustive: a limb is only movable together with the
//!        first sub-limb of its range-check region; hence check_s2_row_pairs).
//!  M3 edwards_chip.rs `assign`: point assigned directly, `clear_cofactor` skipped
//!     -> caught: jubjub.assign.adversarial_coordinates, jubjub.assign:unsound:root-coordinates:exposed-point-outside-subgroup
//!  M4 foreign `glv_split`: `assert_equal(x, scalar)` (recomposition of the GLV halves) removed
//!     -> caught: ops.s2 (mode 1), {secp256k1,bls12_381}.msm(1):unsound:S2-glv-hint:wrong-result
//!  M5 foreign `assign`: `assert_is_on_curve` removed
//!     -> caught: ops.s2 and exhaustive_single_faults, *.assign:unsound:S2-limb-pair:input-point-off-curve

use std::collections::HashMap;

use num_bigint::BigUint;
use num_traits::{One, Zero};
use serde::{Deserialize, Serialize};
use vp_alg::model::{EPoint, WPoint};
use vp_circ::{e2::*, ops_ecc::*};
use vpcore::{CaseResult, Failure, SplitMix, Verdict};

#[derive(Clone, Debug, Serialize, Deserialize)]
enum OpSpec {
    Jub(JubKind),
    For(Curve, ForKind),
}

/// Point classes: 0 random, 1 identity, 2 generator, 3 = point 0 (P=Q),
/// 4 = -point 0 (P=-Q), 5 = 2*point 0, 6 BLS order-3 point (0,2),
/// 7 BLS generator + (0,2) (on the curve, outside the subgroup),
/// 8 = -(fixed constant of AssignFixed).
/// Scalar classes: 0 random, 1 zero, 2 one, 3 two, 4 order-1, 5 order,
/// 6 order+1, 7 largest value of the input width, 8 small random.
#[derive(Clone, Debug, Serialize, Deserialize)]
struct Case {
    op: OpSpec,
    pc: Vec<u8>,
    kc: Vec<u8>,
    seed: u64,
    /// S1: number of sampled instance positions (0 = all); S2: number of faults
    n: u32,
    /// 0: standard; 1: S2 plans on the GLV hints of a foreign msm
    #[serde(default)]
    mode: u8,
}

/// Builds the input vector of a case; returns (x, class labels, nontrivial).
fn build(c: &Case) -> (Vec<BigUint>, Vec<String>, bool) {
    match &c.op {
        OpSpec::Jub(kind) => build_jub(kind, &c.pc, &c.kc, c.seed),
        OpSpec::For(curve, kind) => build_for(*curve, kind, &c.pc, &c.kc, c.seed),
    }
}

fn op_name(o: &OpSpec) -> String {
    match o {
        OpSpec::Jub(k) => JubOp::new(k.clone()).name(),
        OpSpec::For(c, k) => ForOp::new(*c, k.clone()).name(),
    }
}

fn verdict(c: &Case, labels: Vec<String>, nt: bool, first: &str) -> Verdict {
    let mut v = Verdict::of(nt, first.to_string()).with(op_name(&c.op));
    // known finding D4: the identity base is not generated for foreign constants above 128 bits
    if matches!(&c.op, OpSpec::For(_, ForKind::MulConst(k)) if k.len() > 32) && c.mode == 0 && c.pc.first() != Some(&1) {
        v = v.with("excluded-known-D4:identity-base-x-constant-above-128-bits");
    }
    for l in labels {
        v = v.with(l);
    }
    v
}

fn timing(c: &Case, what: &str, t0: std::time::Instant) {
    if std::env::var("C06_TIMING").is_ok() {
        eprintln!("TIMING {:8.2}s {what} {} pc={:?} kc={:?} n={}", t0.elapsed().as_secs_f64(), op_name(&c.op), c.pc, c.kc, c.n);
    }
}

fn run_complete(c: &Case) -> CaseResult {
    let t0 = std::time::Instant::now();
    let r = run_complete_inner(c);
    timing(c, "complete+S1", t0);
    r
}

/// `exhaustive`: every candidate of the plan family instead of a sample (`singles`: also for single-cell
/// faults of foreign ops, which cost one mock run per native assignment).
fn run_s2(c: &Case, exhaustive: bool, singles: bool) -> CaseResult {
    let t0 = std::time::Instant::now();
    let r = run_s2_inner(c, exhaustive, singles);
    timing(c, "S2", t0);
    r
}

fn run_complete_inner(c: &Case) -> CaseResult {
    let (x, labels, nt) = build(c);
    let max_pos = if c.n == 0 { usize::MAX } else { c.n as usize };
    let r = match &c.op {
        OpSpec::Jub(k) => check_complete_and_s1_sampled(&JubOp::new(k.clone()), &x, c.seed, max_pos),
        OpSpec::For(cv, k) => check_complete_and_s1_sampled(&ForOp::new(*cv, k.clone()), &x, c.seed, max_pos),
    }?;
    if r.classes.first().map(|s| s.as_str()) == Some("out-of-domain-input-skipped") {
        return Err(Failure::new(format!("harness:{}:generated-input-out-of-domain", op_name(&c.op)), format!("x={x:?}")));
    }
    Ok(verdict(c, labels, nt, "complete+S1"))
}

fn run_s2_inner(c: &Case, exhaustive: bool, singles: bool) -> CaseResult {
    let (x, labels, nt) = build(c);
    if c.mode == 1 {
        let OpSpec::For(cv, k) = &c.op else { unreachable!() };
        let op = ForOp::new(*cv, k.clone());
        let mut built = 0;
        let st = run_plans(&op, &x, "S2-glv-hint", |log| {
            let v = glv_hint_plans(log);
            built = v.len();
            v
        })?;
        return Ok(verdict(c, labels, st.rejected > 0, "S2-glv-hints").with(format!("plans={built}")).with(stats_label(&st)));
    }
    let st = match &c.op {
        OpSpec::Jub(k) => check_s2(&JubOp::new(k.clone()), &x, c.seed, c.n as usize, exhaustive, !exhaustive)?.0,
        OpSpec::For(cv, k) => {
            // single-cell faults, then coherent limb-pair faults (see check_s2_row_pairs)
            let op = ForOp::new(*cv, k.clone());
            let heavy = k.is_msm() || matches!(k, ForKind::MulConst(_) | ForKind::InSubgroup);
            let n = c.n as usize;
            let mut st = if heavy { check_s2_biased(&op, &x, c.seed, n, 400)? } else { check_s2(&op, &x, c.seed, n, exhaustive && singles, false)?.0 };
            let st2 = check_s2_row_pairs(&op, &x, c.seed ^ 0x9e37, if heavy { 1 } else { n }, usize::MAX, exhaustive && !heavy)?;
            st.runs += st2.runs;
            st.rejected += st2.rejected;
            st.accepted_correct += st2.accepted_correct;
            st.aborted += st2.aborted;
            st.no_effect += st2.no_effect;
            st
        }
    };
    let counted = st.rejected + st.accepted_correct > 0;
    Ok(verdict(c, labels, nt && counted, "S2").with(stats_label(&st)))
}

// ---------------------------------------------------------------------------
// item lists

fn hexs(v: &BigUint) -> String {
    v.to_str_radix(16)
}

fn jub_items(seed: u64, reps: u32) -> Vec<Case> {
    let j = jub();
    let mut v = vec![];
    let mut k = 0u64;
    let mut push = |v: &mut Vec<Case>, kind: JubKind, pc: &[u8], kc: &[u8]| {
        k += 1;
        v.push(Case { op: OpSpec::Jub(kind), pc: pc.to_vec(), kc: kc.to_vec(), seed: vpcore::derive_seed(&["C06", "jub"], seed.wrapping_mul(1000003).wrapping_add(k)), n: 0, mode: 0 });
    };
    for rep in 0..reps {
        for pc in [0u8, 1, 2] {
            push(&mut v, JubKind::Assign, &[pc], &[]);
            push(&mut v, JubKind::Double, &[pc], &[]);
            push(&mut v, JubKind::Negate, &[pc], &[]);
        }
        for (c, pc) in [(0u8, 0u8), (1, 0), (1, 1), (1, 2), (1, 8), (2, 0), (2, 8)] {
            push(&mut v, JubKind::AssignFixed(c), &[pc], &[]);
        }
        for pc in [[0u8, 0], [0, 1], [1, 0], [1, 1], [0, 3], [0, 4], [2, 0], [2, 3], [0, 5]] {
            push(&mut v, JubKind::Add, &pc, &[]);
        }
        // msm sizes 1..8, mixed operand and scalar classes
        for n in 1..=8usize {
            let pcs: Vec<u8> = (0..n).map(|i| [0u8, 1, 3, 4, 2, 0, 5, 0][(i + n + rep as usize) % 8]).collect();
            let kcs: Vec<u8> = (0..n).map(|i| [0u8, 4, 1, 2, 3, 0, 8, 4][(i + 2 * n + rep as usize) % 8]).collect();
            push(&mut v, JubKind::Msm(n), &pcs, &kcs);
        }
        for kc in [0u8, 1, 2, 3, 4] {
            for pc in [0u8, 1] {
                push(&mut v, JubKind::Msm(1), &[pc], &[kc]);
            }
        }
        push(&mut v, JubKind::MsmBounded(1), &[0], &[4]);
        push(&mut v, JubKind::MsmBounded(3), &[0, 1, 3], &[0, 2, 4]);
        for kc in [0u8, 1, 2, 4, 5, 6, 7] {
            push(&mut v, JubKind::MulBytes(32), &[0], &[kc]);
        }
        push(&mut v, JubKind::MulBytes(32), &[1], &[5]);
        push(&mut v, JubKind::MulBytes(1), &[0], &[7]);
        push(&mut v, JubKind::MulBytes(2), &[2], &[0]);
        for kc in [0u8, 1, 5, 6, 7] {
            push(&mut v, JubKind::MulConvert, &[0], &[kc]);
        }
        let consts = ["0".to_string(), "1".into(), "2".into(), "8".into(), hexs(&(&j.r - 1u32)), hexs(&(BigUint::from_bytes_le(&SplitMix(seed ^ rep as u64).bytes(40)) % &j.r))];
        for (i, c) in consts.iter().enumerate() {
            push(&mut v, JubKind::MulConst(c.clone()), &[if i % 3 == 2 { 1 } else { 0 }], &[]);
        }
        for pc in [0u8, 1, 2] {
            push(&mut v, JubKind::FromCoords, &[pc], &[]);
            push(&mut v, JubKind::Compress, &[pc], &[]);
            push(&mut v, JubKind::Decompress, &[pc], &[]);
        }
        push(&mut v, JubKind::Compress, &[0], &[]);
        push(&mut v, JubKind::Coords, &[0], &[]);
        push(&mut v, JubKind::Coords, &[1], &[]);
        for pc in [[0u8, 0], [0, 3], [0, 4], [1, 1], [1, 0]] {
            push(&mut v, JubKind::IsEqual, &pc, &[]);
        }
        push(&mut v, JubKind::IsZero, &[0], &[]);
        push(&mut v, JubKind::IsZero, &[1], &[]);
        for b in [0u8, 1] {
            push(&mut v, JubKind::Select, &[0, if b == 0 { 1 } else { 0 }], &[b]);
        }
        push(&mut v, JubKind::Htc(1), &[], &[0]);
        push(&mut v, JubKind::Htc(1), &[], &[1]);
        push(&mut v, JubKind::Htc(2), &[], &[0, 7]);
        push(&mut v, JubKind::Htc(3), &[], &[0, 0, 2]);
    }
    v
}

/// (heavy, light) foreign items for the complete+S1 sub-check.
fn for_items(seed: u64, reps: u32, quick: bool) -> (Vec<Case>, Vec<Case>) {
    let mut heavy = vec![];
    let mut light = vec![];
    let mut k = 0u64;
    let mut push = |v: &mut Vec<Case>, cv: Curve, kind: ForKind, pc: &[u8], kc: &[u8], n: u32| {
        k += 1;
        v.push(Case { op: OpSpec::For(cv, kind), pc: pc.to_vec(), kc: kc.to_vec(), seed: vpcore::derive_seed(&["C06", "for"], seed.wrapping_mul(1000003).wrapping_add(k)), n, mode: 0 });
    };
    for rep in 0..reps {
        for cv in [Curve::Secp, Curve::Bls] {
            let w = wctx(cv);
            let bls = cv == Curve::Bls;
            // heavy: scalar multiplications
            let rk = [4u8, 0, 1, 2, 3][(rep % 5) as usize];
            push(&mut heavy, cv, ForKind::Msm(1), &[0], &[rk], 2);
            push(&mut heavy, cv, ForKind::Msm(2), &[0, [1u8, 4, 3, 0][(rep % 4) as usize]], &[0, 4], 2);
            push(&mut heavy, cv, ForKind::MsmLeBits(1, 260), &[0], &[[6u8, 7, 5, 0, 4][(rep % 5) as usize]], 2);
            push(&mut heavy, cv, ForKind::MsmBounded(2, 64), &[0, 1], &[7, 0], 2);
            // one assigned base in every term (the chip merges such terms): maximal scalars of
            // equal, decreasing and increasing bounds, so that the merged scalar carries
            push(&mut heavy, cv, ForKind::MsmRep(vec![7, 7, 7]), &[0], &[7, 7, 7], 2);
            push(&mut heavy, cv, ForKind::MsmRep(vec![8, 4]), &[0], &[7, 7], 2);
            push(&mut heavy, cv, ForKind::MsmRep(vec![[4usize, 12, 63, 64][(rep % 4) as usize], 8, 8, 3]), &[0], &[7, [7u8, 0, 2, 7][(rep % 4) as usize], 7, 7], 2);
            // a base and its in-circuit negation (shared cells): a*P + b*(-P)
            push(&mut heavy, cv, ForKind::MsmPN(Some(64)), &[0], &[[0u8, 7][(rep % 2) as usize], 0], 2);
            push(&mut heavy, cv, ForKind::MsmPN(None), &[0], &[0, [0u8, 4][(rep % 2) as usize]], 2);
            push(&mut heavy, cv, ForKind::MsmRep(vec![64, 64]), &[[0u8, 1][(rep % 2) as usize]], &[7, [7u8, 0][(rep % 2) as usize]], 2);
            // (identity base with a constant above 128 bits: defect D4 below)
            push(&mut heavy, cv, ForKind::MulConst(hexs(&(&w.n - 1u32))), &[if rep % 2 == 0 { 0 } else { 2 }], &[], 2);
            // `mul_by_u128` path: constants up to 128 bits (D1 fixed in bac5b50: digits recomposed)
            push(&mut heavy, cv, ForKind::MulConst("ffffffffffffffffffffffffffffffff".into()), &[if rep % 2 == 0 { 0 } else { 1 }], &[], 2);
            push(&mut heavy, cv, ForKind::MulConst("10000000000000001".into()), &[if rep % 2 == 0 { 1 } else { 0 }], &[], 2);
            if bls {
                push(&mut heavy, cv, ForKind::InSubgroup, &[[0u8, 2, 1][(rep % 3) as usize]], &[], 2);
            }
            if !quick {
                for n in 3..=4usize {
                    push(&mut heavy, cv, ForKind::Msm(n), &vec![0; n], &vec![0; n], 2);
                }
                push(&mut heavy, cv, ForKind::MsmLeBits(2, 256), &[0, 3], &[5, 0], 2);
                push(&mut heavy, cv, ForKind::Msm(1), &[1], &[0], 2);
            }
            // light
            let s1 = 4;
            for pc in [0u8, 1, 2] {
                push(&mut light, cv, ForKind::Assign, &[pc], &[], s1);
                push(&mut light, cv, ForKind::Double, &[pc], &[], s1);
            }
            push(&mut light, cv, ForKind::Negate, &[0], &[], s1);
            push(&mut light, cv, ForKind::Negate, &[1], &[], s1);
            for (c, pc) in [(1u8, 0u8), (0, 0), (1, 8), (1, 2), (2, 1)] {
                push(&mut light, cv, ForKind::AssignFixed(c), &[pc], &[], s1);
            }
            for pc in [[0u8, 0], [0, 1], [1, 0], [1, 1], [0, 3], [0, 4], [2, 0], [2, 3], [0, 5]] {
                push(&mut light, cv, ForKind::Add, &pc, &[], s1);
            }
            if bls {
                // points of the curve outside the prime-order subgroup (the chip works on the whole curve)
                push(&mut light, cv, ForKind::Assign, &[6], &[], s1);
                push(&mut light, cv, ForKind::Assign, &[7], &[], s1);
                push(&mut light, cv, ForKind::Double, &[6], &[], s1);
                push(&mut light, cv, ForKind::Double, &[7], &[], s1);
                push(&mut light, cv, ForKind::Add, &[6, 3], &[], s1);
                push(&mut light, cv, ForKind::Add, &[6, 4], &[], s1);
                push(&mut light, cv, ForKind::Add, &[7, 0], &[], s1);
                push(&mut light, cv, ForKind::Add, &[6, 7], &[], s1);
                push(&mut light, cv, ForKind::Negate, &[6], &[], s1);
                push(&mut light, cv, ForKind::FromCoords, &[6], &[], s1);
            }
            for c in ["0", "1", "2", "b"] {
                push(&mut light, cv, ForKind::MulConst(c.into()), &[if c == "2" { 1 } else { 0 }], &[], s1);
            }
            push(&mut light, cv, ForKind::FromCoords, &[0], &[], s1);
            push(&mut light, cv, ForKind::FromCoords, &[2], &[], s1);
            push(&mut light, cv, ForKind::Coords, &[0], &[], s1);
            for pc in [[0u8, 0], [0, 3], [0, 4], [1, 1], [1, 0]] {
                push(&mut light, cv, ForKind::IsEqual, &pc, &[], s1);
            }
            push(&mut light, cv, ForKind::IsZero, &[0], &[], s1);
            push(&mut light, cv, ForKind::IsZero, &[1], &[], s1);
            for b in [0u8, 1] {
                push(&mut light, cv, ForKind::Select, &[0, if b == 0 { 1 } else { 0 }], &[b], s1);
            }
        }
    }
    (heavy, light)
}

fn with_n(mut v: Vec<Case>, f: impl Fn(&Case) -> u32) -> Vec<Case> {
    for c in v.iter_mut() {
        c.n = f(c);
        c.seed = vpcore::derive_seed(&["s2"], c.seed);
    }
    v
}

fn main() {
    vpcore::main("C06", "fault_enumeration", (2400, 6 * 3600), |p| {
        p.assume("oracle: affine big-integer group laws of vp_alg::model (Edwards a=-1 for Jubjub; Weierstrass a=0 for secp256k1 and BLS12-381 G1) with curve constants written from the specifications; library generators are cross-checked against them");
        p.assume("hash_to_curve: the documented reference is the off-circuit CPU implementation (HashToCurveCPU); the model adds on-curve and prime-order-subgroup membership of the output");
        p.assume("scalar multiplication on BLS12-381 is specified on the prime-order subgroup only (module doc of ForeignEccChip: no low-order points); add/double/negate/select/is_equal on the whole curve");
        p.assume("foreign points with the identity flag set decode as the identity whatever their coordinates; emulated coordinates are judged on residues; msm_by_bounded_scalars with a scalar above its declared bound is a caller-side precondition violation (vacuous)");
        p.assume("verdicts are MockProver::verify() on the real library circuits built through MidnightCircuit; panics / synthesis errors under faults are 'aborted', never violations");

        // MockProver builds its failure report on rayon worker threads; under faults that code can hit
        // an internal `unreachable!()` (dev/util.rs: a failed constraint reading a poisoned cell). The
        // engine records such runs as "aborted"; vpcore's quiet flag is thread-local, so without this
        // filter the worker thread prints a backtrace for a run that is not a verdict.
        let prev = std::panic::take_hook();
        std::panic::set_hook(Box::new(move |info| {
            let in_mock = info.location().map(|l| l.file().contains("/proofs/src/dev/")).unwrap_or(false);
            if in_mock && rayon::current_thread_index().is_some() {
                return;
            }
            prev(info)
        }));
        let quick = p.quick();
        let reps = p.tier.pick(1, 15);
        // development aid: C06_ONLY=<substring of the op name> restricts every item list
        let only = std::env::var("C06_ONLY").ok();
        let keep = |v: Vec<Case>| -> Vec<Case> {
            match &only {
                None => v,
                Some(pat) => v.into_iter().filter(|c| op_name(&c.op).contains(pat.as_str())).collect(),
            }
        };
        let rule = "operand pair exceptional (identity involved, P=+-Q, outside-subgroup), boundary scalar/constant, or MSM size >= 2";
        let rule_s2 = "as complete+S1 and at least one fault rejected or accepted with correct public values";

        // ---- complete + S1 ------------------------------------------------
        let (heavy, light) = for_items(p.seed, reps, quick);
        let mut items = heavy.clone();
        // Jubjub: all positions for small ops, sampled for the 32-byte ones and big MSMs
        let jub_all = with_n(jub_items(p.seed, reps), |c| match &c.op {
            OpSpec::Jub(JubKind::Compress | JubKind::Decompress) => 6,
            OpSpec::Jub(JubKind::Msm(n)) if *n >= 4 => 6,
            _ => 0,
        });
        items.extend(jub_all.iter().filter(|c| matches!(&c.op, OpSpec::Jub(JubKind::Msm(n)) if *n >= 4)).cloned());
        items.extend(light.clone());
        items.extend(jub_all.iter().filter(|c| !matches!(&c.op, OpSpec::Jub(JubKind::Msm(n)) if *n >= 4)).cloned());
        p.enumerate("ops.complete_s1", rule, keep(items), 16, false, run_complete);

        // ---- S2 sampled faults -----------------------------------------------
        let fj = p.tier.pick(28, 60);
        let ff = p.tier.pick(8, 20);
        let fh = p.tier.pick(3, 8);
        let mut s2 = vec![];
        s2.extend(with_n(heavy.into_iter().filter(|c| !quick || matches!(&c.op, OpSpec::For(_, ForKind::Msm(1) | ForKind::MsmLeBits(..) | ForKind::MsmBounded(..) | ForKind::InSubgroup))).collect(), |_| fh));
        s2.extend(with_n(light.into_iter().enumerate().filter(|(i, _)| !quick || i % 3 != 0).map(|(_, c)| c).collect(), |_| ff));
        s2.extend(with_n(jub_items(p.seed ^ 0x5a5a, reps).into_iter().enumerate().filter(|(i, c)| !quick || i % 2 == 0 || matches!(&c.op, OpSpec::Jub(JubKind::Msm(_) | JubKind::Htc(_) | JubKind::Compress | JubKind::Decompress))).map(|(_, c)| c).collect(), |c| match &c.op {
            OpSpec::Jub(JubKind::Msm(n)) if *n >= 4 => fj / 2,
            _ => fj,
        }));
        // GLV hints of the full-size msm (one honest + 3-4 faulted heavy runs per curve)
        let mut glv: Vec<Case> = [Curve::Secp, Curve::Bls].iter().map(|cv| Case { op: OpSpec::For(*cv, ForKind::Msm(1)), pc: vec![0], kc: vec![0], seed: vpcore::derive_seed(&["C06", "glv"], p.seed), n: 0, mode: 1 }).collect();
        glv.extend(s2);
        let s2 = glv;
        p.enumerate("ops.s2", rule_s2, keep(s2), 16, false, |c| run_s2(c, false, false));

        // ---- exhaustive single faults on Jubjub assign / add / double ----------------
        let per = p.tier.pick(1, 4);
        let mut ex: Vec<Case> = vec![];
        for (i, (kind, pc)) in [
            (JubKind::Assign, vec![0u8]),
            (JubKind::Assign, vec![1]),
            (JubKind::Add, vec![0, 0]),
            (JubKind::Add, vec![0, 3]),
            (JubKind::Add, vec![0, 4]),
            (JubKind::Add, vec![1, 0]),
            (JubKind::Double, vec![0]),
            (JubKind::Double, vec![1]),
        ]
        .into_iter()
        .enumerate()
        {
            ex.push(Case { op: OpSpec::Jub(kind), pc, kc: vec![], seed: vpcore::derive_seed(&["C06", "ex"], p.seed.wrapping_add(i as u64)), n: per, mode: 0 });
        }
        // foreign complete addition on the doubling branch and on the generic branch, and doubling: every index once
        for (i, (cv, kind, pc)) in [
            (Curve::Secp, ForKind::Add, vec![0u8, 3]),
            (Curve::Bls, ForKind::Add, vec![0, 3]),
            (Curve::Secp, ForKind::Add, vec![0, 0]),
            (Curve::Secp, ForKind::Double, vec![0]),
            (Curve::Bls, ForKind::Double, vec![0]),
            (Curve::Secp, ForKind::Assign, vec![0]),
            (Curve::Bls, ForKind::Assign, vec![7]),
            (Curve::Secp, ForKind::FromCoords, vec![0]),
            (Curve::Secp, ForKind::Select, vec![0, 1]),
            (Curve::Secp, ForKind::Negate, vec![0]),
        ]
        .into_iter()
        .enumerate()
        {
            ex.push(Case { op: OpSpec::For(cv, kind), pc, kc: vec![], seed: vpcore::derive_seed(&["C06", "exf"], p.seed.wrapping_add(i as u64)), n: p.tier.pick(6, 1), mode: 0 });
        }
        ex.reverse();
        p.enumerate("exhaustive_single_faults", "Jubjub assign/add/double: every native assignment index faulted (n value classes per index); foreign assign/add/double/negate/select/point_from_coordinates: every coherent limb-pair fault (thorough: also every single index); counted if a fault was rejected or absorbed", keep(ex), 16, false, |c| run_s2(c, true, !quick));

        // ---- adversarial coordinates for assigned Jubjub points ----------------------
        let adv: Vec<Case> = (0..p.tier.pick(4u64, 40)).map(|i| Case { op: OpSpec::Jub(JubKind::Assign), pc: vec![[0u8, 1, 2, 0][(i % 4) as usize]], kc: vec![], seed: vpcore::derive_seed(&["C06", "adv"], p.seed.wrapping_add(i)), n: 0, mode: 0 }).collect();
        p.enumerate(
            "jubjub.assign.adversarial_coordinates",
            "root coordinates of `assign` replaced by: root + every 8-torsion point, every low-order point, subgroup point + torsion, off-curve (small delta) with and without a coherent multiply-by-8 witness; counted if at least one plan is rejected and one accepted with a correct subgroup point",
            keep(adv),
            4,
            false,
            |c| -> CaseResult {
                let j = jub();
                let (x, labels, _) = build(c);
                let op = JubOp::new(JubKind::Assign);
                let p0 = (x[0].clone(), x[1].clone());
                let root = jub_root(&p0);
                if j.ed.mul(&root, &BigUint::from(8u32)) != p0 {
                    return Err(Failure::new("harness:jubjub.assign:root", "8 * root != P"));
                }
                let mut rng = SplitMix(c.seed);
                let mut cands: Vec<EPoint> = vec![root.clone()];
                for t in j.torsion.iter().skip(1) {
                    cands.push(j.ed.add(&root, t)); // 8 * (root + T) = P: accepted-correct or rejected
                    cands.push(t.clone()); // 8 * T = identity: a different (valid) public point
                }
                let q = j.rand_point(&mut rng);
                cands.push(j.ed.add(&q, &j.torsion[1])); // on the curve, outside the subgroup
                cands.push(j.full.clone());
                // off-curve: small deltas on x (the library's witness generation rebuilds the point from (sign x, y))
                for d in 1u32..4 {
                    cands.push(((&root.0 + d) % &j.q, root.1.clone()));
                }
                let st1 = run_plans(&op, &x, "root-coordinates", |log| {
                    if log.len() < 2 || log[0].offset != 0 || log[1].offset != 0 {
                        return vec![];
                    }
                    jub_root_plans(&cands)
                })?;
                // coherent off-curve witness (the only violated constraint is the membership gate)
                let mut coherent = vec![];
                let mut d = 1u32;
                while coherent.len() < 2 && d < 200 {
                    let r = ((&root.0 + d) % &j.q, root.1.clone());
                    d += 1;
                    if j.ed.on_curve(&r) {
                        continue;
                    }
                    if let Some(ch) = jub_formula_chain(&r) {
                        if jub_witnessable(&r) && jub_witnessable(&ch[0]) && jub_witnessable(&ch[1]) {
                            coherent.push(r);
                        }
                    }
                }
                let mut built = 0;
                let st2 = run_plans(&op, &x, "coherent-off-curve-root", |log| {
                    let v: Vec<_> = coherent.iter().filter_map(|r| jub_offcurve_plan(log, r)).collect();
                    built = v.len();
                    v
                })?;
                let nt = st1.rejected > 0 && st1.accepted_correct > 0 && st2.rejected > 0;
                Ok(Verdict::of(nt, "adversarial-root")
                    .with(labels.join(","))
                    .with(format!("plain: {}", stats_label(&st1)))
                    .with(format!("coherent(built={}): {}", built.min(2), stats_label(&st2))))
            },
        );

        // ---- BLS subgroup assertion: points outside the subgroup must not be accepted ----
        let neg: Vec<Case> = [6u8, 7].iter().map(|pc| Case { op: OpSpec::For(Curve::Bls, ForKind::InSubgroup), pc: vec![*pc], kc: vec![], seed: p.seed, n: 0, mode: 0 }).collect();
        p.enumerate("bls12_381.assert_in_subgroup.negative", "curve points outside the prime-order subgroup (honest witness generation): the circuit must not accept", keep(neg), 2, false, |c| -> CaseResult {
            let (x, labels, _) = build(c);
            let op = ForOp::new(Curve::Bls, ForKind::InSubgroup);
            vpcore::ensure!(op.reference(&x).is_none(), "harness:bls.in_subgroup.negative:in-domain", "x={x:?}");
            let inst = wctx(Curve::Bls).enc_point(&Some((x[0].clone(), x[1].clone())));
            let r = run_given(&op, &x, &inst);
            vpcore::ensure!(!r.outcome.accepted(), "bls12_381.assert_in_bls12_381_subgroup:accepts-point-outside-subgroup", "x={x:?}");
            Ok(Verdict::nontrivial("subgroup-negative").with(labels.join(",")).with(r.outcome.label()))
        });

        // ---- regression (D1, fixed in /repo bac5b50): ForeignEccChip::mul_by_constant, constants with 64 < bits <= 128 ----
        // (ecc_chip.rs folded the u64 digits of the constant with `+` instead of recomposing them:
        // the circuit computed (lo + hi) * P.)
        let mut d1 = vec![];
        for cv in [Curve::Secp, Curve::Bls] {
            for (i, c) in ["10000000000000000", "10000000000000001", "ffffffffffffffffffffffffffffffff", "2b5a3c9d00000000000000007"].iter().enumerate() {
                d1.push(Case { op: OpSpec::For(cv, ForKind::MulConst(c.to_string())), pc: vec![if i == 1 { 2 } else { 0 }], kc: vec![], seed: vpcore::derive_seed(&["C06", "d1"], p.seed.wrapping_add(i as u64)), n: 0, mode: 0 });
            }
        }
        p.enumerate(
            "regression.foreign.mul_by_constant.u128_constants",
            "constants in (2^64, 2^128]: the exposed result of the honest run must be c * P",
            keep(d1),
            8,
            false,
            |c| -> CaseResult {
                let (x, labels, _) = build(c);
                let OpSpec::For(cv, ForKind::MulConst(k)) = &c.op else { unreachable!() };
                let op = ForOp::new(*cv, ForKind::MulConst(k.clone()));
                let w = wctx(*cv);
                let inst = op.reference(&x).ok_or_else(|| Failure::new("harness:d1:out-of-domain", ""))?;
                let honest = run_faulted(&op, &x, inst.len(), HashMap::new());
                let name = format!("{}.mul_by_constant", w.name);
                vpcore::ensure!(honest.outcome.accepted(), format!("{name}:u128-path:honest-run-not-accepted"), "{:?}", honest.outcome);
                if honest.public == inst {
                    return Ok(Verdict::nontrivial("c*P").with(labels.join(",")));
                }
                let got = w.dec_point(&honest.public[2 * w.nl..]);
                let kb = BigUint::parse_bytes(k.as_bytes(), 16).unwrap();
                let mask = (BigUint::one() << 64) - 1u32;
                let folded = (&kb & &mask) + (&kb >> 64);
                let pt: WPoint = Some((x[0].clone(), x[1].clone()));
                let sig = if got == Ok(w.w.mul(&pt, &folded)) { "constant-in-(2^64,2^128]:computes-(lo64+hi64)*P" } else { "constant-in-(2^64,2^128]:wrong-result" };
                Err(Failure::new(format!("{name}:{sig}"), format!("mul_by_constant(0x{k}, P) with P=({}, {}): the honest circuit exposes {got:?}; expected c*P = {:?}; (lo64+hi64) = {folded}", x[0], x[1], w.w.mul(&pt, &kb))))
            },
        );

        // ---- KNOWN FINDING D4 (unfixed: a repair changes the golden cost entry of mul_by_constant):
        //      ForeignEccChip::mul_by_constant, constant above 128 bits, identity base ----
        // signatures: "secp256k1.mul_by_constant:identity-base:constant-above-128-bits:incomplete",
        //             "bls12_381.mul_by_constant:identity-base:constant-above-128-bits:incomplete"
        // (EccInstructions::mul_by_constant: "The base can be the identity point"; ecc_chip.rs:889-894 forwards
        // to msm_by_le_bits, whose documented precondition is base != identity.)
        let d4: Vec<Case> = [Curve::Secp, Curve::Bls]
            .iter()
            .map(|cv| Case { op: OpSpec::For(*cv, ForKind::MulConst(hexs(&(&wctx(*cv).n - 1u32)))), pc: vec![1], kc: vec![], seed: p.seed, n: 1, mode: 0 })
            .collect();
        p.enumerate("known.foreign.mul_by_constant.identity_base_large_constant", "identity base, constant above 128 bits: the honest witness must be accepted with the identity as result", keep(d4), 2, false, |c| -> CaseResult {
            let (x, labels, nt) = build(c);
            let OpSpec::For(cv, k) = &c.op else { unreachable!() };
            let op = ForOp::new(*cv, k.clone());
            let inst = op.reference(&x).ok_or_else(|| Failure::new("harness:d4:out-of-domain", ""))?;
            let r = run_given(&op, &x, &inst);
            vpcore::ensure!(r.outcome.accepted(), format!("{}.mul_by_constant:identity-base:constant-above-128-bits:incomplete", wctx(*cv).name), "honest witness rejected: {:?}", r.outcome);
            Ok(verdict(c, labels, nt, "identity-base accepted"))
        });

        // ---- regression (D2, consequence of D1): assert_in_bls12_381_subgroup must accept subgroup points ----
        let d2: Vec<Case> = [0u8, 2, 1].iter().enumerate().map(|(i, pc)| Case { op: OpSpec::For(Curve::Bls, ForKind::InSubgroup), pc: vec![*pc], kc: vec![], seed: vpcore::derive_seed(&["C06", "d2"], p.seed.wrapping_add(i as u64)), n: 2, mode: 0 }).collect();
        p.enumerate("regression.bls12_381.assert_in_subgroup.complete", "points of the prime-order subgroup (random, generator, identity) must satisfy assert_in_bls12_381_subgroup", keep(d2), 3, false, |c| -> CaseResult {
            let (x, labels, nt) = build(c);
            let op = ForOp::new(Curve::Bls, ForKind::InSubgroup);
            let inst = op.reference(&x).ok_or_else(|| Failure::new("harness:d2:out-of-domain", ""))?;
            let r = run_given(&op, &x, &inst);
            vpcore::ensure!(r.outcome.accepted(), "bls12_381.assert_in_bls12_381_subgroup:rejects-subgroup-point", "honest witness for the subgroup point x={x:?} is rejected: {:?}", r.outcome);
            Ok(verdict(c, labels, nt, "subgroup-point-accepted"))
        });

        // ---- regression (D3, consequence of D1): the constraint system of assert_in_bls12_381_subgroup must
        //      reject points outside the subgroup whatever cofactor root the prover chooses ----
        let d3: Vec<u32> = if only.as_deref().map(|o| "bls12_381.assert_in_bls12_381_subgroup".contains(o) || o.contains("subgroup")).unwrap_or(true) { vec![0, 1, 2] } else { vec![] };
        p.enumerate(
            "regression.bls12_381.assert_in_subgroup.forged_root",
            "p outside the prime-order subgroup (order 11*r; order 11), root := k^-1 * p with k = lo64 + hi64 of the cofactor constant: must be rejected; control: unrelated root is rejected",
            d3,
            3,
            false,
            |mode: &u32| -> CaseResult {
                let w = wctx(Curve::Bls);
                let op = BlsSubgroupForge;
                let q11 = bls_low_order_point(11);
                let mut rng = SplitMix(p.seed ^ 0xd3);
                let s = w.rand_point(&mut rng);
                let (pt, ord) = match mode {
                    0 | 2 => (w.w.add(&s, &q11), &w.n * 11u32),
                    _ => (q11.clone(), BigUint::from(11u32)),
                };
                vpcore::ensure!(w.w.on_curve(&pt) && !w.in_subgroup(&pt), "harness:d3:point", "not a point outside the subgroup");
                let k = BigUint::from(0x8c00aaab0000aaabu64) + BigUint::from(0x396c8c005555e156u64);
                // roots tried: (lo64+hi64)^-1 * p (accepted before the fix of D1) and an unrelated point (control)
                let root = if *mode == 2 { w.rand_point(&mut rng) } else { w.w.mul(&pt, &k.modinv(&ord).unwrap()) };
                let (px, py) = pt.clone().unwrap();
                let (rx, ry) = root.unwrap();
                let x = vec![px, py, rx, ry];
                let inst = op.reference(&x).unwrap();
                let r = run_given(&op, &x, &inst);
                if *mode == 2 {
                    vpcore::ensure!(!r.outcome.accepted(), "bls12_381.assert_in_bls12_381_subgroup:accepts-unrelated-root", "x={x:?}");
                    return Ok(Verdict::nontrivial("control: unrelated root rejected"));
                }
                vpcore::ensure!(
                    !r.outcome.accepted(),
                    "bls12_381.assert_in_bls12_381_subgroup:accepts-point-outside-subgroup:prover-chosen-root",
                    "the calls of assert_in_bls12_381_subgroup (assign root; mul_by_constant(COFACTOR, root); assert_equal(p, .)) are satisfied for p = ({}, {}) of order {} (outside the prime-order subgroup) with root = ({}, {}) = (lo64+hi64)^-1 * p",
                    x[0], x[1], if *mode == 0 { "11*r" } else { "11" }, x[2], x[3]
                );
                Ok(Verdict::nontrivial("outside-subgroup rejected"))
            },
        );

        // ---- informational probe (C06_PROBE=1): scalar multiplication of BLS12-381 points outside the
        //      prime-order subgroup (outside the documented domain of the foreign chip) ----
        if std::env::var("C06_PROBE").is_ok() {
            let kinds = vec![ForKind::Msm(1), ForKind::MsmBounded(1, 64), ForKind::MulConst("b".into()), ForKind::MsmLeBits(1, 260)];
            p.enumerate("probe.bls12_381.scalar_mul_outside_subgroup", "informational", kinds, 4, false, |k: &ForKind| -> CaseResult {
                let w = wctx(Curve::Bls);
                let op = ForOp::new(Curve::Bls, k.clone());
                let pt = w.w.add(&w.g, &w.order3());
                let (a, b) = pt.clone().unwrap();
                let mut x = vec![a, b, BigUint::zero()];
                let sc = if matches!(k, ForKind::MsmBounded(..)) { BigUint::from(0x1234567u32) } else { (BigUint::from(0x1234567u32) << 220) + BigUint::from(12345u32) };
                if k.is_msm() {
                    x.push(sc.clone());
                }
                let kk = if k.is_msm() { sc } else { BigUint::from(11u32) };
                let n_pub = op.n_input_scalars() + 2 * w.nl;
                let r = run_faulted(&op, &x, n_pub, HashMap::new());
                let got = w.dec_point(&r.public[op.n_input_scalars()..]);
                let exp = w.w.mul(&pt, &kk);
                let lab = format!("{}: outcome={} result-is-integer-multiple={}", op.name(), r.outcome.label(), got == Ok(exp));
                println!("PROBE {lab}");
                Ok(Verdict::trivial(lab))
            });
        }

        // ---- self-check of `ops_ecc::visit_ops` (C06_VISIT=quick|full): every tuple in-domain and accepted ----
        if let Ok(mode) = std::env::var("C06_VISIT") {
            struct Check(Vec<String>, usize);
            impl OpVisitor for Check {
                fn visit<O: Op>(&mut self, op: &O, inputs: &[Vec<BigUint>]) {
                    for x in inputs {
                        self.1 += 1;
                        match op.reference(x) {
                            None => self.0.push(format!("{}: out of domain {x:?}", op.name())),
                            Some(inst) => {
                                let r = run_given(op, x, &inst);
                                if !r.outcome.accepted() {
                                    self.0.push(format!("{}: {:?} for {x:?}", op.name(), r.outcome));
                                }
                            }
                        }
                    }
                }
            }
            p.enumerate("visit_ops.selfcheck", "development aid", vec![mode], 1, false, |m: &String| -> CaseResult {
                let mut c = Check(vec![], 0);
                visit_ops(&mut c, m != "full", p.seed);
                vpcore::ensure!(c.0.is_empty(), "harness:visit_ops", "{:?}", c.0);
                Ok(Verdict::trivial(format!("tuples={}", c.1)))
            });
        }

        // ---- development aid (C06_DUMPLOG=secp|bls): assignment log of msm(1) ----
        if let Ok(which) = std::env::var("C06_DUMPLOG") {
            let cv = if which == "bls" { Curve::Bls } else { Curve::Secp };
            let op = ForOp::new(cv, ForKind::Msm(1));
            let (x, _, _) = build_for(cv, &ForKind::Msm(1), &[0], &[0], 1);
            let n_pub = op.reference(&x).unwrap().len();
            let r = run_faulted(&op, &x, n_pub, HashMap::new());
            let mut last_row = None;
            for l in r.log.iter().take(2500) {
                // one line per row start
                if l.offset == 0 && last_row != l.abs_row {
                    eprintln!("LOG #{} col={} off={} row={:?}", l.index, l.column, l.offset, l.abs_row);
                }
                last_row = l.abs_row;
            }
            eprintln!("LOG total {}", r.log.len());
        }
        let _ = HashMap::<u8, u8>::new();
        vp_circ::catalogue_sweep!(p, "catalogue.sweep", vp_circ::ops_ecc::visit_ops, p.tier.pick(2, 1), p.tier.pick(300, 100_000), 16);
    });
}
