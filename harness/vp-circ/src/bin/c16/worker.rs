//! The isolated worker: reads cases (one JSON line each) on stdin, answers with
//! `BEGIN <id>` / `AT <entry>` / `ALLOC <bytes>` / `END <id> <outcome json>`.

use std::io::BufRead;
use std::sync::OnceLock;

use ff::PrimeField;
use group::Group;
use midnight_curves::{Bls12, G1Projective};
use midnight_proofs::poly::commitment::Guard;
use midnight_proofs::transcript::{CircuitTranscript, Transcript};
use midnight_proofs::{
    plonk::{ConstraintSystem, ProvingKey, VerifyingKey},
    poly::kzg::{
        params::{ParamsKZG, ParamsVerifierKZG},
        KZGCommitmentScheme,
    },
};
use midnight_zk_stdlib::{MidnightCircuit, MidnightPK, MidnightVK, Relation, ZkStdLib, ZkStdLibArch};
use vp_circ::e6::{Blake, Fix, Poseidon, ALL_FIX, F};

use crate::alloc::{alarm, guarded, raw_out};
use crate::points;
use crate::types::{hex_prefix, Bundle, Case, Fmt, Obj, Outcome};

type Kzg = KZGCommitmentScheme<Bls12>;
type PlonkVk = VerifyingKey<F, Kzg>;

pub const CASE_TIMEOUT_S: u32 = 240;

pub fn worker_main(dir: &str) -> ! {
    vpcore::install_panic_hook();
    let b = Bundle::open(std::path::Path::new(dir));
    let stdin = std::io::stdin();
    for line in stdin.lock().lines() {
        let Ok(line) = line else { break };
        if line.is_empty() {
            continue;
        }
        let (id, case): (u64, Case) = match serde_json::from_str(&line) {
            Ok(x) => x,
            Err(e) => {
                raw_out(format!("BADCASE {e}\n").as_bytes());
                continue;
            }
        };
        raw_out(format!("BEGIN {id}\n").as_bytes());
        unsafe { alarm(CASE_TIMEOUT_S) };
        let o = run_case(&b, &case);
        unsafe { alarm(0) };
        raw_out(format!("END {id} {}\n", serde_json::to_string(&o).unwrap()).as_bytes());
    }
    std::process::exit(0)
}

fn fail(out: &mut Outcome, sig: String, detail: String) {
    if out.fail.is_none() {
        out.fail = Some((sig, detail));
    }
}

fn psig(entry: &str, p: &str) -> String {
    format!("panic:{entry}:{}", crate::types::stable_panic(p))
}

// ---- valid objects (decoded once per worker from the bundle) ----------------

fn valid_vk(b: &Bundle, fix: Fix) -> &'static MidnightVK {
    static C: [OnceLock<MidnightVK>; 3] = [OnceLock::new(), OnceLock::new(), OnceLock::new()];
    C[fix as usize].get_or_init(|| {
        let mut r = b.base(&Obj::Vk { fix, fmt: Fmt::RawBytes });
        MidnightVK::read(&mut r, Fmt::RawBytes.serde()).expect("valid vk must decode")
    })
}

fn valid_params(b: &Bundle) -> &'static ParamsVerifierKZG<Bls12> {
    static C: OnceLock<ParamsVerifierKZG<Bls12>> = OnceLock::new();
    C.get_or_init(|| {
        let mut r = b.base(&Obj::Params { fmt: Fmt::RawBytes });
        ParamsVerifierKZG::read(&mut r, Fmt::RawBytes.serde()).expect("valid params must decode")
    })
}

fn instance(b: &Bundle, fix: Fix) -> Vec<F> {
    b.get(&format!("inst_{}", fix as u8))
        .chunks(32)
        .map(|c| {
            let mut r = <F as PrimeField>::Repr::default();
            r.as_mut().copy_from_slice(c);
            Option::from(F::from_repr(r)).expect("valid instance")
        })
        .collect()
}

fn proof(b: &Bundle, fix: Fix, poseidon: bool) -> &'static [u8] {
    b.base(&Obj::Proof { fix, poseidon, vk_fix: fix })
}

fn verify_with(vp: &ParamsVerifierKZG<Bls12>, vk: &MidnightVK, inst: &Vec<F>, proof: &[u8], poseidon: bool) -> Result<(), String> {
    if poseidon {
        midnight_zk_stdlib::verify::<Fix, Poseidon>(vp, vk, inst, None, proof).map_err(|e| format!("{e:?}"))
    } else {
        midnight_zk_stdlib::verify::<Fix, Blake>(vp, vk, inst, None, proof).map_err(|e| format!("{e:?}"))
    }
}

fn batch_with(vp: &ParamsVerifierKZG<Bls12>, vk: &MidnightVK, inst: &Vec<F>, proof: &[u8], poseidon: bool) -> Result<(), String> {
    let (vks, pis, proofs) = ([vk.clone()], [inst.clone()], [proof.to_vec()]);
    if poseidon {
        midnight_zk_stdlib::batch_verify::<Poseidon>(vp, &vks, &pis, &proofs).map_err(|e| format!("{e:?}"))
    } else {
        midnight_zk_stdlib::batch_verify::<Blake>(vp, &vks, &pis, &proofs).map_err(|e| format!("{e:?}"))
    }
}

// ---- entry points -----------------------------------------------------------

pub fn run_case(b: &Bundle, c: &Case) -> Outcome {
    let (input, diff) = b.input(c);
    let mut out = Outcome::default();
    let identity_dup = !matches!(c.m, crate::types::Mut::Identity) && input == b.base(&c.obj);
    match &c.obj {
        Obj::Vk { fix, fmt } => run_vk(b, *fix, *fmt, &input, diff, &mut out),
        Obj::PlonkVk { fix, fmt } => run_plonk_vk(b, *fix, *fmt, &input, diff, &mut out),
        Obj::Params { fmt } => run_params(b, *fmt, &input, diff, &mut out),
        Obj::Arch { .. } => run_arch(&input, diff, &mut out),
        Obj::Proof { fix, poseidon, vk_fix } => run_proof(b, *fix, *poseidon, *vk_fix, &input, diff, &mut out),
        Obj::ZkirJson { .. } => crate::zk::run(true, &input, diff, &mut out),
        Obj::ZkirBin { .. } => crate::zk::run(false, &input, diff, &mut out),
        Obj::ZkirRoundtrip { .. } => {
            out.nontrivial = true;
            let r = guarded("ZkirRelation::read_relation", input.len(), || {
                let mut r = &input[..];
                <midnight_zkir::ZkirRelation as Relation>::read_relation(&mut r).map(|_| r.len()).map_err(|e| format!("{e}"))
            });
            match r {
                Ok(Ok(0)) => out.classes.push("roundtrip-ok".into()),
                Ok(Ok(rem)) => fail(&mut out, "ZkirRelation::read_relation:leaves-bytes-of-write_relation-output".into(), format!("{rem} bytes not consumed")),
                Ok(Err(e)) => fail(&mut out, "ZkirRelation::read_relation:rejects-write_relation-output".into(), format!("read_relation on the exact output of write_relation of a valid program: {e}; bytes {}", hex_prefix(&input, 200))),
                Err(p) => fail(&mut out, psig("ZkirRelation::read_relation", &p), p),
            }
        }
        Obj::Pk { .. } | Obj::PlonkPk { .. } | Obj::FullParams { .. } => run_report_only(&c.obj, &input, &mut out),
    }
    if identity_dup {
        out.nontrivial = false;
        out.classes.push("same-as-valid".into());
    }
    out.classes.insert(0, format!("{}:{}", c.obj.tag(), c.m.tag()));
    out
}

fn check_vk_points(vk: &PlonkVk, fmt: Fmt) -> Result<(), String> {
    for p in vk.fixed_commitments().iter().chain(vk.permutation().commitments().iter()) {
        points::g1_ok(p, fmt == Fmt::Processed)?;
    }
    Ok(())
}

fn run_vk(b: &Bundle, fix: Fix, fmt: Fmt, input: &[u8], diff: usize, out: &mut Outcome) {
    let n = input.len();
    let r = guarded("MidnightVK::read", n, || {
        let mut r = input;
        let res = MidnightVK::read(&mut r, fmt.serde());
        (res, r.len())
    });
    let (vk, rem) = match r {
        Err(p) => return fail(out, psig("MidnightVK::read", &p), format!("MidnightVK::read({fmt:?}) panicked: {p}; input {}", hex_prefix(input, 64))),
        Ok((Err(_), _)) => {
            out.nontrivial = diff <= 8;
            out.classes.push("rejected".into());
            return;
        }
        Ok((Ok(vk), rem)) => (vk, rem),
    };
    out.nontrivial = true;
    out.classes.push("decoded".into());
    let consumed = n - rem;
    let mut w = vec![];
    match guarded("MidnightVK::write", n, || vk.write(&mut w, fmt.serde())) {
        Err(p) => return fail(out, psig("MidnightVK::write", &p), format!("write of a decoded key panicked: {p}")),
        Ok(Err(e)) => return fail(out, "MidnightVK::write:error-on-decoded-key".into(), format!("{e}")),
        Ok(Ok(())) => {}
    }
    if w[..] != input[..consumed] {
        let at = w.iter().zip(input.iter()).position(|(a, b)| a != b).unwrap_or(w.len().min(consumed));
        return fail(out, format!("noncanonical:MidnightVK::read:{fmt:?}"), format!("decoded key re-encodes differently (first difference at byte {at}; consumed {consumed}, re-encoded {}); input {}", w.len(), hex_prefix(input, 64)));
    }
    if let Err(e) = check_vk_points(vk.vk(), fmt) {
        return fail(out, format!("invalid-point-accepted:MidnightVK::read:{fmt:?}"), e);
    }
    let honest = w[..] == *b.base(&Obj::Vk { fix, fmt });
    if honest {
        out.classes.push("decoded-equals-honest".into());
    }
    // use the decoded key
    let vp = valid_params(b);
    let inst = instance(b, fix);
    let pr = proof(b, fix, false);
    let mut bad = pr.to_vec();
    let mid = bad.len() / 2;
    bad[mid] ^= 0x10;
    let claimed = u32::from_le_bytes([w[17], w[18], w[19], w[20]]) as usize;
    let mut runs: Vec<(&str, Result<Result<(), String>, String>)> = vec![];
    runs.push(("verify(decoded-vk)", guarded("verify(decoded-vk)", n, || verify_with(vp, &vk, &inst, pr, false))));
    runs.push(("verify(decoded-vk,corrupted-proof)", guarded("verify(decoded-vk,corrupted-proof)", n, || verify_with(vp, &vk, &inst, &bad, false))));
    runs.push(("batch_verify(decoded-vk)", guarded("batch_verify(decoded-vk)", n, || batch_with(vp, &vk, &inst, pr, false))));
    runs.push(("verify(decoded-vk,poseidon)", guarded("verify(decoded-vk,poseidon)", n, || verify_with(vp, &vk, &inst, proof(b, fix, true), true))));
    if claimed != inst.len() && claimed <= 64 {
        // an instance of the length the key claims, so that the call reaches the PLONK verifier
        let inst2: Vec<F> = (0..claimed).map(|i| inst.get(i).copied().unwrap_or(F::from(i as u64))).collect();
        runs.push(("verify(decoded-vk)", guarded("verify(decoded-vk)", n, || verify_with(vp, &vk, &inst2, pr, false))));
        runs.push(("batch_verify(decoded-vk)", guarded("batch_verify(decoded-vk)", n, || batch_with(vp, &vk, &inst2, pr, false))));
        out.classes.push("claimed-instance-length".into());
    }
    for (i, (entry, r)) in runs.iter().enumerate() {
        match r {
            Err(p) => fail(out, psig(entry, p), format!("{entry} panicked with a key that decoded successfully: {p}; key bytes {}", hex_prefix(input, 64))),
            Ok(res) => {
                if i == 0 {
                    out.classes.push(if res.is_ok() { "verify-ok".into() } else { "verify-err".to_string() });
                }
                if honest && i < 4 {
                    let want_ok = i != 1;
                    if res.is_ok() != want_ok {
                        fail(out, "harness:honest-key-verdict".into(), format!("{entry} with the honest key returned {res:?}"));
                    }
                }
            }
        }
    }
}

fn run_plonk_vk(b: &Bundle, fix: Fix, fmt: Fmt, input: &[u8], diff: usize, out: &mut Outcome) {
    let n = input.len();
    let arch = fix.used_chips();
    let a = guarded("plonk::VerifyingKey::read", n, || {
        let mut r = input;
        let res = PlonkVk::read::<_, MidnightCircuit<Fix>>(&mut r, fmt.serde(), arch);
        (res, r.len())
    });
    let bb = guarded("plonk::VerifyingKey::read_from_cs", n, || {
        let mut cs = ConstraintSystem::default();
        let _ = ZkStdLib::configure(&mut cs, arch);
        let mut r = input;
        let res = PlonkVk::read_from_cs(&mut r, fmt.serde(), cs);
        (res, r.len())
    });
    let (a, bb) = match (a, bb) {
        (Err(p), _) => return fail(out, psig("plonk::VerifyingKey::read", &p), format!("VerifyingKey::read({fmt:?}) panicked: {p}; input {}", hex_prefix(input, 48))),
        (_, Err(p)) => return fail(out, psig("plonk::VerifyingKey::read_from_cs", &p), format!("VerifyingKey::read_from_cs({fmt:?}) panicked: {p}; input {}", hex_prefix(input, 48))),
        (Ok(a), Ok(b)) => (a, b),
    };
    if a.0.is_ok() != bb.0.is_ok() || a.1 != bb.1 && a.0.is_ok() {
        return fail(out, "plonk::VerifyingKey:read-vs-read_from_cs".into(), format!("read: ok={} rem={}, read_from_cs: ok={} rem={}", a.0.is_ok(), a.1, bb.0.is_ok(), bb.1));
    }
    let (vk, rem) = match a {
        (Err(_), _) => {
            out.nontrivial = diff <= 8;
            out.classes.push("rejected".into());
            return;
        }
        (Ok(vk), rem) => (vk, rem),
    };
    out.nontrivial = true;
    out.classes.push("decoded".into());
    let consumed = n - rem;
    let mut w = vec![];
    match guarded("plonk::VerifyingKey::write", n, || vk.write(&mut w, fmt.serde())) {
        Err(p) => return fail(out, psig("plonk::VerifyingKey::write", &p), format!("write of a decoded key panicked: {p}")),
        Ok(Err(e)) => return fail(out, "plonk::VerifyingKey::write:error-on-decoded-key".into(), format!("{e}")),
        Ok(Ok(())) => {}
    }
    if w[..] != input[..consumed] {
        return fail(out, format!("noncanonical:plonk::VerifyingKey::read:{fmt:?}"), format!("decoded key re-encodes differently; input {}", hex_prefix(input, 48)));
    }
    if let Err(e) = check_vk_points(&vk, fmt) {
        fail(out, format!("invalid-point-accepted:plonk::VerifyingKey::read:{fmt:?}"), e);
    }
    // use the decoded key through the PLONK-level entry points (no MidnightVK wrapper in front):
    // the fixture proof with the honest public inputs, and with an empty public-input column
    // (what a key declaring a tiny domain can still be asked to verify)
    let vp = valid_params(b);
    let inst = instance(b, fix);
    let pr = proof(b, fix, false);
    let committed = [G1Projective::identity()];
    let empty: Vec<F> = vec![];
    for (entry, pi) in [("plonk::prepare(decoded-vk)", &inst), ("plonk::prepare(decoded-vk,empty-instance)", &empty)] {
        let r = guarded(entry, n, || {
            let mut t = CircuitTranscript::<Blake>::init_from_bytes(pr);
            let g = midnight_proofs::plonk::prepare::<F, KZGCommitmentScheme<Bls12>, CircuitTranscript<Blake>>(&vk, &[&committed], &[&[&pi[..]]], &mut t).map_err(|e| format!("{e:?}"))?;
            g.verify(vp).map_err(|e| format!("{e:?}"))
        });
        match r {
            Err(p) => fail(out, psig(entry, &p), format!("{entry} panicked with a key that decoded successfully: {p}; key bytes {}", hex_prefix(input, 48))),
            Ok(res) => {
                if std::env::var("VP_C16_DEBUG").is_ok() {
                    eprintln!("{entry}: {res:?}");
                }
                out.classes.push(format!(
                "{}:{}",
                if pi.is_empty() { "prepare-empty" } else { "prepare" },
                match &res {
                    Ok(()) => "ok".to_string(),
                    Err(e) => format!("err:{}", e.split(|c: char| !c.is_alphanumeric()).next().unwrap_or("")),
                }
            ))
            }
        }
    }
}

fn run_params(b: &Bundle, fmt: Fmt, input: &[u8], diff: usize, out: &mut Outcome) {
    let n = input.len();
    let r = guarded("ParamsVerifierKZG::read", n, || {
        let mut r = input;
        let res = ParamsVerifierKZG::<Bls12>::read(&mut r, fmt.serde());
        (res, r.len())
    });
    let (vp, rem) = match r {
        Err(p) => return fail(out, psig("ParamsVerifierKZG::read", &p), format!("ParamsVerifierKZG::read({fmt:?}) panicked: {p}; input {}", hex_prefix(input, 200))),
        Ok((Err(_), _)) => {
            out.nontrivial = diff <= 8;
            out.classes.push("rejected".into());
            return;
        }
        Ok((Ok(vp), rem)) => (vp, rem),
    };
    out.nontrivial = true;
    out.classes.push("decoded".into());
    let consumed = n - rem;
    let mut w = vec![];
    match guarded("ParamsVerifierKZG::write", n, || vp.write(&mut w, fmt.serde())) {
        Err(p) => return fail(out, psig("ParamsVerifierKZG::write", &p), p),
        Ok(Err(e)) => return fail(out, "ParamsVerifierKZG::write:error".into(), format!("{e}")),
        Ok(Ok(())) => {}
    }
    if w[..] != input[..consumed] {
        return fail(out, format!("noncanonical:ParamsVerifierKZG::read:{fmt:?}"), format!("decoded parameters re-encode differently; input {} re-encoded {}", hex_prefix(input, 200), hex_prefix(&w, 200)));
    }
    // G2 is checked for the subgroup in both formats by the library's own doc
    // ("from_uncompressed": on curve and torsion free); the property demands it
    // for compressed points only.
    if let Err(e) = points::g2_bytes_ok(&w, fmt == Fmt::Processed, fmt == Fmt::Processed) {
        return fail(out, format!("invalid-point-accepted:ParamsVerifierKZG::read:{fmt:?}"), format!("{e}; input {}", hex_prefix(input, 200)));
    }
    let honest = w[..] == *b.base(&Obj::Params { fmt });
    let fix = Fix::Affine3;
    let (vk, inst, pr) = (valid_vk(b, fix), instance(b, fix), proof(b, fix, false));
    match guarded("verify(decoded-params)", n, || verify_with(&vp, vk, &inst, pr, false)) {
        Err(p) => fail(out, psig("verify(decoded-params)", &p), format!("verify panicked with parameters that decoded successfully: {p}; input {}", hex_prefix(input, 200))),
        Ok(res) => {
            out.classes.push(if res.is_ok() { "verify-ok".into() } else { "verify-err".to_string() });
            if honest != res.is_ok() {
                fail(out, if honest { "harness:honest-params-rejected".into() } else { "verify:accepts-under-other-params".to_string() }, format!("verify returned {res:?} under parameters {}", hex_prefix(&w, 200)));
            }
        }
    }
}

fn run_arch(input: &[u8], diff: usize, out: &mut Outcome) {
    let n = input.len();
    let r = guarded("ZkStdLibArch::read", n, || {
        let mut r = input;
        let res = ZkStdLibArch::read_from_serialized_vk(&mut r);
        (res, r.len())
    });
    let (arch, rem) = match r {
        Err(p) => return fail(out, psig("ZkStdLibArch::read", &p), format!("ZkStdLibArch::read panicked: {p}; input {}", hex::encode(input))),
        Ok((Err(_), _)) => {
            out.nontrivial = diff <= 8;
            out.classes.push("rejected".into());
            return;
        }
        Ok((Ok(a), rem)) => (a, rem),
    };
    out.nontrivial = true;
    out.classes.push("decoded".into());
    let mut w = vec![];
    let _ = arch.write(&mut w);
    if w[..] != input[..n - rem] {
        return fail(out, "noncanonical:ZkStdLibArch::read".into(), format!("decoded descriptor re-encodes differently: input {} re-encoded {}", hex::encode(input), hex::encode(&w)));
    }
    // a decoded descriptor is used to configure the constraint system (nb_points is the public API doing exactly that)
    match guarded("ZkStdLibArch::nb_points", n, || arch.nb_points()) {
        Err(p) => fail(out, psig("ZkStdLibArch::nb_points", &p), format!("nb_points()/ZkStdLib::configure panicked on a descriptor that decoded successfully: {p}; descriptor {}", hex::encode(input))),
        Ok(_) => out.classes.push(format!("configured:pow2range_cols={}", arch.nr_pow2range_cols.min(6))),
    }
}

fn run_proof(b: &Bundle, fix: Fix, poseidon: bool, vk_fix: Fix, input: &[u8], diff: usize, out: &mut Outcome) {
    let n = input.len();
    let vp = valid_params(b);
    let vk = valid_vk(b, vk_fix);
    let honest = input == proof(b, fix, poseidon) && fix == vk_fix;
    let mut insts = vec![instance(b, fix)];
    if vk_fix != fix {
        insts.push(instance(b, vk_fix));
    }
    out.nontrivial = diff <= 8;
    for (j, inst) in insts.iter().enumerate() {
        match guarded("verify", n, || verify_with(vp, vk, inst, input, poseidon)) {
            Err(p) => return fail(out, psig("verify", &p), format!("verify panicked: {p}; proof {} ({:?} proof, key of {:?}, {} transcript)", hex_prefix(input, 96), fix, vk_fix, if poseidon { "poseidon" } else { "blake2b" })),
            Ok(res) => {
                if j == 0 {
                    out.classes.push(if res.is_ok() { "accepted".into() } else { "rejected".to_string() });
                }
                if res.is_ok() != (honest && j == 0) {
                    return fail(out, if honest { "harness:honest-proof-rejected".into() } else { "verify:accepts-mutated-proof".to_string() }, format!("verify = {res:?} for proof {} ({fix:?} proof, key of {vk_fix:?})", hex_prefix(input, 96)));
                }
            }
        }
    }
    if vpcore::digest(&input) % 4 == 0 || honest {
        match guarded("batch_verify", n, || batch_with(vp, vk, &insts[insts.len() - 1], input, poseidon)) {
            Err(p) => fail(out, psig("batch_verify", &p), format!("batch_verify panicked: {p}; proof {}", hex_prefix(input, 96))),
            Ok(res) => {
                out.classes.push("batch".into());
                if res.is_ok() != honest {
                    fail(out, if honest { "harness:honest-proof-rejected:batch".into() } else { "batch_verify:accepts-mutated-proof".to_string() }, format!("batch_verify = {res:?}"));
                }
            }
        }
    }
}

fn run_report_only(obj: &Obj, input: &[u8], out: &mut Outcome) {
    let n = input.len();
    let tag = obj.tag();
    // Ok(Some(canonical)) decoded; Ok(None) rejected
    let r: Result<Option<bool>, String> = match obj {
        Obj::Pk { fmt, .. } => guarded("MidnightPK::read", n, || {
            let mut r = input;
            MidnightPK::<Fix>::read(&mut r, fmt.serde()).ok().map(|pk| {
                let mut w = vec![];
                let used = n - r.len();
                pk.write(&mut w, fmt.serde()).is_ok() && w[..] == input[..used]
            })
        }),
        Obj::PlonkPk { fix, fmt } => guarded("plonk::ProvingKey::read", n, || {
            let mut r = input;
            ProvingKey::<F, Kzg>::read::<_, MidnightCircuit<Fix>>(&mut r, fmt.serde(), fix.used_chips()).ok().map(|pk| {
                let mut w = vec![];
                let used = n - r.len();
                pk.write(&mut w, fmt.serde()).is_ok() && w[..] == input[..used]
            })
        }),
        Obj::FullParams { fmt } => guarded("ParamsKZG::read_custom", n, || {
            let mut r = input;
            ParamsKZG::<Bls12>::read_custom(&mut r, fmt.serde()).ok().map(|p| {
                let mut w = vec![];
                let used = n - r.len();
                p.write_custom(&mut w, fmt.serde()).is_ok() && w[..] == input[..used]
            })
        }),
        _ => unreachable!(),
    };
    out.nontrivial = false;
    out.classes.push(match r {
        Ok(Some(true)) => format!("report-only:{tag}:decoded"),
        Ok(Some(false)) => format!("report-only:{tag}:decoded-noncanonical"),
        Ok(None) => format!("report-only:{tag}:rejected"),
        Err(p) => format!("report-only:{tag}:panic:{}", crate::types::stable_panic(&p)),
    });
    let _ = ALL_FIX;
}
