//! C19 — regex compilation, automaton parsing and base64 decoding are exact.
//!
//! Sub-checks
//!  * `regex.compile`              random ASTs over the public combinators vs the
//!                                 derivative reference (`vp_circ::regex_ref`), all words
//!                                 (product exploration), structural invariants.
//!  * `regex.complement-degenerate` REGRESSION of the fixed findings R1–R5 (F16 and
//!                                 relatives): ε / empty-language operands under neg,
//!                                 minus, iteration, concatenation; `any()` at top
//!                                 level; `byte_from` with a repeated byte — minimal
//!                                 expressions + plugged into random contexts. The main
//!                                 generator explores these shapes too.
//!  * `regex.relabel-above-complement` relabelling above `any()`: known finding
//!                                 `regex:relabel-above-any`; relabelling above a
//!                                 complement is outside the documented domain (counted
//!                                 exclusion, also in the main generator).
//!  * `regex.empty-operand`        expressions with an empty-language operand (finding
//!                                 `regex:empty-language-operand:*`: dead states reach
//!                                 the output-determinism check); excluded (counted) from
//!                                 the main streams.
//! Known-finding signatures emitted: `regex:relabel-above-any`,
//! `base64:from_vec-short-vector`, `base64:malformed-input-satisfiable:<class>` with
//! class ∈ {other-variant-char, nonzero-trailing-bits, too-many-pads,
//! pad-replacing-data, length-1-mod-4}. Dead / unreachable states left in a compiled
//! automaton are a class label (observation), never a failure.
//!  * `regex.named`                library-named expressions (utf8, json_string, …) vs
//!                                 the reference written from their doc comments.
//!  * `automaton.circuit`          `AutomatonChip` in a harness circuit (automata passed
//!                                 through `Circuit::Params`), accepted / rejected words.
//!  * `shipped.*`                  shipped serialized automata, harness serializer, round
//!                                 trips, byte fuzzing of the deserializer.
//!  * `base64.*`                   fixed (E2 ops over ZkStdLib) and variable length
//!                                 (harness circuit over `Base64Chip`) decoding.
//!
//! Sensitivity — mutants applied in a scratch worktree (GUIDE), all caught by
//! `quick` with VERIF_SEED=1 (M1 also with seeds 2, 3):
//!  * M1 `nerode_congruence` indexes predecessors by byte only (minimise merges
//!    states that differ in the markers they emit)        → regex.compile `regex:marker`
//!    (needed the "keyed marking" generator template: without it the mutant survived).
//!  * M2 complement without prior completion (`determinise(false, …)`, assertion
//!    relaxed)                                             → regex.compile `regex:rejects-valid`
//!    (shrunk to `Neg(Byte(97))`), regex.named.
//!  * M3 base64 `process_padded_chunk` without `cond_assert_equal` ("=A" padding)
//!                                                         → base64 `…:pad-then-char`.
//!    (The suggested mutant "accept non-zero trailing bits" is the behaviour of
//!    the unchanged tree, see the findings.)
//!  * M4 `AutomatonChip::parse` without `assert_final_state`
//!                                                         → automaton.circuit `rejected-word-satisfiable:proper-prefix`.
//!  * M5 one marker changed in the shipped `automaton_cache/Jwt`
//!                                                         → shipped.library `not-equivalent-to-spec:marker`.
//!  * M6 two values swapped in the base64 table            → base64 `incomplete`, `var:wrong-decoding-satisfiable`.
//! The repairs proposed for the regex findings (completion over marker 0 when the
//! marker set is empty, `complete` of the empty concatenation, ε-accepting operand in
//! `concat`, state count in `redirect_final_to_initial`, marker set of `universal`,
//! de-duplication in `byte_from`) were applied together in the scratch worktree: every
//! `wrong-language` and `panic` signature of regex.complement-degenerate disappeared,
//! only `dead-state` (dead states left by a concatenation with an empty language)
//! remained.

use std::collections::{BTreeSet, HashMap};

use midnight_circuits::{
    field::{
        decomposition::{
            chip::{P2RDecompositionChip, P2RDecompositionConfig},
            pow2range::Pow2RangeChip,
        },
        native::{NB_ARITH_COLS, NB_ARITH_FIXED_COLS},
        NativeChip, NativeConfig, NativeGadget,
    },
    instructions::{base64::{Base64VarInstructions, Base64Vec}, *},
    parsing::{
        automaton_chip::{AutomatonChip, AutomatonConfig},
        verif_deserialize_automaton, verif_spec_library_data, Base64Chip, Base64Config, NB_BASE64_ADVICE_COLS,
    },
    types::{AssignedByte, AssignedNative, AssignedVector, ComposableChip, InnerValue},
    vec::vector_gadget::VectorGadget,
};
use midnight_proofs::{
    circuit::{Layouter, SimpleFloorPlanner, Value},
    dev::{MockProver, VerifyFailure},
    plonk::{Circuit, ConstraintSystem, Error},
};
use midnight_zk_stdlib::{ZkStdLib, ZkStdLibArch};
use num_bigint::BigUint;
use proptest::{collection::vec, prelude::*, strategy::ValueTree};
use rustc_hash::FxHashMap;
use serde::{Deserialize, Serialize};
use vp_circ::{
    e2::{self, Op, Outcome, F},
    regex_ref::{self as rr, LibAutomaton, Named, Re, RefAut, SimpleAut},
};
use vpcore::{CaseResult, Failure, SplitMix, Verdict};

type NG = NativeGadget<F, P2RDecompositionChip<F>, NativeChip<F>>;

// ---------------------------------------------------------------------------
// Generators

const POOL: &[u8] = b"ab01 Z-\n";

fn pool_byte() -> impl Strategy<Value = u8> {
    (0..POOL.len()).prop_map(|i| POOL[i])
}

fn named() -> impl Strategy<Value = Named> {
    prop_oneof![
        3 => Just(Named::Digit),
        3 => Just(Named::Lower),
        2 => Just(Named::Upper),
        2 => Just(Named::Blank),
        1 => Just(Named::Letter),
        1 => Just(Named::Alnum),
    ]
}

fn leaf_strategy() -> BoxedStrategy<Re> {
    prop_oneof![
        10 => pool_byte().prop_map(Re::Byte),
        6 => vec(pool_byte(), 1..4).prop_map(Re::ByteFrom),
        2 => vec(pool_byte(), 0..3).prop_map(Re::ByteNotFrom),
        2 => Just(Re::AnyByte),
        4 => named().prop_map(Re::Named),
        4 => vec(pool_byte(), 1..4).prop_map(|v| Re::Word(String::from_utf8(v).unwrap())),
        2 => Just(Re::Blanks),
        1 => Just(Re::BlanksStrict),
        1 => Just(Re::Any),
        // degenerate leaves are rare here: the dedicated sub-check plugs them everywhere
        1 => prop_oneof![3 => Just(Re::Epsilon), 1 => Just(Re::Empty), 1 => Just(Re::ByteFrom(vec![])), 1 => Just(Re::Word(String::new()))],
    ]
    .boxed()
}

fn bx(r: Re) -> Box<Re> {
    Box::new(r)
}

fn mark_table() -> impl Strategy<Value = Vec<(u8, usize)>> {
    vec((prop_oneof![4 => pool_byte(), 1 => Just(b'c'), 1 => Just(b'5')], 0..=3usize), 1..4)
}

/// Languages that intersect most others: character filters, "contains",
/// complements.
fn filter_strategy(inner: BoxedStrategy<Re>) -> BoxedStrategy<Re> {
    let list = |r: Re| Re::List { r: bx(r), spaced: false };
    prop_oneof![
        2 => Just(list(Re::AnyByte)),
        3 => mark_table().prop_map(move |table| Re::List { r: bx(Re::Mark { r: bx(Re::AnyByte), table }), spaced: false }),
        2 => named().prop_map(move |n| Re::List { r: bx(Re::Union(vec![Re::Named(n), Re::Named(Named::Blank), Re::ByteFrom(POOL.to_vec())])), spaced: false }),
        2 => vec(pool_byte(), 1..3).prop_map(move |v| Re::List { r: bx(Re::ByteNotFrom(v)), spaced: false }),
        3 => inner.clone().prop_map(|x| Re::Cat { items: vec![Re::Any, x, Re::Any], spaced: false }),
        3 => inner.clone().prop_map(|x| Re::Neg(bx(x))),
        1 => inner.prop_map(|x| Re::Neg(bx(Re::Cat { items: vec![Re::Any, x, Re::Any], spaced: false }))),
    ]
    .boxed()
}

fn re_strategy(marks: bool) -> BoxedStrategy<Re> {
    let spaced = || prop::bool::weighted(0.2);
    let count = || prop_oneof![1 => Just(0usize), 12 => 1..=3usize];
    leaf_strategy()
        .prop_recursive(4, 48, 3, move |inner| {
            let i = || inner.clone();
            let mut alts: Vec<(u32, BoxedStrategy<Re>)> = vec![
                (6, (vec(i(), 2..4), spaced()).prop_map(|(items, spaced)| Re::Cat { items, spaced }).boxed()),
                (5, vec(i(), 2..4).prop_map(Re::Union).boxed()),
                (2, vec(i(), 2..3).prop_map(Re::Inter).boxed()),
                // intersections with a language that overlaps most others
                (5, (i(), filter_strategy(inner.clone())).prop_map(|(a, f)| Re::Inter(vec![a, f])).boxed()),
                (1, vec(i(), 0..2).prop_map(|v| if v.len() == 1 { Re::Inter(v) } else { Re::Cat { items: v, spaced: false } }).boxed()),
                (2, (i(), i(), spaced()).prop_map(|(a, b, spaced)| Re::Terminated { a: bx(a), b: bx(b), spaced }).boxed()),
                (2, (i(), i()).prop_map(|(a, b)| Re::Or(bx(a), bx(b))).boxed()),
                (1, (i(), i()).prop_map(|(a, b)| Re::And(bx(a), bx(b))).boxed()),
                (3, (i(), filter_strategy(inner.clone())).prop_map(|(a, f)| Re::And(bx(a), bx(f))).boxed()),
                (4, i().prop_map(|a| Re::Neg(bx(a))).boxed()),
                (4, (i(), i()).prop_map(|(a, b)| Re::Minus(bx(a), bx(b))).boxed()),
                (5, (i(), spaced()).prop_map(|(r, spaced)| Re::List { r: bx(r), spaced }).boxed()),
                (4, (i(), spaced()).prop_map(|(r, spaced)| Re::NonEmptyList { r: bx(r), spaced }).boxed()),
                (3, i().prop_map(|r| Re::Optional(bx(r))).boxed()),
                (3, (i(), count(), spaced()).prop_map(|(r, n, spaced)| Re::Repeat { r: bx(r), n, spaced }).boxed()),
                (3, (i(), count(), spaced()).prop_map(|(r, n, spaced)| Re::RepeatAtMost { r: bx(r), n, spaced }).boxed()),
                (2, (i(), i(), spaced()).prop_map(|(r, sep, spaced)| Re::SepList { r: bx(r), sep: bx(sep), spaced }).boxed()),
                (2, (i(), i(), spaced()).prop_map(|(r, sep, spaced)| Re::SepNonEmptyList { r: bx(r), sep: bx(sep), spaced }).boxed()),
                (2, (vec(i(), 1..4), i(), spaced()).prop_map(|(items, sep, spaced)| Re::SepCat { items, sep: bx(sep), spaced }).boxed()),
                (1, (i(), count(), i(), spaced()).prop_map(|(r, n, sep, spaced)| Re::SepRepeat { r: bx(r), n, sep: bx(sep), spaced }).boxed()),
                (1, (i(), 1..=2usize, i(), spaced()).prop_map(|(r, n, sep, spaced)| Re::SepRepeatAtMost { r: bx(r), n, sep: bx(sep), spaced }).boxed()),
                (2, (i(), i(), i(), spaced()).prop_map(|(r, o, c, spaced)| Re::Delimited { r: bx(r), open: bx(o), close: bx(c), spaced }).boxed()),
            ];
            if marks {
                alts.push((4, (i(), mark_table()).prop_map(|(r, table)| Re::Mark { r: bx(r), table }).boxed()));
                alts.push((1, (i(), 0..=3usize).prop_map(|(r, m)| Re::MarkAll { r: bx(r), m }).boxed()));
                alts.push((3, (i(), vec(pool_byte(), 1..3), 0..=3usize).prop_map(|(r, bytes, m)| Re::MarkBytes { r: bx(r), bytes, m }).boxed()));
                alts.push((2, (i(), vec((0..=3usize, 0..=3usize), 1..3)).prop_map(|(r, upd)| Re::ReplaceMarkers { r: bx(r), upd }).boxed()));
            }
            proptest::strategy::Union::new_weighted(alts)
        })
        .boxed()
}

/// Top level: plain, or one of the usage patterns of the in-repo tests
/// (marking through an intersection with a marked `any_byte().list()`,
/// difference with a small language, marking at top level).
fn top_strategy() -> BoxedStrategy<Re> {
    prop_oneof![
        4 => re_strategy(true),
        3 => (re_strategy(false), mark_table()).prop_map(|(body, table)| Re::And(bx(body), bx(Re::List { r: bx(Re::Mark { r: bx(Re::AnyByte), table }), spaced: false }))),
        2 => (re_strategy(true), re_strategy(false)).prop_map(|(a, b)| Re::Minus(bx(a), bx(b))),
        2 => (re_strategy(false), mark_table()).prop_map(|(body, table)| Re::Mark { r: bx(body), table }),
        1 => (re_strategy(false), re_strategy(false)).prop_map(|(a, b)| Re::Inter(vec![Re::List { r: bx(a), spaced: false }, Re::List { r: bx(b), spaced: false }])),
        // the same body marked differently depending on a key read before (the
        // shape of the JWT specification): states that differ only in the
        // markers they emit
        3 => (re_strategy(false), re_strategy(false), mark_table(), 2..=3usize, any::<bool>(), prop_oneof![Just(Re::Epsilon), re_strategy(false)]).prop_map(|(body, tail, table, n, nested, ctx)| {
            let keys = [b'a', b'b', b'0'];
            let alts: Vec<Re> = (0..n)
                .map(|i| {
                    let t: Vec<(u8, usize)> = table.iter().map(|(b, m)| (*b, if *m == 0 { 0 } else { (*m + i - 1) % 3 + 1 })).collect();
                    let marked = if nested { Re::And(bx(body.clone()), bx(Re::List { r: bx(Re::Mark { r: bx(Re::AnyByte), table: t }), spaced: false })) } else { Re::Mark { r: bx(body.clone()), table: t } };
                    Re::Cat { items: vec![Re::Byte(keys[i]), Re::Byte(b'-'), marked, tail.clone()], spaced: false }
                })
                .collect();
            Re::Cat { items: vec![ctx, Re::Union(alts)], spaced: false }
        }),
    ]
    .boxed()
}

// ---------------------------------------------------------------------------
// (a) regex.compile

#[derive(Clone, Debug, Serialize, Deserialize)]
struct ReCase {
    re: Re,
}

const REF_CAP: usize = 2500;
const NONDET_MSG: &str = "a non output-deterministic language has been specified";

/// Contexts in which a proper sub-expression with a language ⊆ {ε} occurs as
/// an operand (the shapes of F16 and relatives). `epsilon()` directly under a
/// union is the ordinary way of writing an option and is not counted.
fn degenerate_operands(re: &Re) -> BTreeSet<&'static str> {
    fn sub_eps(r: &Re) -> bool {
        match RefAut::from_re(&r.strip_marks(), REF_CAP) {
            Ok(a) => a.sub_eps(),
            Err(_) => false,
        }
    }
    fn walk(re: &Re, out: &mut BTreeSet<&'static str>) {
        let kids = re.children();
        for (i, c) in kids.iter().enumerate() {
            if !sub_eps(c) {
                continue;
            }
            let kind = match re {
                Re::Union(_) | Re::Or(..) if matches!(c, Re::Epsilon) => continue,
                Re::Neg(_) => "complement",
                Re::Minus(..) if i == 1 => "complement",
                Re::Minus(..) | Re::And(..) | Re::Inter(_) => "intersection",
                Re::List { .. } | Re::NonEmptyList { .. } | Re::SepList { .. } | Re::SepNonEmptyList { .. } => "iteration",
                Re::Union(_) | Re::Or(..) | Re::Optional(_) => "union",
                Re::Mark { .. } | Re::MarkAll { .. } | Re::MarkBytes { .. } | Re::ReplaceMarkers { .. } => "relabel",
                _ => "concatenation",
            };
            out.insert(kind);
        }
        for c in kids {
            walk(c, out);
        }
    }
    let mut out = BTreeSet::new();
    walk(re, &mut out);
    out
}

/// A proper sub-expression with an empty language (finding R9: such an operand
/// leaves dead states in the automaton the output-determinism check runs on).
fn has_empty_operand(re: &Re) -> bool {
    fn empty(r: &Re) -> bool {
        RefAut::from_re(&r.strip_marks(), REF_CAP).map(|a| a.is_empty()).unwrap_or(false)
    }
    fn walk(re: &Re) -> bool {
        re.children().iter().any(|c| empty(c) || walk(c))
    }
    walk(re)
}

/// Signature of a failure on an expression with an empty-language operand.
fn empty_operand_failure(f: Failure, name: &str) -> Failure {
    let symptom = if f.signature.contains("spurious-nondeterminism") {
        "spurious-nondeterminism-panic"
    } else if f.signature.contains("panic") {
        "panic"
    } else {
        "wrong-language"
    };
    Failure::new(format!("regex:empty-language-operand:{symptom}"), format!("[{name}] {} ({})", f.detail, f.signature))
}

struct Features {
    inter: bool,
    neg: bool,
    star: bool,
    marker: bool,
    repeat: bool,
    sep: bool,
    spaced: bool,
}

fn features(re: &Re, r: &RefAut) -> Features {
    let has = |p: &dyn Fn(&Re) -> bool| re.any_node(p);
    let marker = r.trans.iter().enumerate().any(|(s, row)| r.live[s] && row.iter().any(|t| matches!(t, rr::Tr::To { marker, .. } if *marker != 0)));
    Features {
        inter: has(&|n| matches!(n, Re::And(..)) || matches!(n, Re::Inter(v) if v.len() >= 2)),
        neg: has(&|n| matches!(n, Re::Neg(_) | Re::Minus(..))),
        star: has(&|n| matches!(n, Re::List { .. } | Re::NonEmptyList { .. } | Re::SepList { .. } | Re::SepNonEmptyList { .. } | Re::Blanks | Re::BlanksStrict | Re::Any | Re::Utf8 | Re::JsonString)),
        marker,
        repeat: has(&|n| matches!(n, Re::Repeat { .. } | Re::RepeatAtMost { .. } | Re::SepRepeat { .. } | Re::SepRepeatAtMost { .. })),
        sep: has(&|n| matches!(n, Re::SepList { .. } | Re::SepNonEmptyList { .. } | Re::SepCat { .. } | Re::SepRepeat { .. } | Re::SepRepeatAtMost { .. } | Re::Delimited { .. })),
        spaced: has(&|n| {
            matches!(
                n,
                Re::Cat { spaced: true, .. }
                    | Re::Terminated { spaced: true, .. }
                    | Re::List { spaced: true, .. }
                    | Re::NonEmptyList { spaced: true, .. }
                    | Re::Repeat { spaced: true, .. }
                    | Re::RepeatAtMost { spaced: true, .. }
                    | Re::SepList { spaced: true, .. }
                    | Re::SepNonEmptyList { spaced: true, .. }
                    | Re::SepCat { spaced: true, .. }
                    | Re::SepRepeat { spaced: true, .. }
                    | Re::SepRepeatAtMost { spaced: true, .. }
                    | Re::Delimited { spaced: true, .. }
            )
        }),
    }
}

/// The library's subset constructions store two bit sets per (subset, letter):
/// expressions with many letter positions and many subsets need gigabytes and
/// minutes (observed: 100 positions × 250 reference states > 5 GB). Such
/// expressions are not compiled (counted as discards).
fn too_costly(re: &Re, r: Option<&RefAut>) -> bool {
    let p = re.positions();
    p > 60 || r.map(|r| p * r.n_states() > 2500).unwrap_or(false)
}

fn show_word(w: &[u8]) -> String {
    format!("{:?} (bytes {:?})", String::from_utf8_lossy(w), w)
}

/// Compiles `re` with the library and compares with the reference. `prefix` is
/// prepended to failure signatures (used by the degenerate sub-checks).
fn check_compiled(re: &Re, prefix: &str) -> CaseResult {
    let r = match RefAut::from_re(re, REF_CAP) {
        Ok(r) => r,
        Err(_) => return Ok(Verdict::trivial("discard:reference-too-large")),
    };
    if too_costly(re, Some(&r)) {
        return Ok(Verdict::trivial("discard:library-determinisation-too-costly"));
    }
    let amb = r.reachable();
    let lib = vpcore::catch(|| re.to_lib().to_automaton());
    let states = match (&amb, &lib) {
        (Err(_), Err(p)) if p.contains(NONDET_MSG) => return Ok(Verdict::trivial("discard:ambiguous(library panics as documented)")),
        (Err(_), Err(_)) => return Ok(Verdict::trivial("discard:ambiguous(library panics otherwise)")),
        (Err(_), Ok(_)) => return Ok(Verdict::trivial("discard:ambiguous(library silent)")),
        (Ok(_), Err(p)) if p.contains(NONDET_MSG) => {
            return Err(Failure::new(format!("{prefix}regex:spurious-nondeterminism-panic"), format!("the reference finds the expression output-deterministic, to_automaton panics: {p}; expression {re:?}")));
        }
        (Ok(_), Err(p)) => {
            return Err(Failure::new(format!("{prefix}regex:to_automaton-panic:{}", vpcore::panic_signature(p)), format!("to_automaton panics on an in-domain expression: {p}; expression {re:?}")));
        }
        (Ok(states), Ok(_)) => states,
    };
    let lib = lib.unwrap();
    let a = SimpleAut::from(&lib);
    if let Err(e) = a.structural() {
        return Err(Failure::new(format!("{prefix}regex:structural"), format!("{e}; expression {re:?}")));
    }
    let ix = a.index();
    let stats = match rr::compare_with_ref(&a, &r) {
        Ok(s) => s,
        Err(m) => {
            let lib_run = ix.run(&m.word);
            let ref_run = r.run(&m.word);
            return Err(Failure::new(
                format!("{prefix}regex:{}", m.kind),
                format!("word {}: {} | library run on the word: {:?}, reference: {:?} | expression {re:?}", show_word(&m.word), m.detail, lib_run, ref_run),
            ));
        }
    };
    // "All states of the automaton are reachable from the initial state, and can
    // reach a final state." (doc of to_automaton) — structural, not part of the
    // property (language and markers): observation only.
    let dead_states = !r.is_empty() && (0..a.nb_states).any(|s| !ix.reach[s] || !ix.coreach[s]);
    let f = features(re, &r);
    let nfeat = [f.inter, f.neg, f.star, f.marker].iter().filter(|b| **b).count();
    let nt = nfeat >= 2 && stats.pairs >= 5;
    let bucket = match stats.pairs {
        0..=4 => "pairs:<5",
        5..=19 => "pairs:5-19",
        20..=99 => "pairs:20-99",
        _ => "pairs:>=100",
    };
    let mut v = Verdict::of(nt, bucket);
    for (b, l) in [(f.inter, "has:inter"), (f.neg, "has:neg/minus"), (f.star, "has:star"), (f.marker, "has:marker"), (f.repeat, "has:repeat"), (f.sep, "has:separated"), (f.spaced, "has:spaced")] {
        if b {
            v = v.with(l);
        }
    }
    if r.is_empty() {
        v = v.with("language:empty");
    }
    if dead_states {
        v = v.with("observation:dead-or-unreachable-states-in-output");
    }
    let _ = states;
    Ok(v.with(format!("features:{nfeat}")))
}

/// `any()` / `inter([])` reaching the top level through wrappers that keep the
/// raw universal automaton (iteration, option, relabelling).
fn bare_universal(re: &Re) -> bool {
    match re {
        Re::Any => true,
        Re::Inter(v) if v.is_empty() => true,
        Re::List { r, spaced: false } | Re::NonEmptyList { r, spaced: false } | Re::Optional(r) | Re::Mark { r, .. } | Re::MarkAll { r, .. } | Re::MarkBytes { r, .. } | Re::ReplaceMarkers { r, .. } => bare_universal(r),
        Re::Or(a, b) => (bare_universal(a) && matches!(**b, Re::Epsilon)) || (bare_universal(b) && matches!(**a, Re::Epsilon)),
        Re::Union(v) => v.iter().filter(|x| !matches!(x, Re::Epsilon)).count() == 1 && v.iter().any(bare_universal),
        Re::Cat { items, .. } | Re::SepCat { items, .. } if items.len() == 1 => bare_universal(&items[0]),
        Re::Repeat { r, n: 1, .. } | Re::SepRepeat { r, n: 1, .. } => bare_universal(r),
        _ => false,
    }
}

/// Relabelling nodes that `sanitize` removes, by reason.
fn relabel_exclusions(re: &Re) -> (bool, bool) {
    let above = |p: &dyn Fn(&Re) -> bool| re.any_node(&|n| n.is_relabel() && !matches!(n, Re::JsonString) && n.children().iter().any(|c| c.any_node(p)));
    (above(&|n| matches!(n, Re::Neg(_) | Re::Minus(..))), above(&|n| matches!(n, Re::Any) || matches!(n, Re::Inter(v) if v.is_empty())))
}

fn check_regex_main(c: &ReCase) -> CaseResult {
    // generator preconditions (counted): no marker below a complement (documented
    // failure), no relabelling above a complement (outside the documented
    // domain: "Fails if any marker is under an odd number of negations"), no
    // relabelling above any() (known finding regex:relabel-above-any, own sub-check)
    let (above_neg, above_any) = relabel_exclusions(&c.re);
    let re = c.re.sanitize();
    if re.size() > 70 || too_costly(&re, None) {
        return Ok(Verdict::trivial("discard:too-large"));
    }
    if std::env::var("C19_TRACE").is_ok() {
        // development aid: the last expression each thread started on
        eprintln!("TRACE {:?} {}", std::thread::current().id(), serde_json::to_string(&re).unwrap());
    }
    if has_empty_operand(&re) {
        return Ok(Verdict::trivial("excluded:empty-language-operand(finding regex:empty-language-operand:*, sub-check regex.empty-operand)"));
    }
    let mut v = check_compiled(&re, "")?;
    if above_neg {
        v = v.with("excluded:relabelling-above-complement(outside documented domain, removed)");
    }
    if above_any {
        v = v.with("excluded:relabelling-above-any(known finding, removed)");
    }
    if !degenerate_operands(&re).is_empty() || bare_universal(&re) || re.has_duplicate_byte_from() {
        v = v.with("has:shape-of-a-fixed-finding(R1-R5)");
    }
    Ok(v)
}

// --- degenerate operands

#[derive(Clone, Debug, Serialize, Deserialize)]
struct NamedCase {
    name: String,
    re: Re,
}

fn degenerate_prefix(re: &Re) -> String {
    if bare_universal(re) {
        return "regex:universal-automaton-at-top-level:".into();
    }
    let d = degenerate_operands(re);
    if d.is_empty() && re.has_duplicate_byte_from() {
        return "regex:byte_from-repeated-byte:".into();
    }
    for (k, sig) in [
        ("complement", "regex:complement-of-transitionless-automaton:"),
        ("iteration", "regex:iteration-of-epsilon-language:"),
        ("concatenation", "regex:concatenation-with-epsilon-language-operand:"),
        ("intersection", "regex:intersection-with-epsilon-language-operand:"),
        ("union", "regex:union-with-epsilon-language-operand:"),
        ("relabel", "regex:relabel-of-epsilon-language:"),
    ] {
        if d.contains(k) {
            return sig.into();
        }
    }
    String::new()
}

fn check_degenerate(c: &NamedCase) -> CaseResult {
    let re = c.re.sanitize();
    if too_costly(&re, None) {
        return Ok(Verdict::trivial("discard:too-large"));
    }
    let prefix = degenerate_prefix(&re);
    // one signature per (context of the degenerate operand, symptom)
    let empty_op = has_empty_operand(&re);
    let v = check_compiled(&re, "").map_err(|f| {
        if empty_op && f.signature.contains("panic") {
            return empty_operand_failure(f, &c.name);
        }
        let symptom = if f.signature.contains("panic") {
            "panic"
        } else if f.signature.contains("structural") {
            "dead-state"
        } else {
            "wrong-language"
        };
        Failure::new(format!("{prefix}{symptom}"), format!("[{}] {} ({})", c.name, f.detail, f.signature))
    })?;
    let kinds: Vec<&str> = degenerate_operands(&re).into_iter().collect();
    let mut out = Verdict::of(!prefix.is_empty(), if prefix.is_empty() { "no degenerate operand".to_string() } else { format!("agrees:{}", kinds.join("+")) }).with(v.classes[0].clone());
    if v.classes.iter().any(|c| c.starts_with("observation:dead")) {
        out = out.with("observation:dead-or-unreachable-states-in-output");
    }
    Ok(out)
}

fn degenerate_items(seed: u64, n_random: usize) -> Vec<NamedCase> {
    let a = || Re::Byte(b'a');
    let b = || Re::Byte(b'b');
    let list = |r: Re| Re::List { r: bx(r), spaced: false };
    let mut v: Vec<(&str, Re)> = vec![
        ("epsilon().neg()", Re::Neg(bx(Re::Epsilon))),
        ("union([]).neg()", Re::Neg(bx(Re::Empty))),
        ("byte_from([]).neg()", Re::Neg(bx(Re::ByteFrom(vec![])))),
        ("word(\"\").neg()", Re::Neg(bx(Re::Word(String::new())))),
        ("a.minus(epsilon())", Re::Minus(bx(a()), bx(Re::Epsilon))),
        ("a.list().minus(epsilon())", Re::Minus(bx(list(a())), bx(Re::Epsilon))),
        ("any().minus(epsilon())", Re::Minus(bx(Re::Any), bx(Re::Epsilon))),
        ("a.list().minus(union([]))", Re::Minus(bx(list(a())), bx(Re::Empty))),
        ("a.and(b).neg()", Re::Neg(bx(Re::And(bx(a()), bx(b()))))),
        ("cat([epsilon(), epsilon()]).neg()", Re::Neg(bx(Re::Cat { items: vec![Re::Epsilon, Re::Epsilon], spaced: false }))),
        ("epsilon().optional().neg()", Re::Neg(bx(Re::Optional(bx(Re::Epsilon))))),
        ("union([]).optional().neg()", Re::Neg(bx(Re::Optional(bx(Re::Empty))))),
        ("a.repeat(0).neg()", Re::Neg(bx(Re::Repeat { r: bx(a()), n: 0, spaced: false }))),
        ("epsilon().neg().neg()", Re::Neg(bx(Re::Neg(bx(Re::Epsilon))))),
        ("cat([a, union([])]).neg()", Re::Neg(bx(Re::Cat { items: vec![a(), Re::Empty], spaced: false }))),
        ("cat([a, epsilon().neg()])", Re::Cat { items: vec![a(), Re::Neg(bx(Re::Epsilon))], spaced: false }),
        ("union([a, union([]).neg()])", Re::Union(vec![a(), Re::Neg(bx(Re::Empty))])),
        ("epsilon().list()", list(Re::Epsilon)),
        ("epsilon().non_empty_list()", Re::NonEmptyList { r: bx(Re::Epsilon), spaced: false }),
        ("union([]).list()", list(Re::Empty)),
        ("union([]).non_empty_list()", Re::NonEmptyList { r: bx(Re::Empty), spaced: false }),
        ("a.and(b).list()", list(Re::And(bx(a()), bx(b())))),
        ("epsilon().optional().list()", list(Re::Optional(bx(Re::Epsilon)))),
        ("cat([a, epsilon().list()])", Re::Cat { items: vec![a(), list(Re::Epsilon)], spaced: false }),
        ("epsilon().separated_list(a)", Re::SepList { r: bx(Re::Epsilon), sep: bx(a()), spaced: false }),
        ("a.separated_list(epsilon())", Re::SepList { r: bx(a()), sep: bx(Re::Epsilon), spaced: false }),
        ("cat([union([epsilon()]), a])", Re::Cat { items: vec![Re::Union(vec![Re::Epsilon]), a()], spaced: false }),
        ("cat([a.repeat_at_most(0), b])", Re::Cat { items: vec![Re::RepeatAtMost { r: bx(a()), n: 0, spaced: false }, b()], spaced: false }),
        ("cat([epsilon().optional(), a])", Re::Cat { items: vec![Re::Optional(bx(Re::Epsilon)), a()], spaced: false }),
        ("cat([a, union([epsilon()]), b])", Re::Cat { items: vec![a(), Re::Union(vec![Re::Epsilon]), b()], spaced: false }),
        ("cat([a, union([]).optional()])", Re::Cat { items: vec![a(), Re::Optional(bx(Re::Empty))], spaced: false }),
        ("a.separated_list(union([]))", Re::SepList { r: bx(a()), sep: bx(Re::Empty), spaced: false }),
        ("any_byte().separated_list(a.repeat_at_most(0))", Re::SepList { r: bx(Re::AnyByte), sep: bx(Re::RepeatAtMost { r: bx(a()), n: 0, spaced: false }), spaced: false }),
        ("a.and(union([epsilon()]))", Re::And(bx(a()), bx(Re::Union(vec![Re::Epsilon])))),
        ("a.list().and(epsilon())", Re::And(bx(list(a())), bx(Re::Epsilon))),
        ("union([a, union([epsilon()])])", Re::Union(vec![a(), Re::Union(vec![Re::Epsilon])])),
        ("union([a, word(\"\")])", Re::Union(vec![a(), Re::Word(String::new())])),
        ("union([a, byte_from([])])", Re::Union(vec![a(), Re::ByteFrom(vec![])])),
        ("byte_from([b, b])", Re::ByteFrom(vec![b'b', b'b'])),
        ("byte_from([a, b, a]).list()", list(Re::ByteFrom(vec![b'a', b'b', b'a']))),
        ("cat([byte_from([a, a]), b])", Re::Cat { items: vec![Re::ByteFrom(vec![b'a', b'a']), b()], spaced: false }),
        ("byte_from([a, a]).or(b)", Re::Or(bx(Re::ByteFrom(vec![b'a', b'a'])), bx(b()))),
        ("byte_from([a, a]).minus(b)", Re::Minus(bx(Re::ByteFrom(vec![b'a', b'a'])), bx(b()))),
        ("control: byte_from([a, a]).mark_bytes([a], 1)", Re::MarkBytes { r: bx(Re::ByteFrom(vec![b'a', b'a'])), bytes: vec![b'a'], m: 1 }),
        ("any()", Re::Any),
        ("inter([])", Re::Inter(vec![])),
        ("any().list()", list(Re::Any)),
        ("any().non_empty_list()", Re::NonEmptyList { r: bx(Re::Any), spaced: false }),
        ("any().optional()", Re::Optional(bx(Re::Any))),
        ("any().mark(all->1)", Re::MarkAll { r: bx(Re::Any), m: 1 }),
        // controls (must pass)
        ("control: cat([any(), a])", Re::Cat { items: vec![Re::Any, a()], spaced: false }),
        ("control: a.neg()", Re::Neg(bx(a()))),
        ("control: a.list().minus(a)", Re::Minus(bx(list(a())), bx(a()))),
        ("control: any().neg()", Re::Neg(bx(Re::Any))),
        ("control: any_byte().list().neg()", Re::Neg(bx(list(Re::AnyByte)))),
        ("control: cat([any(), any()]).neg()", Re::Neg(bx(Re::Cat { items: vec![Re::Any, Re::Any], spaced: false }))),
    ]
    .into_iter()
    .collect();
    let mut out: Vec<NamedCase> = v.drain(..).map(|(n, re)| NamedCase { name: n.into(), re }).collect();
    // the same operands inside random contexts
    let mut runner = proptest::test_runner::TestRunner::new_with_rng(
        proptest::test_runner::Config::default(),
        proptest::test_runner::TestRng::from_seed(proptest::test_runner::RngAlgorithm::ChaCha, &SplitMix(seed ^ 0xC19).seed32()),
    );
    let strat = (re_strategy(true), 0..6usize, 0..4usize, any::<u16>());
    for i in 0..n_random {
        let (ctx, shape, eps_kind, pos) = strat.new_tree(&mut runner).unwrap().current();
        let e = match eps_kind {
            0 => Re::Epsilon,
            1 => Re::Empty,
            2 => Re::And(bx(a()), bx(b())),
            _ => Re::Optional(bx(Re::Empty)),
        };
        let hole = match shape {
            0 | 1 => Re::Neg(bx(e)),
            2 | 3 => Re::Minus(bx(list(Re::Named(Named::Lower))), bx(e)),
            4 => list(e),
            _ => Re::NonEmptyList { r: bx(e), spaced: false },
        };
        let re = plug(&ctx, &hole, pos);
        out.push(NamedCase { name: format!("context#{i}"), re });
    }
    // expressions of the main generator that contain such an operand by themselves
    let top = top_strategy();
    let mut kept = 0;
    for _ in 0..n_random * 12 {
        if kept >= n_random {
            break;
        }
        let re = top.new_tree(&mut runner).unwrap().current();
        let s = re.sanitize();
        if s.size() <= 70 && (!degenerate_operands(&s).is_empty() || s.has_duplicate_byte_from() || bare_universal(&s)) {
            out.push(NamedCase { name: format!("generated#{kept}"), re });
            kept += 1;
        }
    }
    out
}

/// Replaces the `pos`-th (mod count) leaf of `ctx` by `hole`.
fn plug(ctx: &Re, hole: &Re, pos: u16) -> Re {
    fn count(r: &Re) -> usize {
        let c = r.children();
        if c.is_empty() {
            1
        } else {
            c.iter().map(|x| count(x)).sum()
        }
    }
    let n = count(ctx);
    let target = vpcore::idx(pos, n);
    // serialise / patch / deserialise is overkill: rebuild through serde_json::Value paths
    fn go(r: &Re, hole: &Re, k: &mut isize) -> Re {
        if r.children().is_empty() {
            *k -= 1;
            if *k == -1 {
                return hole.clone();
            }
            return r.clone();
        }
        // map children in order through a JSON round trip of the node structure
        let mut kids: Vec<Re> = r.children().into_iter().map(|c| go(c, hole, k)).collect();
        kids.reverse();
        rebuild(r, &mut kids)
    }
    let mut k = target as isize;
    go(ctx, hole, &mut k)
}

/// Rebuilds node `r` with new children (popped from the back of `kids`, which
/// holds them reversed, i.e. in `children()` order).
fn rebuild(r: &Re, kids: &mut Vec<Re>) -> Re {
    let mut next = || bx(kids.pop().unwrap());
    match r {
        Re::Cat { items, spaced } => Re::Cat { items: items.iter().map(|_| *next()).collect(), spaced: *spaced },
        Re::Union(v) => Re::Union(v.iter().map(|_| *next()).collect()),
        Re::Inter(v) => Re::Inter(v.iter().map(|_| *next()).collect()),
        Re::Terminated { spaced, .. } => Re::Terminated { a: next(), b: next(), spaced: *spaced },
        Re::Or(..) => Re::Or(next(), next()),
        Re::And(..) => Re::And(next(), next()),
        Re::Minus(..) => Re::Minus(next(), next()),
        Re::Neg(_) => Re::Neg(next()),
        Re::Optional(_) => Re::Optional(next()),
        Re::List { spaced, .. } => Re::List { r: next(), spaced: *spaced },
        Re::NonEmptyList { spaced, .. } => Re::NonEmptyList { r: next(), spaced: *spaced },
        Re::Repeat { n, spaced, .. } => Re::Repeat { r: next(), n: *n, spaced: *spaced },
        Re::RepeatAtMost { n, spaced, .. } => Re::RepeatAtMost { r: next(), n: *n, spaced: *spaced },
        Re::SepList { spaced, .. } => Re::SepList { r: next(), sep: next(), spaced: *spaced },
        Re::SepNonEmptyList { spaced, .. } => Re::SepNonEmptyList { r: next(), sep: next(), spaced: *spaced },
        Re::SepRepeat { n, spaced, .. } => Re::SepRepeat { r: next(), n: *n, sep: next(), spaced: *spaced },
        Re::SepRepeatAtMost { n, spaced, .. } => Re::SepRepeatAtMost { r: next(), n: *n, sep: next(), spaced: *spaced },
        Re::SepCat { items, spaced, .. } => {
            let its: Vec<Re> = items.iter().map(|_| *next()).collect();
            Re::SepCat { items: its, sep: next(), spaced: *spaced }
        }
        Re::Delimited { spaced, .. } => Re::Delimited { r: next(), open: next(), close: next(), spaced: *spaced },
        Re::Mark { table, .. } => Re::Mark { r: next(), table: table.clone() },
        Re::MarkAll { m, .. } => Re::MarkAll { r: next(), m: *m },
        Re::MarkBytes { bytes, m, .. } => Re::MarkBytes { r: next(), bytes: bytes.clone(), m: *m },
        Re::ReplaceMarkers { upd, .. } => Re::ReplaceMarkers { r: next(), upd: upd.clone() },
        leaf => leaf.clone(),
    }
}

// --- empty-language operands (R9)

fn empty_operand_items(seed: u64, n_random: usize) -> Vec<NamedCase> {
    let a = || Re::Byte(b'a');
    let a1 = || Re::MarkBytes { r: bx(Re::Byte(b'a')), bytes: vec![b'a'], m: 1 };
    let cat = |items: Vec<Re>| Re::Cat { items, spaced: false };
    let mut out: Vec<NamedCase> = vec![
        ("union([cat([a.mark(1), union([])]), a])", Re::Union(vec![cat(vec![a1(), Re::Empty]), a()])),
        ("union([cat([a.mark(1), a.and(b)]), a])", Re::Union(vec![cat(vec![a1(), Re::And(bx(a()), bx(Re::Byte(b'b')))]), a()])),
        ("cat([a.mark(1), union([])]).or(a).list()", Re::List { r: bx(Re::Or(bx(cat(vec![a1(), Re::Empty])), bx(a()))), spaced: false }),
        ("union([cat([a, a.mark(1), union([])]), cat([a, a])])", Re::Union(vec![cat(vec![a(), a1(), Re::Empty]), cat(vec![a(), a()])])),
        ("control: cat([a, union([])])", cat(vec![a(), Re::Empty])),
        ("control: union([cat([a, union([])]), a])", Re::Union(vec![cat(vec![a(), Re::Empty]), a()])),
    ]
    .into_iter()
    .map(|(n, re)| NamedCase { name: n.into(), re })
    .collect();
    let mut runner = proptest::test_runner::TestRunner::new_with_rng(
        proptest::test_runner::Config::default(),
        proptest::test_runner::TestRng::from_seed(proptest::test_runner::RngAlgorithm::ChaCha, &SplitMix(seed ^ 0xE0).seed32()),
    );
    let top = top_strategy();
    let mut kept = 0;
    for _ in 0..n_random * 20 {
        if kept >= n_random {
            break;
        }
        let re = top.new_tree(&mut runner).unwrap().current();
        let s = re.sanitize();
        if s.size() <= 70 && !too_costly(&s, None) && has_empty_operand(&s) {
            out.push(NamedCase { name: format!("generated#{kept}"), re });
            kept += 1;
        }
    }
    out
}

fn check_empty_operand(c: &NamedCase) -> CaseResult {
    let re = c.re.sanitize();
    let v = check_compiled(&re, "").map_err(|f| empty_operand_failure(f, &c.name))?;
    let mut out = Verdict::of(!c.name.starts_with("control"), "library agrees with reference").with(v.classes[0].clone());
    if v.classes.iter().any(|c| c.starts_with("observation:dead")) {
        out = out.with("observation:dead-or-unreachable-states-in-output");
    }
    Ok(out)
}

// --- relabelling above a complement / any()

fn relabel_items() -> Vec<NamedCase> {
    let a = || Re::Byte(b'a');
    let list = |r: Re| Re::List { r: bx(r), spaced: false };
    let mark_a = |r: Re| Re::Mark { r: bx(r), table: vec![(b'a', 1)] };
    vec![
        ("a.neg().mark(a->1)", mark_a(Re::Neg(bx(a())))),
        ("any_byte().minus(a).list().mark(a->1)", mark_a(list(Re::Minus(bx(Re::AnyByte), bx(a()))))),
        ("any_byte().minus(a).list().mark_bytes([b],1)", Re::MarkBytes { r: bx(list(Re::Minus(bx(Re::AnyByte), bx(a())))), bytes: vec![b'b'], m: 1 }),
        ("any_byte().minus(a).list().mark(all->1)", Re::MarkAll { r: bx(list(Re::Minus(bx(Re::AnyByte), bx(a())))), m: 1 }),
        ("cat([any(), b]).mark(a->1)", mark_a(Re::Cat { items: vec![Re::Any, Re::Byte(b'b')], spaced: false })),
        ("cat([inter([]), b]).mark(all->1)", Re::MarkAll { r: bx(Re::Cat { items: vec![Re::Inter(vec![]), Re::Byte(b'b')], spaced: false }), m: 1 }),
        ("cat([a.mark(a->2), b.neg()]).replace_markers(0->1)", Re::ReplaceMarkers { r: bx(Re::Cat { items: vec![Re::Mark { r: bx(a()), table: vec![(b'a', 2)] }, Re::Neg(bx(Re::Byte(b'b')))], spaced: false }), upd: vec![(0, 1)] }),
        ("control: any_byte().list().mark(a->1)", mark_a(list(Re::AnyByte))),
    ]
    .into_iter()
    .map(|(n, re)| NamedCase { name: n.into(), re })
    .collect()
}

fn check_relabel(c: &NamedCase) -> CaseResult {
    // Marking above a complement is outside the documented domain (doc of `neg`:
    // markers under a negation are not supported): counted exclusion.
    if c.re.any_node(&|n| matches!(n, Re::Neg(_) | Re::Minus(..))) {
        return Ok(Verdict::trivial("excluded:relabelling-above-complement(outside documented domain)"));
    }
    // no sanitisation: `any()` is documented as equivalent to `any_byte().list()`,
    // the reference relabels its letters
    let v = check_compiled(&c.re, "").map_err(|f| Failure::new("regex:relabel-above-any", format!("[{}] {} ({})", c.name, f.detail, f.signature)))?;
    Ok(Verdict::of(!c.name.starts_with("control"), "library agrees with the language-level reading").with(v.classes[0].clone()))
}

// --- named expressions

fn named_items() -> Vec<NamedCase> {
    let digit = || Re::Named(Named::Digit);
    vec![
        ("utf8_cps()", Re::Utf8Cps),
        ("utf8()", Re::Utf8),
        ("json_string()", Re::JsonString),
        ("json_string().replace_markers(1->5)", Re::ReplaceMarkers { r: bx(Re::JsonString), upd: vec![(1, 5)] }),
        ("utf8().minus(json_string erased)", Re::Minus(bx(Re::Utf8), bx(Re::JsonString))),
        ("spaced_cat([\"k\", \":\", json_string()])", Re::Cat { items: vec![Re::Word("\"k\"".into()), Re::Byte(b':'), Re::JsonString], spaced: true }),
        ("digit().non_empty_list()", Re::NonEmptyList { r: bx(digit()), spaced: false }),
        ("alphanumeric().spaced_separated_list(\",\")", Re::SepList { r: bx(Re::Named(Named::Alnum)), sep: bx(Re::Byte(b',')), spaced: true }),
        ("letter().spaced_delimited(\"[\", \"]\")", Re::Delimited { r: bx(Re::Named(Named::Letter)), open: bx(Re::Byte(b'[')), close: bx(Re::Byte(b']')), spaced: true }),
        ("lowercase.spaced_repeat_at_most(3)", Re::RepeatAtMost { r: bx(Re::Named(Named::Lower)), n: 3, spaced: true }),
        ("uppercase.spaced_separated_repeat(2, \";\")", Re::SepRepeat { r: bx(Re::Named(Named::Upper)), n: 2, sep: bx(Re::Byte(b';')), spaced: true }),
        ("blanks_strict().terminated(blanks())", Re::Terminated { a: bx(Re::BlanksStrict), b: bx(Re::Blanks), spaced: false }),
    ]
    .into_iter()
    .map(|(n, re)| NamedCase { name: n.into(), re })
    .collect()
}

fn check_named(c: &NamedCase) -> CaseResult {
    let re = c.re.sanitize();
    let r = RefAut::from_re(&re, 20_000).map_err(|_| Failure::new("harness:named:reference-too-large", c.name.clone()))?;
    if r.reachable().is_err() {
        return Err(Failure::new("harness:named:ambiguous", c.name.clone()));
    }
    let lib = vpcore::catch(|| re.to_lib().to_automaton()).map_err(|p| Failure::new(format!("regex:named:panic:{}", vpcore::panic_signature(&p)), format!("{}: {p}", c.name)))?;
    let a = SimpleAut::from(&lib);
    a.structural().map_err(|e| Failure::new("regex:named:structural", format!("{}: {e}", c.name)))?;
    match rr::compare_with_ref(&a, &r) {
        Ok(s) => Ok(Verdict::of(s.pairs >= 5, format!("named:{}", c.name)).with(format!("states:{}", a.nb_states))),
        Err(m) => Err(Failure::new(format!("regex:named:{}", m.kind), format!("{}: word {}: {}", c.name, show_word(&m.word), m.detail))),
    }
}

// ---------------------------------------------------------------------------
// Harness circuits over the chips (automaton chip, base64 chip)

#[derive(Clone, Debug)]
enum Out {
    Accept,
    /// `real`: at least one failure is a violated constraint / lookup /
    /// permutation (not a mere unassigned-cell diagnostic)
    #[allow(dead_code)]
    Reject { real: bool, msg: String },
    SynthErr(String),
    Panic(String),
}

impl Out {
    fn accepted(&self) -> bool {
        matches!(self, Out::Accept)
    }
    fn label(&self) -> &'static str {
        match self {
            Out::Accept => "accept",
            Out::Reject { real: true, .. } => "reject",
            Out::Reject { real: false, .. } => "inconclusive-mock",
            Out::SynthErr(_) => "synth-err",
            Out::Panic(_) => "panic",
        }
    }
}

fn mock<C: Circuit<F>>(k: u32, circuit: &C, instance: Vec<F>) -> Out {
    let res = vpcore::catch(|| MockProver::run(k, circuit, vec![vec![], instance]));
    let prover = match res {
        Err(p) => return Out::Panic(p),
        Ok(Err(e)) => return Out::SynthErr(format!("{e:?}")),
        Ok(Ok(p)) => p,
    };
    match vpcore::catch(|| prover.verify()) {
        Err(p) => Out::Panic(format!("verify: {p}")),
        Ok(Ok(())) => Out::Accept,
        Ok(Err(fs)) => {
            let real = fs.iter().any(|f| matches!(f, VerifyFailure::ConstraintNotSatisfied { .. } | VerifyFailure::Lookup { .. } | VerifyFailure::Permutation { .. } | VerifyFailure::ConstraintPoisoned { .. }));
            Out::Reject { real, msg: format!("{} failures; first: {}", fs.len(), fs.first().map(|f| format!("{f:?}").chars().take(240).collect::<String>()).unwrap_or_default()) }
        }
    }
}

/// Runs with increasing k while the circuit does not fit.
fn mock_fit<C: Circuit<F>>(k0: u32, circuit: &C, instance: &[F]) -> (Out, u32) {
    let mut k = k0;
    loop {
        let o = mock(k, circuit, instance.to_vec());
        let too_small = match &o {
            Out::SynthErr(e) => e.contains("NotEnoughRows"),
            Out::Panic(p) => p.contains("not enough rows") || p.contains("NotEnoughRows") || p.contains("k is too small"),
            _ => false,
        };
        if too_small && k < 17 {
            k += 1;
            continue;
        }
        return (o, k);
    }
}

type BaseConfig = (NativeConfig, P2RDecompositionConfig, [midnight_proofs::plonk::Column<midnight_proofs::plonk::Advice>; NB_ARITH_COLS]);

/// Native chip + decomposition chip, configured as `ZkStdLib::configure` does.
fn configure_base(meta: &mut ConstraintSystem<F>) -> BaseConfig {
    let advice: [_; NB_ARITH_COLS] = core::array::from_fn(|_| meta.advice_column());
    let fixed: [_; NB_ARITH_FIXED_COLS] = core::array::from_fn(|_| meta.fixed_column());
    let committed = meta.instance_column();
    let instance = meta.instance_column();
    let native_config = NativeChip::configure(meta, &(advice, fixed, [committed, instance]));
    let pow2range_config = Pow2RangeChip::configure(meta, &advice[1..=4]);
    let p2r = P2RDecompositionChip::configure(meta, &(native_config.clone(), pow2range_config));
    (native_config, p2r, advice)
}

fn base_chips(cfg: &BaseConfig) -> (NG, P2RDecompositionChip<F>) {
    let native_chip = NativeChip::new(&cfg.0, &());
    let core = P2RDecompositionChip::new(&cfg.1, &8usize);
    (NativeGadget::new(core.clone(), native_chip), core)
}

// --- automaton circuit

#[derive(Clone, Debug, Default)]
struct ParseParams {
    auts: Vec<LibAutomaton>,
}

#[derive(Clone, Debug)]
struct ParseCircuit {
    auts: Vec<LibAutomaton>,
    which: usize,
    word: Vec<u8>,
}

impl Circuit<F> for ParseCircuit {
    type Config = (BaseConfig, AutomatonConfig<usize, F>);
    type FloorPlanner = SimpleFloorPlanner;
    type Params = ParseParams;

    fn without_witnesses(&self) -> Self {
        self.clone()
    }
    fn params(&self) -> ParseParams {
        ParseParams { auts: self.auts.clone() }
    }
    fn configure_with_params(meta: &mut ConstraintSystem<F>, params: ParseParams) -> Self::Config {
        let base = configure_base(meta);
        let automata: FxHashMap<usize, LibAutomaton> = params.auts.into_iter().enumerate().collect();
        let cols = [base.2[0], base.2[1], base.2[2]];
        let ac = AutomatonChip::<usize, F>::configure(meta, &(cols, automata));
        (base, ac)
    }
    fn configure(meta: &mut ConstraintSystem<F>) -> Self::Config {
        Self::configure_with_params(meta, ParseParams::default())
    }
    fn synthesize(&self, config: Self::Config, mut layouter: impl Layouter<F>) -> Result<(), Error> {
        let (ng, core) = base_chips(&config.0);
        let chip = AutomatonChip::<usize, F>::new(&config.1, &ng);
        let vals: Vec<Value<u8>> = self.word.iter().map(|b| Value::known(*b)).collect();
        let input: Vec<AssignedByte<F>> = ng.assign_many(&mut layouter, &vals)?;
        for b in &input {
            ng.constrain_as_public_input(&mut layouter, b)?;
        }
        let out: Vec<AssignedNative<F>> = chip.parse(&mut layouter, &self.which, &input)?;
        for m in &out {
            ng.constrain_as_public_input(&mut layouter, m)?;
        }
        core.load(&mut layouter)?;
        chip.load(&mut layouter)
    }
}

fn instance_of(word: &[u8], markers: &[usize]) -> Vec<F> {
    word.iter().map(|b| F::from(*b as u64)).chain(markers.iter().map(|m| F::from(*m as u64))).collect()
}

#[derive(Clone, Debug, Serialize, Deserialize)]
struct CircCase {
    re: Re,
    seed: u64,
}

fn decoy() -> LibAutomaton {
    use midnight_circuits::parsing::regex::{Regex, RegexInstructions};
    Regex::word("xy").non_empty_list().mark_bytes([b'y'], 7).to_automaton()
}

fn check_circuit(c: &CircCase) -> CaseResult {
    let re = c.re.sanitize();
    if re.size() > 50 || too_costly(&re, None) {
        return Ok(Verdict::trivial("skip:too-large"));
    }
    if has_empty_operand(&re) {
        return Ok(Verdict::trivial("excluded:empty-language-operand"));
    }
    let r = match RefAut::from_re(&re, REF_CAP) {
        Ok(r) => r,
        Err(_) => return Ok(Verdict::trivial("discard:reference-too-large")),
    };
    if too_costly(&re, Some(&r)) {
        return Ok(Verdict::trivial("skip:too-large"));
    }
    if r.reachable().is_err() || r.is_empty() {
        return Ok(Verdict::trivial("discard:ambiguous-or-empty"));
    }
    let lib = match vpcore::catch(|| re.to_lib().to_automaton()) {
        Ok(a) => a,
        Err(_) => return Ok(Verdict::trivial("skip:compile-panics(covered by regex.compile)")),
    };
    let a = SimpleAut::from(&lib);
    if a.structural().is_err() || rr::compare_with_ref(&a, &r).is_err() {
        return Ok(Verdict::trivial("skip:compile-mismatch(covered by regex.compile)"));
    }
    if a.trans.len() > 12_000 {
        return Ok(Verdict::trivial("skip:table-too-large"));
    }
    let dec = decoy();
    let table_rows = a.trans.len() + a.finals.len() + 1 + 600;
    let k0 = (usize::BITS - (table_rows + 300).leading_zeros()).max(10);
    let auts = vec![dec, lib];
    let mut rng = SplitMix(c.seed);
    let run = |word: &[u8], inst: &[F]| mock_fit(k0, &ParseCircuit { auts: auts.clone(), which: 1, word: word.to_vec() }, inst);
    let mut v = Verdict::trivial("circuit");
    let mut nt = false;
    let mut n_acc = 0;
    let mut rejected: Vec<(Vec<u8>, &'static str)> = vec![];
    for round in 0..2 {
        let target = if round == 0 { rng.below(8) as usize } else { 3 + rng.below(38) as usize };
        let Some((w, ms)) = r.sample_accepted(&mut rng, target, 40) else { continue };
        debug_assert_eq!(r.run(&w).as_ref(), Some(&ms));
        n_acc += 1;
        nt |= w.len() >= 3;
        let (o, _) = run(&w, &instance_of(&w, &ms));
        if !o.accepted() {
            return Err(Failure::new(format!("automaton.circuit:accepted-word-unsatisfiable:{}", o.label()), format!("word {} with reference markers {ms:?} is accepted by the reference and by the compiled automaton, circuit: {o:?}; expression {re:?}", show_word(&w))));
        }
        v = v.with(format!("accepted:len{}", match w.len() { 0 => "0", 1..=2 => "1-2", 3..=9 => "3-9", 10..=24 => "10-24", _ => "25-40" }));
        if !w.is_empty() {
            // another marker vector
            let pos = rng.below(w.len() as u64) as usize;
            let mut wrong = ms.clone();
            wrong[pos] = match rng.below(3) {
                0 => ms[pos] + 1,
                1 => if ms[pos] == 0 { 2 } else { 0 },
                _ => ms[pos] + 1 + rng.below(5) as usize,
            };
            let (o, _) = run(&w, &instance_of(&w, &wrong));
            if o.accepted() {
                return Err(Failure::new("automaton.circuit:wrong-markers-accepted", format!("word {}: markers {wrong:?} accepted, reference markers {ms:?}; expression {re:?}", show_word(&w))));
            }
            v = v.with(format!("wrong-marker:{}", o.label()));
            // the honest witness against another public word
            let mut w2 = w.clone();
            w2[pos] = w2[pos].wrapping_add(1 + rng.below(255) as u8);
            let (o, _) = run(&w, &instance_of(&w2, &ms));
            if o.accepted() {
                return Err(Failure::new("automaton.circuit:wrong-public-word-accepted", format!("witness word {} accepted against public word {}; expression {re:?}", show_word(&w), show_word(&w2))));
            }
            v = v.with(format!("wrong-public-word:{}", o.label()));
        }
        // rejected relatives
        if !w.is_empty() {
            let cut = rng.below(w.len() as u64) as usize;
            rejected.push((w[..cut].to_vec(), "proper-prefix"));
            let mut x = w.clone();
            let pos = rng.below(w.len() as u64) as usize;
            x[pos] = if rng.below(2) == 0 { POOL[rng.below(POOL.len() as u64) as usize] } else { rng.below(256) as u8 };
            rejected.push((x, "one-byte-corruption"));
        }
        if w.len() < 40 {
            let mut x = w.clone();
            x.push(if rng.below(2) == 0 { POOL[rng.below(POOL.len() as u64) as usize] } else { rng.below(256) as u8 });
            rejected.push((x, "one-byte-extension"));
        }
    }
    let rnd: Vec<u8> = (0..rng.below(12)).map(|_| POOL[rng.below(POOL.len() as u64) as usize]).collect();
    rejected.push((rnd, "random"));
    let mut n_rej = 0;
    for (w, kind) in rejected {
        if r.run(&w).is_some() {
            continue; // still accepted
        }
        if n_rej >= 4 {
            break;
        }
        n_rej += 1;
        nt |= w.len() >= 3;
        // the would-be markers: those of the compiled automaton as far as it runs
        let ix = a.index();
        let mut s = ix.initial;
        let mut ms = vec![];
        for b in &w {
            match ix.tab[s * 256 + *b as usize] {
                Some((t, m)) => {
                    ms.push(m);
                    s = t
                }
                None => break,
            }
        }
        let stuck = ms.len() < w.len();
        ms.resize(w.len(), 0);
        let (o, _) = run(&w, &instance_of(&w, &ms));
        if o.accepted() {
            return Err(Failure::new(format!("automaton.circuit:rejected-word-satisfiable:{kind}"), format!("word {} is rejected by the reference, the circuit is satisfied with markers {ms:?}; expression {re:?}", show_word(&w))));
        }
        v = v.with(format!("rejected:{kind}:{}:{}", if stuck { "stuck" } else { "non-final" }, o.label()));
    }
    if n_acc == 0 {
        return Ok(Verdict::trivial("discard:no-accepted-word<=40"));
    }
    v.nontrivial = nt;
    Ok(v)
}

// ---------------------------------------------------------------------------
// (c) shipped automata, serializer, deserializer fuzzing

use vp_circ::MINIMAL_JWT;

#[derive(Clone, Debug, Serialize, Deserialize)]
struct ShippedCase {
    entry: usize,
    what: String,
}

fn check_shipped(c: &ShippedCase) -> CaseResult {
    let data = verif_spec_library_data();
    let (name, spec, bytes) = &data[c.entry];
    let name = format!("{name:?}");
    let (aut, unread) = verif_deserialize_automaton(bytes).map_err(|e| Failure::new(format!("shipped:{name}:deserialize-error"), e.chars().take(300).collect::<String>()))?;
    let a = SimpleAut::from(&aut);
    match c.what.as_str() {
        "deserialize" => {
            vpcore::ensure!(unread == 0, format!("shipped:{name}:unread-bytes"), "{unread} unread bytes");
            a.structural().map_err(|e| Failure::new(format!("shipped:{name}:structural"), e))?;
            let ix = a.index();
            vpcore::ensure!((0..a.nb_states).all(|s| ix.reach[s] && ix.coreach[s]), format!("shipped:{name}:dead-or-unreachable-state"), "a state is unreachable or dead");
            Ok(Verdict::nontrivial(format!("{name}:deserialize states={} transitions={}", a.nb_states, a.trans.len())))
        }
        "reserialize" => {
            let again = rr::serialize_automaton(&a);
            vpcore::ensure!(&again[..] == *bytes, format!("shipped:{name}:harness-serializer-differs"), "harness serialization of the deserialised value ({} bytes) differs from the shipped bytes ({} bytes); first difference at {:?}", again.len(), bytes.len(), again.iter().zip(bytes.iter()).position(|(x, y)| x != y));
            Ok(Verdict::nontrivial(format!("{name}:reserialize")))
        }
        "equiv-spec" => {
            let t = std::time::Instant::now();
            let compiled = SimpleAut::from(&spec.to_automaton());
            let secs = t.elapsed().as_secs_f64();
            let st = rr::compare_automata(&a, &compiled).map_err(|m| Failure::new(format!("shipped:{name}:not-equivalent-to-spec:{}", m.kind), format!("word {}: {}", show_word(&m.word), m.detail)))?;
            let identical = a == compiled;
            Ok(Verdict::nontrivial(format!("{name}:equiv-spec")).with(format!("product-pairs:{}", st.pairs)).with(format!("structurally-identical:{identical}")).with(format!("compile-seconds<{}", (secs.ceil() as u64).max(1))))
        }
        "samples" => {
            if name != "Jwt" {
                return Ok(Verdict::trivial("no samples for this parser"));
            }
            let ix = a.index();
            let w = MINIMAL_JWT.as_bytes();
            let ms = ix.run(w).ok_or_else(|| Failure::new("shipped:Jwt:sample-rejected", "the minimal JWT of the in-repo test is rejected"))?;
            // documented marking: nationalId 1, familyName 2, givenName 3, birthDate 4, x 5, y 6
            let mut got: HashMap<usize, Vec<u8>> = HashMap::new();
            for (b, m) in w.iter().zip(&ms) {
                if *m != 0 {
                    got.entry(*m).or_default().push(*b);
                }
            }
            let want: HashMap<usize, Vec<u8>> = [(1, "id"), (2, "fn"), (3, "gn"), (4, "bd"), (5, "x"), (6, "y")].into_iter().map(|(k, v)| (k, v.as_bytes().to_vec())).collect();
            vpcore::ensure!(got == want, "shipped:Jwt:sample-markers", "marked substrings {got:?}, documented {want:?}");
            // single-byte corruptions of the structure are rejected
            let mut rejected = 0;
            for pos in (0..w.len()).step_by(7) {
                let mut x = w.to_vec();
                x[pos] = if x[pos] == b'{' { b'[' } else { b'{' };
                if ix.run(&x).is_none() {
                    rejected += 1;
                }
            }
            Ok(Verdict::nontrivial("Jwt:samples").with(format!("corruptions-rejected:{rejected}")))
        }
        _ => Err(Failure::new("harness:shipped:unknown-check", c.what.clone())),
    }
}

fn check_roundtrip(c: &ReCase) -> CaseResult {
    let re = c.re.sanitize();
    if re.size() > 60 || too_costly(&re, None) || RefAut::from_re(&re, REF_CAP).map(|r| too_costly(&re, Some(&r))).unwrap_or(true) {
        return Ok(Verdict::trivial("discard:too-large"));
    }
    let lib = match vpcore::catch(|| re.to_lib().to_automaton()) {
        Ok(a) => a,
        Err(_) => return Ok(Verdict::trivial("discard:compile-panics")),
    };
    let a = SimpleAut::from(&lib);
    let bytes = rr::serialize_automaton(&a);
    let (back, unread) = verif_deserialize_automaton(&bytes).map_err(|e| Failure::new("serialization:roundtrip:deserialize-error", e.chars().take(300).collect::<String>()))?;
    vpcore::ensure!(unread == 0, "serialization:roundtrip:unread-bytes", "{unread} unread bytes");
    let b = SimpleAut::from(&back);
    vpcore::ensure!(a == b, "serialization:roundtrip:value-differs", "compiled {a:?} vs deserialised {b:?}");
    // a trailing suffix is left unread, a truncation is an error
    let mut longer = bytes.clone();
    longer.extend_from_slice(&[1, 2, 3]);
    let (_, unread) = verif_deserialize_automaton(&longer).map_err(|e| Failure::new("serialization:roundtrip:suffix-error", e.chars().take(200).collect::<String>()))?;
    vpcore::ensure!(unread == 3, "serialization:roundtrip:suffix-consumed", "unread {unread}");
    if !bytes.is_empty() {
        let cut = &bytes[..bytes.len() - 1];
        vpcore::ensure!(verif_deserialize_automaton(cut).is_err(), "serialization:roundtrip:truncation-accepted", "truncated buffer deserialises");
    }
    Ok(Verdict::of(a.trans.len() >= 3, format!("roundtrip:transitions{}", match a.trans.len() { 0..=2 => "<3", 3..=99 => "3-99", 100..=999 => "100-999", _ => ">=1000" })))
}

#[derive(Clone, Debug, Serialize, Deserialize)]
struct FuzzCase {
    base: u8,
    seed: u64,
    n_mut: u8,
}

/// Length fields the deserializer would pre-allocate from (`Vec::with_capacity`
/// of an unchecked length): (value, element size).
fn prealloc_lengths(b: &[u8]) -> Vec<(u64, u64)> {
    let rd = |o: usize| -> Option<u64> { b.get(o..o + 8).map(|s| u64::from_le_bytes(s.try_into().unwrap())) };
    let mut out = vec![];
    if let Some(l1) = rd(16) {
        out.push((l1, 8));
        if let Some(off) = (l1 as u128 * 8 + 24).try_into().ok().filter(|o: &usize| *o <= b.len()) {
            if let Some(l2) = rd(off) {
                out.push((l2, 32));
            }
        }
    }
    out
}

fn check_fuzz(c: &FuzzCase) -> CaseResult {
    let mut rng = SplitMix(c.seed);
    let data = verif_spec_library_data();
    let mut bytes: Vec<u8> = match c.base % 4 {
        0 => {
            // a small valid automaton
            let a = SimpleAut { nb_states: 3, initial: 0, finals: BTreeSet::from([2]), trans: vec![((0, b'a'), (1, 0)), ((1, b'b'), (2, 1)), ((2, b'a'), (1, 0))] };
            rr::serialize_automaton(&a)
        }
        1 => data[0].2[..(24 + 8 + 8 + 25 * 40).min(data[0].2.len())].to_vec(),
        2 => data[0].2.to_vec(),
        _ => {
            let n = rng.below(120) as usize;
            rng.bytes(n)
        }
    };
    let specials = [0u64, 1, 2, 3, 255, 256, 1 << 16, (1 << 32) - 1, 1 << 32, 1 << 58, (1 << 58) + 1, 1 << 59, 1 << 60, (1 << 60) + 1, 1 << 61, 1 << 63, u64::MAX - 1, u64::MAX];
    for _ in 0..c.n_mut {
        if bytes.is_empty() {
            break;
        }
        match rng.below(6) {
            0 => {
                let p = rng.below(bytes.len() as u64) as usize;
                bytes[p] ^= 1 << rng.below(8);
            }
            1 => {
                let p = rng.below(bytes.len() as u64) as usize;
                bytes[p] = rng.below(256) as u8;
            }
            2 => {
                let n = rng.below(bytes.len() as u64 + 1) as usize;
                bytes.truncate(n);
            }
            3 => {
                // a 64-bit field (header fields are 8-aligned; first length at 16)
                let offs = [0usize, 8, 16, 24, 32, 40];
                let o = offs[rng.below(offs.len() as u64) as usize];
                if o + 8 <= bytes.len() {
                    let v = specials[rng.below(specials.len() as u64) as usize];
                    bytes[o..o + 8].copy_from_slice(&v.to_le_bytes());
                }
            }
            4 => {
                // the second length field, when it can be located
                let l1 = bytes.get(16..24).map(|s| u64::from_le_bytes(s.try_into().unwrap())).unwrap_or(u64::MAX);
                if let Some(o) = (l1 as u128 * 8 + 24).try_into().ok().filter(|o: &usize| *o + 8 <= bytes.len()) {
                    let v = specials[rng.below(specials.len() as u64) as usize];
                    bytes[o..o + 8].copy_from_slice(&v.to_le_bytes());
                }
            }
            _ => {
                let n = rng.below(16) as usize;
                bytes.extend_from_slice(&rng.bytes(n))
            }
        }
    }
    // an allocation request between 1 MiB·elements and the capacity-overflow
    // bound may abort the process (allocation failure is not a panic): such
    // inputs are counted, not executed (report-only by the task statement).
    for (len, elem) in prealloc_lengths(&bytes) {
        let overflow = (len as u128) * (elem as u128) > isize::MAX as u128;
        if len > (1 << 20) && !overflow {
            return Ok(Verdict::trivial("report-only:unchecked-length-preallocation(not executed)"));
        }
    }
    match vpcore::catch(|| verif_deserialize_automaton(&bytes)) {
        Ok(Ok((a, _))) => {
            // the accepted value can be handled (no validation is promised)
            let s = SimpleAut::from(&a);
            Ok(Verdict::nontrivial(if s.structural().is_ok() { "accepted:well-formed" } else { "accepted:ill-formed-automaton(no validation promised)" }))
        }
        Ok(Err(_)) => Ok(Verdict::nontrivial("error-returned")),
        Err(p) if p.contains("capacity overflow") => Ok(Verdict::nontrivial("report-only:capacity-overflow-panic-from-unchecked-length")),
        Err(p) => Err(Failure::new(format!("deserialize:panic:{}", vpcore::panic_signature(&p)), format!("verif_deserialize_automaton panics on {} bytes (hex prefix {}): {p}", bytes.len(), hex(&bytes[..bytes.len().min(64)])))),
    }
}

fn hex(b: &[u8]) -> String {
    b.iter().map(|x| format!("{x:02x}")).collect()
}

// ---------------------------------------------------------------------------
// (d) base64

const STD_ALPHABET: &[u8] = b"ABCDEFGHIJKLMNOPQRSTUVWXYZabcdefghijklmnopqrstuvwxyz0123456789+/";
const URL_ALPHABET: &[u8] = b"ABCDEFGHIJKLMNOPQRSTUVWXYZabcdefghijklmnopqrstuvwxyz0123456789-_";

fn b64_config(url: bool, padded: bool) -> ::base64::Config {
    match (url, padded) {
        (false, true) => ::base64::STANDARD,
        (false, false) => ::base64::STANDARD_NO_PAD,
        (true, true) => ::base64::URL_SAFE,
        (true, false) => ::base64::URL_SAFE_NO_PAD,
    }
}

/// The standard decoding of a well-formed input of the given variant, in the
/// documented output convention ("The length of the output is always 3/4 of the
/// padded input's length … completed with one or two ASCII_ZERO chars");
/// `None` for a malformed input. Well-formed (RFC 4648): characters of the
/// variant's alphabet only; padded: length ≡ 0 mod 4 with canonical `=`
/// padding; unpadded: no `=`, length ≢ 1 mod 4; zero trailing bits.
fn std_decode(input: &[u8], url: bool, padded: bool) -> Option<Vec<u8>> {
    let alphabet = if url { URL_ALPHABET } else { STD_ALPHABET };
    let n = input.len();
    let body = if padded {
        if n % 4 != 0 {
            return None;
        }
        let pads = input.iter().rev().take_while(|c| **c == b'=').count();
        if pads > 2 {
            return None;
        }
        &input[..n - pads]
    } else {
        input
    };
    if body.iter().any(|c| !alphabet.contains(c)) {
        return None;
    }
    // the crate is the reference decoder (strict about trailing bits)
    let dec = ::base64::decode_config(input, b64_config(url, padded)).ok()?;
    // independent cross-check of the crate's leniency about padding: the
    // re-encoding must reproduce the input
    if ::base64::encode_config(&dec, b64_config(url, padded)).as_bytes() != input {
        return None;
    }
    let mut out = dec;
    out.resize(n.div_ceil(4) * 3, 0);
    Some(out)
}

#[derive(Clone)]
struct B64Fixed {
    url: bool,
    padded: bool,
    len: usize,
}

impl Op for B64Fixed {
    fn name(&self) -> String {
        format!("decode_base64{}(len={},padded={})", if self.url { "url" } else { "" }, self.len, self.padded)
    }
    fn arch(&self) -> ZkStdLibArch {
        ZkStdLibArch { base64: true, ..Default::default() }
    }
    fn circuit<L: Layouter<F>>(&self, std: &ZkStdLib, l: &mut L, x: Value<Vec<BigUint>>) -> Result<(), Error> {
        let vals: Vec<Value<u8>> = (0..self.len).map(|i| x.as_ref().map(|x| u8::try_from(&x[i]).unwrap())).collect();
        let input: Vec<AssignedByte<F>> = std.assign_many(l, &vals)?;
        for b in &input {
            std.constrain_as_public_input(l, b)?;
        }
        let out = if self.url { std.base64().decode_base64url(l, &input, self.padded)? } else { std.base64().decode_base64(l, &input, self.padded)? };
        for b in &out {
            std.constrain_as_public_input(l, b)?;
        }
        Ok(())
    }
    fn reference(&self, x: &[BigUint]) -> Option<Vec<F>> {
        let input: Vec<u8> = x.iter().map(|v| u8::try_from(v).ok()).collect::<Option<Vec<u8>>>()?;
        let out = std_decode(&input, self.url, self.padded)?;
        Some(input.iter().chain(out.iter()).map(|b| F::from(*b as u64)).collect())
    }
    fn n_input_scalars(&self) -> usize {
        self.len
    }
    fn decode_inputs(&self, public: &[F]) -> Option<Vec<BigUint>> {
        let v: Vec<BigUint> = public[..self.len.min(public.len())].iter().map(e2::f_to_big).collect();
        if v.iter().all(|b| *b < BigUint::from(256u32)) {
            Some(v)
        } else {
            None
        }
    }
}

#[derive(Clone, Debug, Serialize, Deserialize)]
struct B64Case {
    url: bool,
    padded: bool,
    variable: bool,
    from_vec: bool,
    /// the (possibly corrupted) encoded input
    #[serde(with = "hexser")]
    input: Vec<u8>,
    /// "" for well-formed inputs
    corruption: String,
    seed: u64,
}

mod hexser {
    use serde::{Deserialize, Deserializer, Serializer};
    pub fn serialize<S: Serializer>(v: &Vec<u8>, s: S) -> Result<S::Ok, S::Error> {
        s.serialize_str(&v.iter().map(|b| format!("{b:02x}")).collect::<String>())
    }
    pub fn deserialize<'de, D: Deserializer<'de>>(d: D) -> Result<Vec<u8>, D::Error> {
        let s = String::deserialize(d)?;
        (0..s.len() / 2).map(|i| u8::from_str_radix(&s[2 * i..2 * i + 2], 16).map_err(serde::de::Error::custom)).collect()
    }
}

/// Honest run + `n_s1` sampled wrong-claim runs (the full S1 sweep of
/// `e2::check_complete_and_s1` is used for short inputs).
fn complete_and_s1_sampled<O: Op>(op: &O, x: &[BigUint], seed: u64, n_s1: usize) -> CaseResult {
    let name = op.name();
    let inst = op.reference(x).ok_or_else(|| Failure::new("harness:base64:no-reference", name.clone()))?;
    let run = e2::run_given(op, x, &inst);
    if !run.outcome.accepted() {
        return Err(Failure::new(format!("base64:incomplete:{}", run.outcome.label()), format!("{name}: honest witness for input {:?} with the standard decoding as instance is not accepted: {:?}", x, run.outcome)));
    }
    let mut rng = SplitMix(seed);
    for _ in 0..n_s1 {
        if inst.is_empty() {
            break;
        }
        let pos = rng.below(inst.len() as u64) as usize;
        let mut wrong = inst.clone();
        wrong[pos] = match rng.below(3) {
            0 => inst[pos] + F::from(1),
            1 => inst[pos] - F::from(1),
            _ => F::from(rng.below(256)),
        };
        if wrong[pos] == inst[pos] || op.judge(&wrong) {
            continue;
        }
        let r = e2::run_given(op, x, &wrong);
        if r.outcome.accepted() {
            return Err(Failure::new(format!("base64:unsound:S1:{}", if pos < op.n_input_scalars() { "input-position" } else { "output-position" }), format!("{name}: honest witness accepted with a wrong instance at position {pos}")));
        }
    }
    Ok(Verdict::nontrivial("complete+S1"))
}

// --- variable length (harness circuit over Base64Chip + VectorGadget)

const VM: usize = 64;
const VA: usize = 4;
const VM_OUT: usize = 48;
const VA_OUT: usize = 3;

#[derive(Clone, Debug)]
struct B64VarCircuit {
    input: Vec<u8>,
    url: bool,
    from_vec: bool,
    expected: Option<Vec<u8>>,
    seen: std::sync::Arc<std::sync::Mutex<Option<Vec<u8>>>>,
}

impl Circuit<F> for B64VarCircuit {
    type Config = (BaseConfig, Base64Config);
    type FloorPlanner = SimpleFloorPlanner;
    type Params = ();

    fn without_witnesses(&self) -> Self {
        self.clone()
    }
    fn configure(meta: &mut ConstraintSystem<F>) -> Self::Config {
        let base = configure_base(meta);
        let cols: [_; NB_BASE64_ADVICE_COLS] = core::array::from_fn(|i| base.2[i]);
        let b64 = Base64Chip::<F>::configure(meta, &cols);
        (base, b64)
    }
    fn synthesize(&self, config: Self::Config, mut layouter: impl Layouter<F>) -> Result<(), Error> {
        let (ng, core) = base_chips(&config.0);
        let vg = VectorGadget::new(&ng);
        let chip = Base64Chip::<F>::new(&config.1, &ng);
        let l = &mut layouter;
        let v: Base64Vec<F, VM, VA> = if self.from_vec {
            let av: AssignedVector<F, AssignedByte<F>, VM, VA> = vg.assign(l, Value::known(self.input.clone()))?;
            Base64VarInstructions::<F, VM, VA>::base64_from_vec(&chip, l, &av)?
        } else {
            Base64VarInstructions::<F, VM, VA>::assign_var_base64(&chip, l, Value::known(self.input.clone()))?
        };
        let out: AssignedVector<F, AssignedByte<F>, VM_OUT, VA_OUT> = if self.url {
            Base64VarInstructions::<F, VM, VA>::var_decode_base64url::<VM_OUT, VA_OUT>(&chip, l, &v)?
        } else {
            Base64VarInstructions::<F, VM, VA>::var_decode_base64::<VM_OUT, VA_OUT>(&chip, l, &v)?
        };
        out.value().map(|o| *self.seen.lock().unwrap() = Some(o));
        if let Some(e) = &self.expected {
            vg.assert_equal_to_fixed(l, &out, e.clone())?;
        }
        core.load(l)?;
        chip.load(l)
    }
}

fn run_var(c: &B64Case, expected: Option<Vec<u8>>) -> (Out, Option<Vec<u8>>) {
    let seen = std::sync::Arc::new(std::sync::Mutex::new(None));
    let circuit = B64VarCircuit { input: c.input.clone(), url: c.url, from_vec: c.from_vec, expected, seen: seen.clone() };
    let (o, _) = mock_fit(14, &circuit, &[]);
    let s = seen.lock().unwrap().clone();
    (o, s)
}

fn check_b64(c: &B64Case) -> CaseResult {
    let n = c.input.len();
    let reference = std_decode(&c.input, c.url, c.padded);
    let variant = format!("{}{}{}", if c.url { "base64url" } else { "base64" }, if c.variable { if c.from_vec { ":var(from_vec)" } else { ":var" } } else { ":fixed" }, if c.padded { ":padded" } else { ":unpadded" });
    let nt = n % 4 != 0 || !c.corruption.is_empty();
    if c.corruption.is_empty() != reference.is_some() {
        return Err(Failure::new("harness:base64:generator-class-mismatch", format!("{variant} input {:?} corruption {:?} reference {:?}", String::from_utf8_lossy(&c.input), c.corruption, reference)));
    }
    let lenb = match n {
        0 => "len0",
        1..=4 => "len1-4",
        5..=16 => "len5-16",
        17..=40 => "len17-40",
        _ => "len41-64",
    };
    if !c.variable {
        let op = B64Fixed { url: c.url, padded: c.padded, len: n };
        let x: Vec<BigUint> = c.input.iter().map(|b| BigUint::from(*b)).collect();
        return match reference {
            Some(_) => {
                let v = if n <= 8 { e2::check_complete_and_s1(&op, &x, c.seed).map_err(|f| Failure::new(format!("base64:{}", f.signature), f.detail))? } else { complete_and_s1_sampled(&op, &x, c.seed, 3)? };
                let _ = v;
                Ok(Verdict::of(nt, format!("{variant}:well-formed")).with(lenb).with(format!("tail:{}", n % 4)))
            }
            None => {
                // no instance may be accepted: expose whatever the library's own
                // witness generation produces
                let n_public = n + n.div_ceil(4) * 3;
                let r = e2::run_faulted(&op, &x, n_public, HashMap::new());
                if r.outcome == Outcome::Accept {
                    let out: Vec<u8> = r.public[n.min(r.public.len())..].iter().map(|f| e2::f_to_big(f).try_into().unwrap_or(255u8)).collect();
                    return Err(Failure::new(
                        format!("base64:malformed-input-satisfiable:{}", c.corruption),
                        format!("{variant}: malformed input {:?} ({}) is accepted with decoded output {:?}", String::from_utf8_lossy(&c.input), c.corruption, out),
                    ));
                }
                Ok(Verdict::of(nt, format!("{variant}:malformed:{}:{}", c.corruption, r.outcome.label())).with(lenb))
            }
        };
    }
    // variable length
    // `base64_from_vec` goes through `VectorGadget::padding_flag`; failures on
    // vectors that fit in the last chunk are grouped under one signature
    let short = c.from_vec && n > 0 && n <= VA;
    // what the chip computes on its own (no claim about the output)
    let (free, seen) = run_var(c, None);
    match reference {
        Some(out) => {
            if free.accepted() && seen.as_ref() != Some(&out) {
                return Err(Failure::new(if short { "base64:from_vec-short-vector".to_string() } else { "base64:var:wrong-decoding-satisfiable".to_string() }, format!("{variant}: well-formed input {:?}: the circuit is satisfied with decoded output {seen:?}, standard decoding {out:?}", String::from_utf8_lossy(&c.input))));
            }
            let (o, _) = run_var(c, Some(out.clone()));
            if !o.accepted() {
                return Err(Failure::new(if short { "base64:from_vec-short-vector".to_string() } else { format!("base64:var:incomplete:{}", o.label()) }, format!("{variant}: input {:?}: circuit asserting the standard decoding {:?} is not satisfied ({o:?}); the chip computed {seen:?}", String::from_utf8_lossy(&c.input), out)));
            }
            // wrong claims: another byte / another length
            let mut rng = SplitMix(c.seed);
            let mut wrong = out.clone();
            if !wrong.is_empty() && rng.below(3) != 0 {
                let p = rng.below(wrong.len() as u64) as usize;
                wrong[p] = wrong[p].wrapping_add(1 + rng.below(255) as u8);
            } else if wrong.len() + 3 <= VM_OUT {
                wrong.extend_from_slice(&[0, 0, 0]);
            } else {
                wrong.truncate(wrong.len() - 3);
            }
            let (o, _) = run_var(c, Some(wrong.clone()));
            if o.accepted() {
                return Err(Failure::new(if short { "base64:from_vec-short-vector".to_string() } else { "base64:var:unsound:S1".to_string() }, format!("{variant}: input {:?}: wrong decoding {wrong:?} accepted", String::from_utf8_lossy(&c.input))));
            }
            Ok(Verdict::of(nt || n > 0, format!("{variant}:well-formed")).with(lenb).with(format!("wrong-claim:{}", o.label())))
        }
        None => {
            if free.accepted() {
                return Err(Failure::new(
                    if short { "base64:from_vec-short-vector".to_string() } else { format!("base64:malformed-input-satisfiable:{}", c.corruption) },
                    format!("{variant}: malformed input {:?} ({}) is accepted with decoded output {seen:?}", String::from_utf8_lossy(&c.input), c.corruption),
                ));
            }
            Ok(Verdict::of(true, format!("{variant}:malformed:{}:{}", c.corruption, free.label())).with(lenb))
        }
    }
}

/// All base64 cases of a tier: every encoded length 0..=64 and every padding
/// form for each variant (one random content each in quick), and the
/// single-character corruptions.
fn b64_items(seed: u64, contents_per_len: usize, corruption_stride: usize) -> Vec<B64Case> {
    let mut rng = SplitMix(seed ^ 0xB64);
    let mut out = vec![];
    let push = |out: &mut Vec<B64Case>, url, padded, variable, from_vec, input: Vec<u8>, corruption: &str, rng: &mut SplitMix| {
        out.push(B64Case { url, padded, variable, from_vec, input, corruption: corruption.into(), seed: rng.next_u64() });
    };
    for url in [false, true] {
        let other: &[u8] = if url { b"+/" } else { b"-_" };
        for (padded, variable, from_vec) in [(true, false, false), (false, false, false), (true, true, false), (true, true, true)] {
            let cfg = b64_config(url, padded);
            for raw_len in 0..=48usize {
                for rep in 0..contents_per_len {
                    let mut raw = rng.bytes(raw_len);
                    if rep == 0 && raw_len > 0 {
                        // make both special characters (62, 63) likely somewhere
                        raw[raw_len - 1] |= 0xFB;
                        raw[0] = 0xFF;
                    }
                    let enc = ::base64::encode_config(&raw, cfg).into_bytes();
                    if enc.len() > 64 {
                        continue;
                    }
                    push(&mut out, url, padded, variable, from_vec, enc.clone(), "", &mut rng);
                    if rep != 0 || enc.is_empty() || (raw_len % corruption_stride != 0 && raw_len > 5) {
                        continue;
                    }
                    let n = enc.len();
                    let pads = enc.iter().filter(|c| **c == b'=').count();
                    let body = n - pads;
                    // a character of the other alphabet variant
                    let mut x = enc.clone();
                    let p = rng.below(body as u64) as usize;
                    x[p] = other[rng.below(2) as usize];
                    push(&mut out, url, padded, variable, from_vec, x, "other-variant-char", &mut rng);
                    // a byte outside every alphabet
                    let mut x = enc.clone();
                    let p = rng.below(body as u64) as usize;
                    x[p] = [b'*', b' ', 0x80, 0x00, b'.'][rng.below(5) as usize];
                    push(&mut out, url, padded, variable, from_vec, x, "non-alphabet-byte", &mut rng);
                    // '=' in the middle (not in the last two positions of the last chunk)
                    if body > 2 {
                        let mut x = enc.clone();
                        let limit = if n % 4 == 0 { n - 2 } else { body };
                        let p = rng.below(limit.min(body) as u64) as usize;
                        x[p] = b'=';
                        push(&mut out, url, padded, variable, from_vec, x, "pad-in-the-middle", &mut rng);
                    }
                    // non-canonical trailing bits
                    if raw_len % 3 != 0 {
                        let mut x = enc.clone();
                        let alphabet = if url { URL_ALPHABET } else { STD_ALPHABET };
                        let idx = alphabet.iter().position(|c| *c == x[body - 1]).unwrap();
                        let free = if raw_len % 3 == 1 { 4 } else { 2 };
                        let delta = 1 + rng.below((1 << free) - 1) as usize;
                        x[body - 1] = alphabet[idx ^ delta];
                        push(&mut out, url, padded, variable, from_vec, x, "nonzero-trailing-bits", &mut rng);
                    }
                    if padded {
                        // wrong padding length / form
                        if pads == 2 {
                            let mut x = enc.clone();
                            x[n - 2] = b'=';
                            x[n - 1] = b'A';
                            push(&mut out, url, padded, variable, from_vec, x, "pad-then-char", &mut rng);
                            let mut x = enc.clone();
                            x[n - 3] = b'=';
                            push(&mut out, url, padded, variable, from_vec, x, "three-pads", &mut rng);
                        }
                        if pads == 1 {
                            // one more pad than the content allows: the dropped character carried data bits
                            let mut x = enc.clone();
                            x[n - 2] = b'=';
                            push(&mut out, url, padded, variable, from_vec, x, "too-many-pads", &mut rng);
                        }
                        if pads == 0 && n >= 4 {
                            let mut x = enc.clone();
                            x[n - 1] = b'=';
                            push(&mut out, url, padded, variable, from_vec, x, "pad-replacing-data", &mut rng);
                        }
                    } else {
                        // padding characters where none is expected
                        if n % 4 == 2 && n + 2 <= 64 {
                            let mut x = enc.clone();
                            x.extend_from_slice(b"==");
                            push(&mut out, url, padded, variable, from_vec, x, "padded-input-to-unpadded-decoder", &mut rng);
                        }
                        // a length that no encoding has (≡ 1 mod 4)
                        if n % 4 == 0 && n + 1 <= 64 {
                            let mut x = enc.clone();
                            x.push(b'A' + rng.below(26) as u8);
                            push(&mut out, url, padded, variable, from_vec, x, "length-1-mod-4", &mut rng);
                        }
                    }
                }
            }
        }
    }
    // reclassify corruptions that happen to be well-formed (e.g. '=' replacing
    // a final character whose bits are zero)
    for c in out.iter_mut() {
        if !c.corruption.is_empty() && std_decode(&c.input, c.url, c.padded).is_some() {
            c.corruption = String::new();
        }
    }
    out
}

// ---------------------------------------------------------------------------

/// Enumerated sub-checks hit the same confirmed defect on many items: only the
/// first failure of each signature (per sub-check and run) is reported as a
/// failure (one replay file), the others are counted under a class label.
/// Deterministic only for single-threaded enumerations.
fn first_of_signature(sub: &str, r: CaseResult) -> CaseResult {
    static SEEN: std::sync::OnceLock<std::sync::Mutex<std::collections::HashSet<String>>> = std::sync::OnceLock::new();
    match r {
        Ok(v) => Ok(v),
        Err(f) => {
            let first = SEEN.get_or_init(Default::default).lock().unwrap().insert(format!("{sub}|{}", f.signature));
            if first {
                Err(f)
            } else {
                Ok(Verdict::trivial(format!("repeat-of-reported-failure:{}", f.signature)))
            }
        }
    }
}

fn main() {
    vpcore::main("C19", "exploration", (1500, 10800), |p| {
        p.assume("reference semantics of the combinators = Brzozowski derivatives written from the doc comments of RegexInstructions (vp_circ::regex_ref); marker of a letter = the unique marker that keeps an accepted continuation possible (output determinism at every live prefix is the documented precondition; ambiguous expressions are discarded)");
        p.assume("standard base64 decoding = crate base64 0.13 (strict trailing bits) + RFC 4648 well-formedness (alphabet of the variant, canonical padding), output completed with zero bytes to 3/4 of the padded input length as documented");
        p.assume("MockProver::verify is the judge of satisfiability of the harness circuits");
        let q = p.quick();
        // development aid: C19_ONLY=<prefix> restricts the run to matching sub-checks
        let only = std::env::var("C19_ONLY").ok();
        let on = |name: &str| only.as_deref().map(|o| name.starts_with(o)).unwrap_or(true);

        if on("regex.compile") { p.sub("regex.compile", "expression uses >= 2 of {inter, neg/minus, star, marker} and the product has >= 5 reachable pairs", p.tier.pick(3000, 100_000), 16, || top_strategy().prop_map(|re| ReCase { re }).boxed(), check_regex_main); }

        if on("regex.complement-degenerate") { p.enumerate("regex.complement-degenerate", "regression of the fixed findings R1-R5: an operand has a language within {epsilon}, any() at top level, or byte_from repeats a byte", degenerate_items(p.seed, p.tier.pick(150, 3000)), 1, false, |c| first_of_signature("degenerate", check_degenerate(c))); }
        if on("regex.relabel-above-complement") { p.enumerate("regex.relabel-above-complement", "non-control item above any()", relabel_items(), 1, false, |c| first_of_signature("relabel", check_relabel(c))); }
        if on("regex.empty-operand") { p.enumerate("regex.empty-operand", "non-control item with an empty-language operand", empty_operand_items(p.seed, p.tier.pick(150, 3000)), 1, false, |c| first_of_signature("empty-operand", check_empty_operand(c))); }
        if on("regex.named") { p.enumerate("regex.named", "product has >= 5 reachable pairs", named_items(), 8, false, check_named); }

        if on("automaton.circuit") { p.sub("automaton.circuit", "some word of length >= 3", p.tier.pick(160, 2500), 16, || (top_strategy(), any::<u64>()).prop_map(|(re, seed)| CircCase { re, seed }).boxed(), check_circuit); }

        let n_entries = verif_spec_library_data().len();
        let shipped: Vec<ShippedCase> = (0..n_entries).flat_map(|e| ["deserialize", "reserialize", "equiv-spec", "samples"].into_iter().map(move |w| ShippedCase { entry: e, what: w.into() })).collect();
        if on("shipped.library") { p.enumerate("shipped.library", "every item", shipped, 4, true, check_shipped); }
        if on("shipped.roundtrip") { p.sub("shipped.roundtrip", ">= 3 transitions", p.tier.pick(300, 10_000), 16, || top_strategy().prop_map(|re| ReCase { re }).boxed(), check_roundtrip); }
        if on("shipped.fuzz") { p.sub("shipped.fuzz", "deserializer executed", p.tier.pick(4000, 400_000), 16, || (any::<u8>(), any::<u64>(), 1..6u8).prop_map(|(base, seed, n_mut)| FuzzCase { base, seed, n_mut }).boxed(), check_fuzz); }

        let items = b64_items(p.seed, if q { 1 } else { 6 }, if q { 8 } else { 1 });
        // The confirmed base64 defects fail on many items. The first item (in
        // list order) of each predicted signature is the reporter; a later item
        // failing with its predicted signature is counted as a repeat when the
        // reporter fails too (decided by running the reporter, memoised: the
        // outcome does not depend on thread timing).
        let predicted = |c: &B64Case| -> Option<String> {
            if c.variable && c.from_vec && !c.input.is_empty() && c.input.len() <= VA {
                Some("base64:from_vec-short-vector".into())
            } else if !c.corruption.is_empty() && (c.url || c.corruption != "other-variant-char") {
                Some(format!("base64:malformed-input-satisfiable:{}", c.corruption))
            } else {
                None
            }
        };
        let mut reporter: HashMap<String, B64Case> = HashMap::new();
        for c in &items {
            if let Some(s) = predicted(c) {
                reporter.entry(s).or_insert_with(|| c.clone());
            }
        }
        let memo: std::sync::Mutex<HashMap<String, std::sync::Arc<std::sync::OnceLock<bool>>>> = Default::default();
        let is_replay = p.is_replay();
        let b64_dedup = |c: &B64Case| -> CaseResult {
            let r = check_b64(c);
            let (Err(f), Some(sig), false) = (&r, predicted(c), is_replay) else { return r };
            let rep = &reporter[&sig];
            if f.signature != sig || (rep.input == c.input && rep.url == c.url && rep.padded == c.padded && rep.variable == c.variable && rep.from_vec == c.from_vec) {
                return r;
            }
            let cell = memo.lock().unwrap().entry(sig.clone()).or_default().clone();
            let reporter_fails = *cell.get_or_init(|| matches!(check_b64(rep), Err(g) if g.signature == sig));
            if reporter_fails {
                Ok(Verdict::trivial(format!("repeat-of-reported-failure:{sig}")))
            } else {
                r
            }
        };
        if on("base64") { p.enumerate("base64", "encoded length not a multiple of 4, or corrupted input", items, 16, false, b64_dedup); }
    });
}
