//! C09 — circuit structure never depends on witness or instance values.
//!
//! Every op of the C04 / C06 / C07 catalogues (and C05's when available) is
//! synthesised with several in-domain witnesses chosen to steer the
//! off-circuit helpers' data-dependent branches differently; required:
//! (b) the MockProver tables that constitute the fixed part — fixed columns,
//!     selectors, the copy-constraint permutation, the number of public inputs,
//!     and the k computed by the cost model — are identical for all witnesses;
//! (a) the verifying key generated WITHOUT a witness is byte-identical to the
//!     one generated with a witness present (sampled ops in quick, all in
//!     thorough).

use num_bigint::BigUint;
use serde::{Deserialize, Serialize};
use vp_alg::Int;
use vp_circ::{
    e2::{self, Op, OpVisitor},
    ops_ecc, ops_hash, ops_native,
};
use vpcore::{CaseResult, Failure, Verdict};

#[derive(Clone, Debug, Serialize, Deserialize)]
struct Item {
    catalogue: String,
    op: String,
    inputs: Vec<Vec<Int>>,
    with_vk: bool,
}

struct Collect {
    catalogue: &'static str,
    items: Vec<Item>,
    vk_every: u64,
}

impl OpVisitor for Collect {
    fn visit<O: Op>(&mut self, op: &O, inputs: &[Vec<BigUint>]) {
        let name = op.name();
        self.items.push(Item {
            catalogue: self.catalogue.into(),
            with_vk: vpcore::digest(&name) % self.vk_every == 0,
            op: name,
            inputs: inputs.iter().map(|x| x.iter().map(|v| Int::of("", v)).collect()).collect(),
        });
    }
}

impl ops_hash::ScratchVisitor for Collect {
    fn visit<O: ops_hash::ScratchOp>(&mut self, op: &O, inputs: &[Vec<BigUint>]) {
        let name = op.name();
        self.items.push(Item {
            catalogue: "hash-scratch".into(),
            with_vk: vpcore::digest(&name) % self.vk_every == 0,
            op: name,
            inputs: inputs.iter().map(|x| x.iter().map(|v| Int::of("", v)).collect()).collect(),
        });
    }
}

struct Runner<'a> {
    item: &'a Item,
    result: Option<CaseResult>,
}

fn judge(item: &Item, structures: Vec<Result<e2::Structure, String>>, vks: Option<(Result<Vec<u8>, String>, Result<Vec<u8>, String>)>) -> CaseResult {
    let name = &item.op;
    let mut first: Option<e2::Structure> = None;
    for (i, s) in structures.into_iter().enumerate() {
        let s = s.map_err(|e| Failure::new(format!("{name}:cannot-synthesise-visited-input"), format!("input #{i} {:?}: {e}", item.inputs[i])))?;
        match &first {
            None => first = Some(s),
            Some(f) => {
                let what = if f.k != s.k {
                    "k"
                } else if f.n_public != s.n_public {
                    "number-of-public-inputs"
                } else if f.selectors != s.selectors {
                    "selectors"
                } else if f.fixed != s.fixed {
                    "fixed-columns"
                } else if f.permutation != s.permutation {
                    "copy-constraints"
                } else {
                    ""
                };
                if !what.is_empty() {
                    return Err(Failure::new(
                        format!("{name}:structure-depends-on-witness:{what}"),
                        format!("inputs #0 {:?} and #{i} {:?} give different {what}: {f:?} vs {s:?}", item.inputs[0], item.inputs[i]),
                    ));
                }
            }
        }
    }
    if let Some((without, with)) = vks {
        let without = without.map_err(|e| Failure::new(format!("{name}:keygen-without-witness-fails"), e))?;
        let with = with.map_err(|e| Failure::new(format!("{name}:keygen-with-witness-fails"), e))?;
        if without != with {
            return Err(Failure::new(format!("{name}:vk-depends-on-witness"), format!("vk bytes generated with witness {:?} differ from those generated without", item.inputs[0])));
        }
    }
    Ok(Verdict::of(item.inputs.len() >= 2, item.catalogue.clone()).with(if item.with_vk { "structure+vk" } else { "structure" }))
}

impl OpVisitor for Runner<'_> {
    fn visit<O: Op>(&mut self, op: &O, _inputs: &[Vec<BigUint>]) {
        if op.name() != self.item.op || self.result.is_some() {
            return;
        }
        let xs: Vec<Vec<BigUint>> = self.item.inputs.iter().map(|x| x.iter().map(|v| v.big()).collect()).collect();
        let structures: Vec<_> = xs.iter().map(|x| e2::structure_of(op, x)).collect();
        let vks = if self.item.with_vk {
            structures[0].as_ref().ok().map(|s| (e2::vk_bytes(op, None, s.k), e2::vk_bytes(op, Some(&xs[0]), s.k)))
        } else {
            None
        };
        self.result = Some(judge(self.item, structures, vks));
    }
}

impl ops_hash::ScratchVisitor for Runner<'_> {
    fn visit<O: ops_hash::ScratchOp>(&mut self, op: &O, _inputs: &[Vec<BigUint>]) {
        if op.name() != self.item.op || self.result.is_some() {
            return;
        }
        let xs: Vec<Vec<BigUint>> = self.item.inputs.iter().map(|x| x.iter().map(|v| v.big()).collect()).collect();
        let structures: Vec<_> = xs.iter().map(|x| ops_hash::scratch_structure_of(op, x)).collect();
        let vks = if self.item.with_vk {
            structures[0].as_ref().ok().map(|s| (ops_hash::scratch_vk_bytes(op, None, s.k), ops_hash::scratch_vk_bytes(op, Some(&xs[0]), s.k)))
        } else {
            None
        };
        self.result = Some(judge(self.item, structures, vks));
    }
}

fn main() {
    vpcore::main("C09", "exploration", (3600, 21600), |p| {
        p.assume("witnesses are the representative in-domain tuples provided by the op catalogues of C04/C06/C07 (zero/non-zero, equal/unequal, carries, identity points, different actual lengths and fillers for variable-length gadgets)");
        let quick = p.quick();
        let seed = p.seed;
        let vk_every = if quick { 8 } else { 1 };
        let mut items = vec![];
        for (cat, which) in [("native", 0), ("ecc", 1), ("hash", 2), ("hash-scratch", 3)] {
            let mut c = Collect { catalogue: cat, items: vec![], vk_every };
            match which {
                0 => ops_native::visit_ops(&mut c, quick, seed),
                1 => ops_ecc::visit_ops(&mut c, quick, seed),
                2 => ops_hash::visit_ops(&mut c, quick, seed),
                _ => ops_hash::visit_scratch_ops(&mut c, quick, seed),
            }
            items.extend(c.items);
        }
        p.enumerate(
            "catalogue.structure",
            "every catalogue op x its representative witnesses: identical k / fixed columns / selectors / copy constraints / number of public inputs under MockProver, and (sampled ops in quick) vk generated without witness == vk generated with a witness; non-trivial = at least two distinct witnesses",
            items,
            16,
            false,
            move |item: &Item| -> CaseResult {
                let mut r = Runner { item, result: None };
                match item.catalogue.as_str() {
                    "native" => ops_native::visit_ops(&mut r, quick, seed),
                    "ecc" => ops_ecc::visit_ops(&mut r, quick, seed),
                    "hash" => ops_hash::visit_ops(&mut r, quick, seed),
                    _ => ops_hash::visit_scratch_ops(&mut r, quick, seed),
                }
                r.result.unwrap_or_else(|| Err(Failure::new("harness:op-not-found-in-catalogue", item.op.clone())))
            },
        );
    });
}
