//! C16 — decoding and verifying untrusted bytes is total: errors, never crashes.
//!
//! Deterministic structured mutators (E5) over valid encodings with a known
//! layout; every call into the library happens in an isolated WORKER process
//! (`c16 --worker <bundle dir>`, cases on stdin, `BEGIN/AT/ALLOC/END` lines on
//! stdout): panics are caught in the worker (`vpcore::catch`), aborts / stack
//! overflows / refused allocations kill it and the parent attributes the death
//! to the entry point announced last (`abort:<entry>` / `alloc:<entry>`), saves
//! the input under /verif/replays and respawns. A counting global allocator
//! refuses (and logs with write(2)) any single request larger than
//! 64 MiB + 64*len(input) while a decode guard is active.
//!
//! Oracles: no panic/abort/oversized allocation; a successful decode re-encodes
//! to exactly the bytes it consumed (canonicity) and its points are on the
//! curve (compressed: in the subgroup); a key that decodes is then used by
//! `verify` (valid proof, corrupted proof, both transcript hashes, an instance
//! of the length the key claims) and `batch_verify`, which must return; a proof
//! is accepted only if it is byte-identical to the honest one under its own key.
//! Proving keys / full parameter sets: same mutators, counted only
//! (`report-only:*` classes). IR programs: the loaders (`ZkirRelation::read`,
//! `read_relation`) and `used_chips()` are judged; compiling a program that
//! loaded (`from_relation(..).min_k()`, `public_inputs`) still runs in the
//! worker but is REPORT-ONLY (`report-only:ir-compile:*`; judged by C18).
//! Sub-check `regression` pins the verdicts of the repaired defects F9, F10,
//! F11, F12 and the IR bincode length fields.
//!
//! `c16 thorough` additionally runs the libFuzzer targets of /verif/harness/fuzz.
//!
//! Sensitivity (scratch worktree /tmp/wt-c16 + harness copy, see GUIDE; quick
//! tier, VERIF_SEED=1; all three caught, none of the signatures occurs on the
//! unchanged tree):
//!  M1 plonk/mod.rs `read_from_cs`: version-byte check removed
//!     -> `noncanonical:MidnightVK::read:{Processed,RawBytes}` in vk:header:plonk-version
//!        and `noncanonical:plonk::VerifyingKey::read:*` in plonk-vk (re-encoding writes 0x03).
//!  M2 transcript/implementors.rs `Hashable<Blake2bState> for Fq::read`: `from_repr`
//!     replaced by an unchecked reduction (scalar >= r accepted)
//!     -> `verify:accepts-mutated-proof` in proof:noncanonical-scalar.
//!  M3 curves bls12_381/g1.rs `G1Affine::from_compressed`: subgroup check removed
//!     -> `invalid-point-accepted:MidnightVK::read:Processed` (vk:element, vk:bitflips,
//!        vk:splice+append) and `invalid-point-accepted:plonk::VerifyingKey::read:Processed`.

#[path = "c16/alloc.rs"]
mod alloc;
#[path = "c16/fuzzrun.rs"]
mod fuzzrun;
#[path = "c16/points.rs"]
mod points;
#[path = "c16/pool.rs"]
mod pool;
#[path = "c16/subs.rs"]
mod subs;
#[path = "c16/types.rs"]
mod types;
#[path = "c16/worker.rs"]
mod worker;
#[path = "c16/zk.rs"]
mod zk;

#[global_allocator]
static GLOBAL: alloc::CountingAlloc = alloc::CountingAlloc;

use ff::PrimeField;
use midnight_curves::Bls12;
use midnight_proofs::poly::kzg::params::ParamsKZG;
use rand_chacha::ChaCha20Rng;
use rand_core::SeedableRng;
use types::{Bundle, FMTS};
use vp_circ::e6::{self, ALL_FIX};

/// Writes every valid encoding the cases start from into the bundle directory.
fn build_bundle(b: &Bundle) {
    std::thread::scope(|sc| {
        for fix in ALL_FIX {
            sc.spawn(move || {
                let keys = e6::keys(fix);
                for fmt in FMTS {
                    let mut v = vec![];
                    keys.vk.write(&mut v, fmt.serde()).expect("vk write");
                    b.put(&format!("vk_{}_{}", fix as u8, fmt.tag()), &v);
                    let mut v = vec![];
                    keys.pk.write(&mut v, fmt.serde()).expect("pk write");
                    b.put(&format!("pk_{}_{}", fix as u8, fmt.tag()), &v);
                }
                let (inst, wit) = fix.sample(0xC16);
                let mut ib = vec![];
                for x in &inst {
                    ib.extend_from_slice(x.to_repr().as_ref());
                }
                b.put(&format!("inst_{}", fix as u8), &ib);
                for poseidon in [false, true] {
                    let proof = e6::prove(&keys, &inst, wit.clone(), poseidon, 0xC16).expect("honest proving of a fixture");
                    e6::verify(&keys, &inst, &proof, poseidon).expect("honest fixture proof must verify");
                    b.put(&format!("proof_{}_{}", fix as u8, if poseidon { "poseidon" } else { "blake" }), &proof);
                }
            });
        }
    });
    let keys = e6::keys(e6::Fix::Affine3);
    for fmt in FMTS {
        let mut v = vec![];
        keys.params.verifier_params().write(&mut v, fmt.serde()).expect("params write");
        b.put(&format!("vparams_{}", fmt.tag()), &v);
        let small = ParamsKZG::<Bls12>::unsafe_setup(3, ChaCha20Rng::seed_from_u64(0xC16));
        let mut v = vec![];
        small.write_custom(&mut v, fmt.serde()).expect("params write");
        b.put(&format!("fullparams_{}", fmt.tag()), &v);
    }
    for (i, s) in zk::SEEDS.iter().enumerate() {
        b.put(&format!("zkir_{i}.json"), s.as_bytes());
        // read_relation decodes a `(Program, usize)` tuple, i.e. it consumes one extra
        // varint after the program (see sub-check zkir-bincode:roundtrip): the seeds of the
        // mutators carry that extra byte so that they load; the exact encoding is kept aside.
        let exact = zk::seed_bincode(s);
        b.put(&format!("zkir_{i}.exact.bin"), &exact);
        b.put(&format!("zkir_{i}.bin"), &[&exact[..], &[0u8][..]].concat());
    }
    b.put("zkir_count", zk::SEEDS.len().to_string().as_bytes());
}

// ---------------------------------------------------------------------------
// keys of generated circuits (E1) with an edited header, used by the PLONK verifier.
// The fixture relations above have one shape each; the generated family varies which columns
// are queried at which rotations, which is what a key declaring another domain size disturbs
// (k = 0 and 1 make rotations coincide).

mod genkeys {
    use midnight_proofs::{
        plonk::VerifyingKey,
        transcript::{CircuitTranscript, Transcript},
        utils::SerdeFormat,
    };
    use proptest::prelude::*;
    use serde::{Deserialize, Serialize};
    use vp_plonk::{
        e1::{build_plan, expand, knobs_strategy, GenCircuit, Knobs},
        pv::{self, Blake, CS},
    };
    use vpcore::{CaseResult, Failure, Verdict};
    type F = midnight_curves::Fq;

    #[derive(Clone, Debug, Serialize, Deserialize)]
    pub struct Case {
        knobs: Knobs,
        n_committed: usize,
        wseed: u64,
        raw: bool,
    }

    pub fn strategy() -> BoxedStrategy<Case> {
        (knobs_strategy(6), 0usize..=1, any::<u64>(), any::<bool>()).prop_map(|(knobs, n_committed, wseed, raw)| Case { knobs, n_committed, wseed, raw }).boxed()
    }

    pub fn run(c: &Case) -> CaseResult {
        let spec = expand(&c.knobs);
        let n_committed = c.n_committed.min(spec.n_instance);
        let plan = build_plan(&spec, c.wseed);
        if pv::mock(&spec, &plan).is_err() {
            return Ok(Verdict::trivial("harness:plan-not-satisfying"));
        }
        let (pk, vk) = pv::keygen(&spec).map_err(|e| Failure::new("harness:keygen-fails", e))?;
        let st = pv::statement(&vk, &spec, &[plan.instances.clone()], n_committed);
        let mut t = CircuitTranscript::<Blake>::init();
        pv::prove(&pk, &spec, &[plan.clone()], n_committed, c.wseed ^ 0xabcd, &mut t).map_err(|e| Failure::new("harness:create_proof-fails", e))?;
        let proof = t.finalize();
        let fmt = if c.raw { SerdeFormat::RawBytes } else { SerdeFormat::Processed };
        let mut bytes = vec![];
        vk.write(&mut bytes, fmt).map_err(|e| Failure::new("harness:vk-write-fails", e.to_string()))?;
        let honest_k = bytes[1];
        let mut decoded = 0;
        let mut collapsing = false;
        // every domain size the field supports, and two beyond (the decoder must refuse those)
        for k in 0..=34u8 {
            let mut b = bytes.clone();
            b[1] = k;
            let spec2 = spec.clone();
            let r = vpcore::catch(|| VerifyingKey::<F, CS>::from_bytes::<GenCircuit>(&b, fmt, spec2)).map_err(|p| Failure::new(format!("panic:plonk::VerifyingKey::from_bytes:{}", vpcore::panic_signature(&p)), format!("header k = {k}: {p}")))?;
            let Ok(vk2) = r else { continue };
            decoded += 1;
            if k <= 1 {
                collapsing = true;
            }
            let res = vpcore::catch(|| {
                let mut t = CircuitTranscript::<Blake>::init_from_bytes(&proof);
                pv::verify(&vk2, spec.k, &st, &mut t)
            })
            .map_err(|p| Failure::new(format!("panic:plonk::prepare(decoded-vk):{}", vpcore::panic_signature(&p)), format!("verification with a decoded key whose header declares k = {k} (honest {honest_k}) panicked: {p}; spec = {spec:?}")))?;
            if k == honest_k {
                res.map_err(|e| Failure::new("harness:honest-key-rejects", e))?;
            } else if res.is_ok() {
                return Err(Failure::new("plonk::prepare(decoded-vk):accepts-under-wrong-domain", format!("header k = {k}, honest {honest_k}")));
            }
        }
        let feats = spec.features();
        let mut v = Verdict::of(decoded >= 2 && !feats.is_empty(), format!("decoded-keys:{}", if decoded >= 30 { "30+" } else { "<30" }));
        if collapsing {
            v = v.with("k<=1-decoded");
        }
        for f in feats {
            v = v.with(f);
        }
        Ok(v.with(if c.raw { "RawBytes" } else { "Processed" }))
    }
}

fn main() {
    let args: Vec<String> = std::env::args().collect();
    if args.get(1).map(|s| s.as_str()) == Some("--worker") {
        worker::worker_main(args.get(2).expect("--worker <bundle dir>"));
    }
    vpcore::main("C16", "fault_enumeration", (1500, 4 * 3600), |p| {
        p.assume("fixture keys/proofs/parameters produced by the library itself are valid encodings; blst/zcash point serialization as documented in DESIGN A.3; the worker's verdict lines are trusted");
        p.assume("RawBytes G1 points are only required to be on the curve (the property demands the subgroup for compressed points only); IR bincode programs are not required to be canonical (counted)");
        let dir = std::env::temp_dir().join(format!("c16-bundle-{}", std::process::id()));
        std::fs::create_dir_all(&dir).expect("bundle dir");
        let b: &'static Bundle = types::BUNDLE.get_or_init(|| Bundle::open(&dir));
        build_bundle(b);
        if std::env::var("VP_C16_EXPORT").is_ok() {
            // export the valid encodings as fuzz fixtures / seed corpora (used once by the builder)
            fuzzrun::export_corpus(b);
        }
        let pool = pool::Pool::new(dir.to_str().unwrap());
        // VP_C16_FUZZ_ONLY=1 (thorough tier): skip the deterministic part, run the libFuzzer campaigns only
        if p.quick() || p.is_replay() || std::env::var("VP_C16_FUZZ_ONLY").is_err() {
            subs::run_all(p, b, &pool);
        }
        pool.shutdown();
        if p.quick() || p.is_replay() || std::env::var("VP_C16_FUZZ_ONLY").is_err() {
            p.sub(
                "plonk-vk:generated-circuits",
                "verifying keys of generated circuits (E1 family: random gate rotations, lookups, copy constraints, committed instance columns) serialised, the header k byte set to each of 0..=34, decoded with from_bytes and used by prepare + verify on an honest proof of the original key: no panic, acceptance only under the honest k; non-trivial = at least two values of k decode and the circuit has a gate/lookup/copy feature",
                p.tier.pick(120, 2000),
                8,
                genkeys::strategy,
                genkeys::run,
            );
        }
        for t in pool.timeouts.lock().unwrap().iter() {
            p.inconclusive(format!("timeout: {t}"));
        }
        if !p.is_replay() {
            eprintln!("C16 workers spawned {} deaths {}", pool.spawned.load(std::sync::atomic::Ordering::Relaxed), pool.deaths.load(std::sync::atomic::Ordering::Relaxed));
        }
        if !p.quick() && !p.is_replay() {
            fuzzrun::run_fuzzers(p);
        }
        let _ = std::fs::remove_dir_all(&dir);
    });
}
