//! C20 — recursion and aggregation accept exactly the valid inner proofs.
//!
//! (A) inner-product argument (hook re-export): complete for every size
//!     2^0..2^6; any altered base, claimed value or proof element is rejected.
//! (B) LightAggregator<N>, N in {1,2} (thorough: 3), through its public API:
//!     the untouched aggregate verifies; every element of every section of the
//!     aggregated proof corrupted once (layout from the recording transcript),
//!     truncations, appended bytes, sampled bit flips, edited inner instances
//!     are rejected with an error (never a panic); aggregation of a set that
//!     contains an invalid inner proof returns Err or yields an aggregate that
//!     verification rejects.
//! (C) VerifierGadget<BlstrsEmulation>: the in-circuit verifier is satisfied with
//!     exactly the accumulator computed off-circuit (`prepare` +
//!     `Accumulator::from_dual_msm` + collapse) and with no other claimed
//!     accumulator / vk identity / inner public input; a corrupted inner proof
//!     either fails synthesis or only satisfies the circuit with an accumulator
//!     that does not pass `check`.

use std::sync::{Arc, Mutex, OnceLock};

use ff::Field;
use group::Group;
use midnight_aggregator::{
    light_aggregator::LightAggregator,
    verif_hooks::{ipa_prove, ipa_verify, LightPoseidonFS},
};
use midnight_circuits::{
    ecc::{
        curves::CircuitCurve,
        foreign::{nb_foreign_ecc_chip_columns, ForeignEccChip, ForeignEccConfig},
    },
    field::{
        decomposition::{
            chip::{P2RDecompositionChip, P2RDecompositionConfig},
            pow2range::Pow2RangeChip,
        },
        foreign::FieldChip,
        native::NB_ARITH_COLS,
        NativeChip, NativeConfig, NativeGadget,
    },
    hash::poseidon::{PoseidonChip, PoseidonConfig, NB_POSEIDON_ADVICE_COLS, NB_POSEIDON_FIXED_COLS},
    instructions::*,
    types::{ComposableChip, Instantiable},
    verifier::{self, Accumulator, AssignedAccumulator, AssignedVk, BlstrsEmulation, SelfEmulation, VerifierGadget},
};
use midnight_curves::{Bls12, G1Projective};
use midnight_proofs::{
    circuit::{Layouter, SimpleFloorPlanner, Value},
    dev::MockProver,
    plonk::{prepare, Circuit, ConstraintSystem, Error},
    poly::{
        kzg::{params::ParamsKZG, KZGCommitmentScheme},
        EvaluationDomain,
    },
    transcript::{CircuitTranscript, Transcript},
};
use midnight_zk_stdlib::{MidnightPK, MidnightVK, Relation};
use proptest::prelude::*;
use rand_chacha::ChaCha20Rng;
use rand_core::SeedableRng;
use serde::{Deserialize, Serialize};
use vp_circ::e6::{Fix, Poseidon};
use vp_plonk::pv::{RecordingTranscript, Written};
use vpcore::{ensure, CaseResult, Failure, SplitMix, Verdict};

type S = BlstrsEmulation;
type F = <S as SelfEmulation>::F;
type C = <S as SelfEmulation>::C;
type CBase = <C as CircuitCurve>::Base;
type NG = NativeGadget<F, P2RDecompositionChip<F>, NativeChip<F>>;
type Blake = blake2b_simd::State;
type Light = LightPoseidonFS<F>;

// ---------------------------------------------------------------------------
// (A) inner-product argument

#[derive(Clone, Debug, Serialize, Deserialize)]
struct IpaCase {
    log_n: u32,
    seed: u64,
    zero_scalars: bool,
}

fn ipa_case(c: &IpaCase) -> CaseResult {
    let n = 1usize << c.log_n;
    let mut rng = SplitMix(c.seed);
    let mut rf = |z: bool| if z && rng.below(2) == 0 { F::ZERO } else { F::from(rng.next_u64()) * F::from(rng.next_u64()) + F::ONE };
    let scalars: Vec<F> = (0..n).map(|_| rf(c.zero_scalars)).collect();
    let bases1: Vec<C> = (0..n).map(|_| C::generator() * rf(false)).collect();
    let bases2: Vec<C> = (0..n).map(|i| if i % 5 == 4 { C::identity() } else { C::generator() * rf(false) }).collect();
    let ip = |s: &[F], b: &[C]| s.iter().zip(b).fold(C::identity(), |acc, (s, b)| acc + *b * *s);
    let res1 = ip(&scalars, &bases1);
    let res2 = ip(&scalars, &bases2);
    let mut t = RecordingTranscript::<Blake>::init();
    ipa_prove::<_, C>(&scalars, &bases1, &bases2, &res1, &res2, &mut t).map_err(|e| Failure::new("ipa_prove:fails", format!("{e:?}")))?;
    let log = t.log.clone();
    let proof = t.finalize();
    let verify = |b1: &[C], b2: &[C], r1: &C, r2: &C, proof: &[u8]| -> Result<bool, String> {
        vpcore::catch(|| {
            let mut t = CircuitTranscript::<Blake>::init_from_bytes(proof);
            let ok = ipa_verify::<_, C>(b1, b2, r1, r2, &mut t).is_ok();
            ok && t.assert_empty().is_ok()
        })
    };
    ensure!(verify(&bases1, &bases2, &res1, &res2, &proof) == Ok(true), "ipa:incomplete", "honest IPA proof of size {n} rejected");
    let must_reject = |what: &str, r: Result<bool, String>| -> Result<(), Failure> {
        match r {
            Ok(false) => Ok(()),
            Ok(true) => Err(Failure::new(format!("ipa:accepts:{what}"), format!("size {n}"))),
            Err(p) => Err(Failure::new(format!("ipa:panic:{what}"), p)),
        }
    };
    let g = C::generator();
    for i in 0..n {
        if scalars[i] == F::ZERO {
            continue; // the claim stays true when the base of a zero scalar changes
        }
        let mut b = bases1.clone();
        b[i] += g;
        must_reject("altered-bases1", verify(&b, &bases2, &res1, &res2, &proof))?;
        let mut b = bases2.clone();
        b[i] += g;
        must_reject("altered-bases2", verify(&bases1, &b, &res1, &res2, &proof))?;
    }
    must_reject("altered-res1", verify(&bases1, &bases2, &(res1 + g), &res2, &proof))?;
    must_reject("altered-res2", verify(&bases1, &bases2, &res1, &(res2 + g), &proof))?;
    if n >= 2 {
        let mut b = bases1.clone();
        b.swap(0, 1);
        if ip(&scalars, &b) != res1 {
            must_reject("swapped-bases1", verify(&b, &bases2, &res1, &res2, &proof))?;
        }
    }
    for m in element_mutations(&proof, &log, c.seed, 16) {
        must_reject(&format!("proof:{}", m.0), verify(&bases1, &bases2, &res1, &res2, &m.1))?;
    }
    Ok(Verdict::of(n >= 2, format!("n={n}")))
}

/// Element-level and byte-level mutations of a transcript-produced proof.
fn element_mutations(proof: &[u8], log: &[Written], seed: u64, bitflips: usize) -> Vec<(String, Vec<u8>)> {
    let mut out = vec![];
    let mut rng = SplitMix(seed ^ 0xe1e);
    for w in log {
        let el = &proof[w.offset..w.offset + w.len];
        let mut put = |kind: &str, new: Vec<u8>| {
            if new != el {
                let mut b = proof.to_vec();
                b[w.offset..w.offset + w.len].copy_from_slice(&new);
                out.push((format!("{}:{kind}", w.kind), b));
            }
        };
        match w.kind {
            "point" => {
                use group::{Curve, GroupEncoding};
                let mut repr = <midnight_curves::G1Affine as GroupEncoding>::Repr::default();
                repr.as_mut().copy_from_slice(el);
                if let Some(p) = Option::<midnight_curves::G1Affine>::from(midnight_curves::G1Affine::from_bytes(&repr)) {
                    put("other-valid", (G1Projective::from(p) + G1Projective::generator()).to_affine().to_bytes().as_ref().to_vec());
                }
                let mut id = vec![0u8; 48];
                id[0] = 0xC0;
                put("identity", id);
                put("all-ff", vec![0xff; 48]);
            }
            "scalar" => {
                use ff::PrimeField;
                let mut repr = <F as PrimeField>::Repr::default();
                repr.as_mut().copy_from_slice(el);
                if let Some(v) = Option::<F>::from(F::from_repr(repr)) {
                    put("plus-one", (v + F::ONE).to_repr().as_ref().to_vec());
                    put("zero", F::ZERO.to_repr().as_ref().to_vec());
                }
                put("all-ff", vec![0xff; 32]);
            }
            _ => {
                // u32 counters
                let mut b = el.to_vec();
                b[0] = b[0].wrapping_add(1);
                put("plus-one", b);
                put("all-ff", vec![0xff; el.len()]);
                put("zero", vec![0; el.len()]);
            }
        }
        out.push(("truncate:boundary".into(), proof[..w.offset].to_vec()));
        out.push(("truncate:mid-element".into(), proof[..w.offset + w.len / 2].to_vec()));
    }
    for n in [1usize, 32, 48] {
        let mut b = proof.to_vec();
        b.extend(rng.bytes(n));
        out.push(("append".into(), b));
    }
    for _ in 0..bitflips {
        let bit = rng.below(proof.len() as u64 * 8) as usize;
        let mut b = proof.to_vec();
        b[bit / 8] ^= 1 << (bit % 8);
        out.push(("bitflip".into(), b));
    }
    out
}

// ---------------------------------------------------------------------------
// (B) light aggregator

struct Inner {
    fix: Fix,
    srs: ParamsKZG<Bls12>,
    inner_srs: ParamsKZG<Bls12>,
    vk: MidnightVK,
    pk: MidnightPK<Fix>,
}

fn big_srs() -> ParamsKZG<Bls12> {
    static SRS: OnceLock<ParamsKZG<Bls12>> = OnceLock::new();
    SRS.get_or_init(|| ParamsKZG::<Bls12>::unsafe_setup(16, ChaCha20Rng::seed_from_u64(0xA66))).clone()
}

fn inner(fix: Fix) -> Arc<Inner> {
    static CACHE: OnceLock<Mutex<Vec<Arc<Inner>>>> = OnceLock::new();
    let m = CACHE.get_or_init(|| Mutex::new(vec![]));
    if let Some(i) = m.lock().unwrap().iter().find(|i| i.fix == fix) {
        return i.clone();
    }
    let srs = big_srs();
    let mut inner_srs = srs.clone();
    midnight_zk_stdlib::downsize_srs_for_relation(&mut inner_srs, &fix);
    let vk = midnight_zk_stdlib::setup_vk(&inner_srs, &fix);
    let pk = midnight_zk_stdlib::setup_pk(&fix, &vk);
    let i = Arc::new(Inner { fix, srs, inner_srs, vk, pk });
    m.lock().unwrap().push(i.clone());
    i
}

fn inner_proof(i: &Inner, seed: u64) -> (Vec<F>, Vec<u8>) {
    let (inst, wit) = i.fix.sample(seed);
    let proof = midnight_zk_stdlib::prove::<Fix, Light>(&i.inner_srs, &i.pk, &i.fix, &inst, wit, ChaCha20Rng::seed_from_u64(seed ^ 9)).expect("inner proof");
    (inst, proof)
}

#[derive(Clone, Debug, Serialize, Deserialize)]
struct AggCase {
    fix: Fix,
    n: usize,
    seed: u64,
    bitflips: usize,
}

macro_rules! agg_for_n {
    ($name:ident, $n:expr) => {
        fn $name(c: &AggCase) -> CaseResult {
            const N: usize = $n;
            let i = inner(c.fix);
            static AGG: OnceLock<Mutex<Vec<(Fix, Arc<(LightAggregator<N>, ParamsKZG<Bls12>)>)>>> = OnceLock::new();
            let cache = AGG.get_or_init(|| Mutex::new(vec![]));
            let existing = cache.lock().unwrap().iter().find(|(f, _)| *f == c.fix).map(|(_, a)| a.clone());
            let agg = match existing {
                Some(a) => a,
                None => {
                    let mut srs = i.srs.clone();
                    let a = LightAggregator::<N>::init(&mut srs, i.vk.vk()).map_err(|e| Failure::new("aggregator:init-fails", format!("{e:?}")))?;
                    let a = Arc::new((a, srs));
                    cache.lock().unwrap().push((c.fix, a.clone()));
                    a
                }
            };
            let (aggregator, srs) = (&agg.0, &agg.1);
            let members: Vec<(Vec<F>, Vec<u8>)> = (0..N).map(|j| inner_proof(&i, c.seed.wrapping_add(j as u64 * 31))).collect();
            let instances: [Vec<F>; N] = core::array::from_fn(|j| members[j].0.clone());
            let proofs: [Vec<u8>; N] = core::array::from_fn(|j| members[j].1.clone());
            let mut t = RecordingTranscript::<Blake>::init();
            aggregator
                .aggregate_proofs(srs, &instances, &proofs, ChaCha20Rng::seed_from_u64(c.seed ^ 5), &mut t)
                .map_err(|e| Failure::new("aggregator:aggregate-fails-on-valid-proofs", format!("{e:?}")))?;
            let log = t.log.clone();
            let meta = t.finalize();
            let vp = srs.verifier_params();
            let verify = |inst: &[Vec<F>; N], proof: &[u8]| -> Result<bool, String> {
                vpcore::catch(|| {
                    let mut t = CircuitTranscript::<Blake>::init_from_bytes(proof);
                    let ok = aggregator.verify(&vp, inst, &mut t).is_ok();
                    ok && t.assert_empty().is_ok()
                })
            };
            ensure!(verify(&instances, &meta) == Ok(true), "aggregator:honest-aggregate-rejected", "N={N} fix={:?}", c.fix);
            let must_reject = |what: &str, r: Result<bool, String>| -> Result<(), Failure> {
                match r {
                    Ok(false) => Ok(()),
                    Ok(true) => Err(Failure::new(format!("aggregator:accepts:{what}"), format!("N={N} fix={:?}", c.fix))),
                    Err(p) => Err(Failure::new(format!("aggregator:panic:{what}:{}", vpcore::panic_signature(&p)), p)),
                }
            };
            let mut kinds = std::collections::BTreeSet::new();
            for (kind, bytes) in element_mutations(&meta, &log, c.seed, c.bitflips) {
                must_reject(&format!("proof:{kind}"), verify(&instances, &bytes))?;
                kinds.insert(kind);
            }
            for j in 0..N {
                for pos in 0..instances[j].len() {
                    let mut inst = instances.clone();
                    inst[j][pos] += F::ONE;
                    must_reject("inner-instance-edited", verify(&inst, &meta))?;
                }
            }
            if N >= 2 && instances[0] != instances[1] {
                let mut inst = instances.clone();
                inst.swap(0, 1);
                must_reject("inner-instances-swapped", verify(&inst, &meta))?;
            }
            // a set with one invalid inner proof
            for j in 0..N {
                let mut bad = proofs.clone();
                let pos = (c.seed as usize).wrapping_mul(7 + j) % bad[j].len();
                bad[j][pos] ^= 1;
                let mut t = CircuitTranscript::<Blake>::init();
                let r = vpcore::catch(|| aggregator.aggregate_proofs(srs, &instances, &bad, ChaCha20Rng::seed_from_u64(c.seed ^ 6), &mut t));
                match r {
                    Err(_) | Ok(Err(_)) => {} // refused (an abort during witness generation counts as refusal)
                    Ok(Ok(())) => {
                        let meta_bad = t.finalize();
                        must_reject("aggregate-of-invalid-inner-proof", verify(&instances, &meta_bad))?;
                    }
                }
                let mut inst = instances.clone();
                inst[j][0] += F::ONE;
                let mut t = CircuitTranscript::<Blake>::init();
                let r = vpcore::catch(|| aggregator.aggregate_proofs(srs, &inst, &proofs, ChaCha20Rng::seed_from_u64(c.seed ^ 7), &mut t));
                if let Ok(Ok(())) = r {
                    let meta_bad = t.finalize();
                    must_reject("aggregate-with-wrong-inner-instance", verify(&inst, &meta_bad))?;
                }
            }
            let mut v = Verdict::nontrivial(format!("N={N}/{:?}", c.fix));
            for k in kinds {
                v = v.with(k);
            }
            Ok(v)
        }
    };
}
agg_for_n!(agg1, 1);
agg_for_n!(agg2, 2);
agg_for_n!(agg3, 3);

// ---------------------------------------------------------------------------
// (C) verifier gadget

#[derive(Clone, Debug)]
struct GadgetCircuit {
    inner_vk: (EvaluationDomain<F>, ConstraintSystem<F>, Value<F>),
    inner_committed_instance: Value<C>,
    inner_instances: Value<Vec<F>>,
    n_inner: usize,
    inner_proof: Value<Vec<u8>>,
}

type GadgetConfig = (NativeConfig, P2RDecompositionConfig, ForeignEccConfig<C>, PoseidonConfig<F>);

impl Circuit<F> for GadgetCircuit {
    type Config = GadgetConfig;
    type FloorPlanner = SimpleFloorPlanner;
    type Params = ();

    fn without_witnesses(&self) -> Self {
        unreachable!()
    }

    fn configure(meta: &mut ConstraintSystem<F>) -> Self::Config {
        let nb_advice_cols = nb_foreign_ecc_chip_columns::<F, C, C, NG>();
        let nb_fixed_cols = NB_ARITH_COLS + 4;
        let advice_columns: Vec<_> = (0..nb_advice_cols).map(|_| meta.advice_column()).collect();
        let fixed_columns: Vec<_> = (0..nb_fixed_cols).map(|_| meta.fixed_column()).collect();
        let committed_instance_column = meta.instance_column();
        let instance_column = meta.instance_column();
        let native_config = NativeChip::configure(
            meta,
            &(
                advice_columns[..NB_ARITH_COLS].try_into().unwrap(),
                fixed_columns[..NB_ARITH_COLS + 4].try_into().unwrap(),
                [committed_instance_column, instance_column],
            ),
        );
        let core_decomp_config = {
            let pow2_config = Pow2RangeChip::configure(meta, &advice_columns[1..NB_ARITH_COLS]);
            P2RDecompositionChip::configure(meta, &(native_config.clone(), pow2_config))
        };
        let base_config = FieldChip::<F, CBase, C, NG>::configure(meta, &advice_columns);
        let curve_config = ForeignEccChip::<F, C, C, NG, NG>::configure(meta, &base_config, &advice_columns);
        let poseidon_config = PoseidonChip::configure(
            meta,
            &(
                advice_columns[..NB_POSEIDON_ADVICE_COLS].try_into().unwrap(),
                fixed_columns[..NB_POSEIDON_FIXED_COLS].try_into().unwrap(),
            ),
        );
        (native_config, core_decomp_config, curve_config, poseidon_config)
    }

    fn synthesize(&self, config: Self::Config, mut layouter: impl Layouter<F>) -> Result<(), Error> {
        let native_chip = <NativeChip<F> as ComposableChip<F>>::new(&config.0, &());
        let core_decomp_chip = P2RDecompositionChip::new(&config.1, &16);
        let native_gadget = NativeGadget::new(core_decomp_chip.clone(), native_chip.clone());
        let curve_chip = ForeignEccChip::new(&config.2, &native_gadget, &native_gadget);
        let poseidon_chip = PoseidonChip::new(&config.3, &native_chip);
        let verifier_chip = VerifierGadget::<S>::new(&curve_chip, &native_gadget, &poseidon_chip);
        let assigned_inner_vk: AssignedVk<S> =
            verifier_chip.assign_vk_as_public_input(&mut layouter, "inner_vk", &self.inner_vk.0, &self.inner_vk.1, self.inner_vk.2)?;
        let assigned_committed_instance = curve_chip.assign(&mut layouter, self.inner_committed_instance)?;
        let vals: Vec<Value<F>> = (0..self.n_inner).map(|i| self.inner_instances.clone().map(|v| v[i])).collect();
        let assigned_inner_pi = native_gadget.assign_many(&mut layouter, &vals)?;
        // the inner public inputs are exposed so that the statement binds them
        for x in &assigned_inner_pi {
            native_gadget.constrain_as_public_input(&mut layouter, x)?;
        }
        let mut inner_proof_acc =
            verifier_chip.prepare(&mut layouter, &assigned_inner_vk, &[assigned_committed_instance], &[&assigned_inner_pi], self.inner_proof.clone())?;
        inner_proof_acc.collapse(&mut layouter, &curve_chip, &native_gadget)?;
        verifier_chip.constrain_as_public_input(&mut layouter, &inner_proof_acc)?;
        core_decomp_chip.load(&mut layouter)
    }
}

#[derive(Clone, Debug, Serialize, Deserialize)]
struct GadgetCase {
    fix: Fix,
    seed: u64,
    variant: String,
}

const GADGET_K: u32 = 18;

fn gadget_case(c: &GadgetCase) -> CaseResult {
    let i = inner(c.fix);
    let vk = i.vk.vk();
    let (inst, wit) = c.fix.sample(c.seed);
    let proof = midnight_zk_stdlib::prove::<Fix, Poseidon>(&i.inner_srs, &i.pk, &c.fix, &inst, wit, ChaCha20Rng::seed_from_u64(c.seed ^ 3)).expect("inner proof");
    let fixed_bases = verifier::fixed_bases::<S>("inner_vk", vk);
    let off_circuit = |proof: &[u8], inst: &[F]| -> Option<(Accumulator<S>, bool)> {
        let mut t = CircuitTranscript::<Poseidon>::init_from_bytes(proof);
        let dm = vpcore::catch(|| prepare::<F, KZGCommitmentScheme<Bls12>, _>(vk, &[&[C::identity()]], &[&[inst]], &mut t)).ok()?.ok()?;
        let ok = dm.clone().check(&i.inner_srs.verifier_params());
        let mut acc = Accumulator::<S>::from_dual_msm(dm, "inner_vk", &fixed_bases);
        let ok2 = acc.check(&i.inner_srs.s_g2().into(), &fixed_bases);
        assert_eq!(ok, ok2, "accumulator check differs from guard check");
        acc.collapse();
        Some((acc, ok))
    };
    let (acc, ok) = off_circuit(&proof, &inst).ok_or_else(|| Failure::new("gadget:offcircuit-prepare-fails-on-honest-proof", ""))?;
    ensure!(ok, "gadget:honest-inner-proof-rejected-offcircuit", "fix={:?}", c.fix);
    let public = |vk_repr: F, inst: &[F], acc: &Accumulator<S>| -> Vec<F> {
        let mut p = vec![vk_repr];
        p.extend_from_slice(inst);
        p.extend(AssignedAccumulator::as_public_input(acc));
        p
    };
    let circuit = |proof: &[u8], inst: &[F]| GadgetCircuit {
        inner_vk: (vk.get_domain().clone(), vk.cs().clone(), Value::known(vk.transcript_repr())),
        inner_committed_instance: Value::known(C::identity()),
        inner_instances: Value::known(inst.to_vec()),
        n_inner: inst.len(),
        inner_proof: Value::known(proof.to_vec()),
    };
    let run = |proof: &[u8], inst: &[F], public: Vec<F>| -> Result<bool, String> {
        let circ = circuit(proof, inst);
        let r = vpcore::catch(|| MockProver::run(GADGET_K, &circ, vec![vec![], public]).map(|p| p.verify().is_ok()));
        match r {
            Err(p) => Err(format!("panic: {p}")),
            Ok(Err(e)) => Err(format!("synthesis: {e:?}")),
            Ok(Ok(b)) => Ok(b),
        }
    };
    let repr = vk.transcript_repr();
    debug_assert_eq!(AssignedVk::<S>::as_public_input(vk), vec![repr]);
    let honest_public = public(repr, &inst, &acc);
    let mut rng = SplitMix(c.seed ^ 0x6ad);
    match c.variant.as_str() {
        "honest" => {
            let r = run(&proof, &inst, honest_public);
            ensure!(r == Ok(true), "gadget:incomplete", "in-circuit verifier not satisfied with the off-circuit accumulator: {r:?} (fix={:?})", c.fix);
        }
        "wrong-accumulator" => {
            let mut p = honest_public.clone();
            let n_head = 1 + inst.len();
            let pos = n_head + rng.below((p.len() - n_head) as u64) as usize;
            p[pos] += F::ONE;
            let r = run(&proof, &inst, p);
            ensure!(r != Ok(true), "gadget:accepts-wrong-accumulator", "position {pos} of the public inputs changed (fix={:?})", c.fix);
        }
        "wrong-vk-identity" => {
            let mut p = honest_public.clone();
            p[0] += F::ONE;
            let r = run(&proof, &inst, p);
            ensure!(r != Ok(true), "gadget:accepts-wrong-vk-identity", "fix={:?}", c.fix);
        }
        "wrong-inner-input" => {
            // the statement claims another inner input than the one the proof was made for
            let mut inst2 = inst.clone();
            inst2[0] += F::ONE;
            // (a) honest accumulator claimed with the edited input
            let r = run(&proof, &inst2, public(repr, &inst2, &acc));
            ensure!(r != Ok(true), "gadget:accepts-wrong-inner-input", "fix={:?}", c.fix);
            // (b) the accumulator the off-circuit verifier derives for the edited input must not check
            if let Some((acc2, ok2)) = off_circuit(&proof, &inst2) {
                ensure!(!ok2, "offcircuit-accepts-wrong-inner-input", "fix={:?}", c.fix);
                let r = run(&proof, &inst2, public(repr, &inst2, &acc2));
                // the circuit derives the same (invalid) accumulator as the off-circuit verifier
                ensure!(r == Ok(true), "gadget:differs-from-offcircuit-on-invalid-statement", "in-circuit accumulator for an invalid statement differs from the off-circuit one: {r:?}");
            }
        }
        "corrupted-inner-proof" => {
            let mut bad = proof.clone();
            let pos = rng.below(bad.len() as u64) as usize;
            bad[pos] ^= 1 << rng.below(8);
            match off_circuit(&bad, &inst) {
                None => {
                    // off-circuit decoding fails: in-circuit synthesis must fail too or be unsatisfiable
                    let r = run(&bad, &inst, honest_public);
                    ensure!(r != Ok(true), "gadget:accepts-undecodable-inner-proof", "byte {pos}");
                }
                Some((acc_bad, ok_bad)) => {
                    ensure!(!ok_bad, "offcircuit-accepts-corrupted-inner-proof", "byte {pos}");
                    // claiming the honest accumulator must fail
                    let r = run(&bad, &inst, honest_public);
                    ensure!(r != Ok(true), "gadget:accepts-honest-accumulator-for-corrupted-proof", "byte {pos}");
                    // differential: the circuit derives exactly the off-circuit (non-checking) accumulator
                    let r = run(&bad, &inst, public(repr, &inst, &acc_bad));
                    ensure!(r == Ok(true), "gadget:differs-from-offcircuit-on-corrupted-proof", "byte {pos}: {r:?}");
                }
            }
        }
        other => return Err(Failure::new("harness:unknown-variant", other.to_string())),
    }
    Ok(Verdict::nontrivial(format!("{}/{:?}", c.variant, c.fix)))
}

// ---------------------------------------------------------------------------
// (D) batching law of Accumulator::accumulate over synthetic accumulators with a known trapdoor

#[derive(Clone, Debug, Serialize, Deserialize)]
struct BatchCase {
    /// error of accumulator i is errs[i] * D (0 = the accumulator satisfies the invariant)
    errs: Vec<i8>,
    terms: Vec<u8>,
    collapse: bool,
    seed: u64,
}

fn batch_strategy() -> BoxedStrategy<BatchCase> {
    (1usize..=5, any::<u64>(), any::<bool>(), 0u8..6)
        .prop_flat_map(|(n, seed, collapse, shape)| {
            let errs = match shape {
                // all valid
                0 => Just(vec![0i8; n]).boxed(),
                // exactly one invalid
                1 => (0..n, prop_oneof![Just(1i8), Just(-1i8), -3i8..=3]).prop_map(move |(i, e)| { let mut v = vec![0i8; n]; v[i] = if e == 0 { 1 } else { e }; v }).boxed(),
                // two invalid with opposite / proportional errors in a chosen ordered pair of slots
                2 | 3 if n >= 2 => (0..n, 0..n - 1, 1i8..=3, 1i8..=3).prop_map(move |(i, j, a, b)| { let j = if j >= i { j + 1 } else { j }; let mut v = vec![0i8; n]; v[i] = a; v[j] = -b; v }).boxed(),
                // any small vector
                _ => proptest::collection::vec(-3i8..=3, n).boxed(),
            };
            (errs, proptest::collection::vec(1u8..=3, n)).prop_map(move |(errs, terms)| BatchCase { errs, terms, collapse, seed })
        })
        .boxed()
}

fn batch_case(c: &BatchCase) -> CaseResult {
    use group::Curve;
    use midnight_circuits::verifier::Msm;
    let mut rng = ChaCha20Rng::seed_from_u64(c.seed);
    let tau = F::random(&mut rng);
    let d = F::random(&mut rng);
    let g = G1Projective::generator();
    let tau_g2 = (midnight_curves::G2Projective::generator() * tau).to_affine();
    let fe = |e: i8| if e >= 0 { F::from(e as u64) } else { -F::from((-(e as i64)) as u64) };
    // fixed bases (as the commitments of verifying keys are): a common one and some that only
    // one or two of the accumulators refer to, so that the members' key sets differ
    let pool: Vec<String> = ["-G", "vkA_fixed_com_0", "vkA_perm_com_0", "vkB_fixed_com_0", "vkB_fixed_com_1", "vkC_perm_com_0"].iter().map(|s| s.to_string()).collect();
    let betas: Vec<F> = pool.iter().map(|_| F::random(&mut rng)).collect();
    let fixed_bases: std::collections::BTreeMap<String, C> = pool.iter().zip(&betas).map(|(n, b)| (n.clone(), g * b)).collect();
    let with_fixed = c.seed % 3 != 0;
    let mut accs = vec![];
    let mut key_sets = std::collections::BTreeSet::new();
    for (ai, (e, t)) in c.errs.iter().zip(&c.terms).enumerate() {
        // which fixed bases this accumulator refers to
        let mask: u64 = if with_fixed { 1 | (c.seed >> (8 + 6 * ai)) & 0x3f } else { 0 };
        key_sets.insert(mask);
        let mut lhs_fixed = std::collections::BTreeMap::new();
        let mut rhs_fixed = std::collections::BTreeMap::new();
        let mut lhs_fixed_val = F::ZERO;
        let mut rhs_fixed_val = F::ZERO;
        for (l, name) in pool.iter().enumerate() {
            if mask >> l & 1 == 1 {
                let (a, b) = (F::random(&mut rng), F::random(&mut rng));
                lhs_fixed.insert(name.clone(), a);
                rhs_fixed.insert(name.clone(), b);
                lhs_fixed_val += a * betas[l];
                rhs_fixed_val += b * betas[l];
            }
        }
        // lhs = sum s_j B_j ; rhs = tau * lhs + e * D * G, split over t terms
        let t = *t as usize;
        let bs: Vec<F> = (0..t).map(|_| F::random(&mut rng)).collect();
        let ss: Vec<F> = (0..t).map(|_| F::random(&mut rng)).collect();
        let lhs_bases: Vec<C> = bs.iter().map(|b| g * b).collect();
        let total: F = (bs.iter().zip(&ss).map(|(b, s)| *b * s).sum::<F>() + lhs_fixed_val) * tau + fe(*e) * d - rhs_fixed_val;
        let mut rs: Vec<F> = (0..t - 1).map(|_| F::random(&mut rng)).collect();
        let mut rb: Vec<F> = (0..t - 1).map(|_| F::random(&mut rng)).collect();
        let partial: F = rs.iter().zip(&rb).map(|(s, b)| *s * b).sum();
        let last_s = F::random(&mut rng);
        rs.push(last_s);
        rb.push((total - partial) * last_s.invert().unwrap());
        let rhs_bases: Vec<C> = rb.iter().map(|b| g * b).collect();
        let mut acc = Accumulator::<S>::new(Msm::new(&lhs_bases, &ss, &lhs_fixed), Msm::new(&rhs_bases, &rs, &rhs_fixed));
        let ok = acc.check(&tau_g2, &fixed_bases);
        ensure!(ok == (*e == 0), "harness:synthetic-accumulator-not-as-built", "error {e}: check = {ok}");
        if c.collapse {
            acc.collapse();
        }
        accs.push(acc);
    }
    let all_valid = c.errs.iter().all(|e| *e == 0);
    let batch = vpcore::catch(|| Accumulator::<S>::accumulate(&accs)).map_err(|p| Failure::new("accumulate:panic", p))?;
    let mut batch_collapsed = batch.clone();
    batch_collapsed.collapse();
    let got = batch.check(&tau_g2, &fixed_bases);
    ensure!(batch_collapsed.check(&tau_g2, &fixed_bases) == got, "accumulate:collapse-changes-check", "errs {:?}", c.errs);
    let n_bad = c.errs.iter().filter(|e| **e != 0).count();
    if all_valid {
        ensure!(got, "accumulate:valid-batch-rejected", "n = {}", c.errs.len());
    } else {
        let sum: i32 = c.errs.iter().map(|e| *e as i32).sum();
        ensure!(!got, format!("accumulate:batch-of-invalid-accepted:n={}:bad={}", c.errs.len(), n_bad), "errors (multiples of one secret D) {:?} (sum {sum}); the batch passes check although {} accumulators do not", c.errs, n_bad);
    }
    Ok(Verdict::of(c.errs.len() >= 2, if all_valid { "all-valid".to_string() } else { format!("invalid:{}", n_bad.min(3)) })
        .with(format!("n={}", c.errs.len()))
        .with(if c.errs.iter().map(|e| *e as i32).sum::<i32>() == 0 && !all_valid { "errors-sum-to-zero" } else { "errors-other" })
        .with(if !with_fixed { "no-fixed-bases" } else if key_sets.len() >= 2 { "fixed-base-key-sets-differ" } else { "fixed-base-key-sets-equal" }))
}

// ---------------------------------------------------------------------------
// (C') the in-circuit verifier on generated inner circuits (E1 family, one phase): instance
// columns queried at rotations, committed and plain instance columns, lookups, copy constraints

struct GenGadgetCircuit {
    inner_vk: (EvaluationDomain<F>, ConstraintSystem<F>, Value<F>),
    committed: Vec<Value<C>>,
    plain: Vec<Vec<F>>,
    inner_proof: Value<Vec<u8>>,
}

impl Circuit<F> for GenGadgetCircuit {
    type Config = GadgetConfig;
    type FloorPlanner = SimpleFloorPlanner;
    type Params = ();
    fn without_witnesses(&self) -> Self {
        unreachable!()
    }
    fn configure(meta: &mut ConstraintSystem<F>) -> Self::Config {
        GadgetCircuit::configure(meta)
    }
    fn synthesize(&self, config: Self::Config, mut layouter: impl Layouter<F>) -> Result<(), Error> {
        let native_chip = <NativeChip<F> as ComposableChip<F>>::new(&config.0, &());
        let core_decomp_chip = P2RDecompositionChip::new(&config.1, &16);
        let native_gadget = NativeGadget::new(core_decomp_chip.clone(), native_chip.clone());
        let curve_chip = ForeignEccChip::new(&config.2, &native_gadget, &native_gadget);
        let poseidon_chip = PoseidonChip::new(&config.3, &native_chip);
        let verifier_chip = VerifierGadget::<S>::new(&curve_chip, &native_gadget, &poseidon_chip);
        let vk: AssignedVk<S> = verifier_chip.assign_vk_as_public_input(&mut layouter, "inner_vk", &self.inner_vk.0, &self.inner_vk.1, self.inner_vk.2)?;
        let mut committed = vec![];
        for c in &self.committed {
            committed.push(curve_chip.assign(&mut layouter, *c)?);
        }
        let mut plain = vec![];
        for col in &self.plain {
            let vals: Vec<Value<F>> = col.iter().map(|v| Value::known(*v)).collect();
            let a = native_gadget.assign_many(&mut layouter, &vals)?;
            for x in &a {
                native_gadget.constrain_as_public_input(&mut layouter, x)?;
            }
            plain.push(a);
        }
        let plain_refs: Vec<&[_]> = plain.iter().map(|v| &v[..]).collect();
        let mut acc = verifier_chip.prepare(&mut layouter, &vk, &committed, &plain_refs, self.inner_proof.clone())?;
        acc.collapse(&mut layouter, &curve_chip, &native_gadget)?;
        verifier_chip.constrain_as_public_input(&mut layouter, &acc)?;
        core_decomp_chip.load(&mut layouter)
    }
}

#[derive(Clone, Debug, Serialize, Deserialize)]
struct GenGadgetCase {
    knobs: vp_plonk::e1::Knobs,
    wseed: u64,
    n_committed: usize,
}

fn gen_gadget_case(c: &GenGadgetCase) -> CaseResult {
    use vp_plonk::{e1, pv};
    let mut kn = c.knobs.clone();
    kn.phases = 1;
    kn.k_extra = 0;
    kn.ops.truncate(4);
    // the in-circuit verifier supports queries at rotations -1, 0, 1 only (it says so when asked
    // for another one) and expects the inner circuit to query its instance columns
    for g in kn.gates.iter_mut() {
        for cell in g.cells.iter_mut() {
            cell.1 = cell.1.clamp(-1, 1);
        }
        // (a second constraint of a gate writes one row below the first output)
        if let Some(first) = g.cells.first_mut() {
            first.1 = first.1.min(0);
        }
    }
    // a third of the cases: every gate multiplies by a fixed coefficient column queried at the next row
    if c.wseed % 3 == 0 {
        kn.fixed_rot = true;
        for g in kn.gates.iter_mut() {
            g.sel = 3;
        }
    }
    let spec = e1::expand(&kn);
    let max_rot = spec.gates.iter().map(|g| { let (a, b) = g.rot_range(); a.abs().max(b.abs()) }).max().unwrap_or(0);
    if max_rot > 1 {
        return Ok(Verdict::trivial("inner-circuit-uses-unsupported-rotations"));
    }
    if spec.k > 7 {
        return Ok(Verdict::trivial("inner-circuit-too-large"));
    }
    let n_committed = c.n_committed.min(spec.n_instance.saturating_sub(1));
    let mut plan = e1::build_plan(&spec, c.wseed);
    // (the gadget does not take empty instance columns: an unused column gets one free value)
    for col in plan.instances.iter_mut() {
        if col.is_empty() {
            col.push(F::ZERO);
        }
    }
    if pv::mock(&spec, &plan).is_err() {
        return Ok(Verdict::trivial("harness:plan-not-satisfying"));
    }
    let (pk, vk) = pv::keygen(&spec).map_err(|e| Failure::new("harness:keygen-fails", e))?;
    if vk.cs().instance_queries().is_empty() {
        return Ok(Verdict::trivial("inner-circuit-without-instance-queries"));
    }
    let st = pv::statement(&vk, &spec, &[plan.instances.clone()], n_committed);
    let mut t = CircuitTranscript::<Poseidon>::init();
    pv::prove(&pk, &spec, &[plan.clone()], n_committed, c.wseed ^ 0x20, &mut t).map_err(|e| Failure::new("harness:create_proof-fails", e))?;
    let proof = t.finalize();
    // off-circuit
    let fixed_bases = verifier::fixed_bases::<S>("inner_vk", &vk);
    let plain_refs: Vec<&[F]> = st.plain[0].iter().map(|c| &c[..]).collect();
    let mut tr = CircuitTranscript::<Poseidon>::init_from_bytes(&proof);
    let dm = vpcore::catch(|| prepare::<F, KZGCommitmentScheme<Bls12>, _>(&vk, &[&st.committed[0][..]], &[&plain_refs[..]], &mut tr))
        .map_err(|p| Failure::new("harness:offcircuit-prepare-panics", p))?
        .map_err(|e| Failure::new("harness:offcircuit-prepare-fails-on-honest-proof", format!("{e:?}")))?;
    let ok = dm.clone().check(&pv::params(spec.k).verifier_params());
    ensure!(ok, "harness:honest-inner-proof-rejected-offcircuit", "spec = {spec:?}");
    let mut acc = Accumulator::<S>::from_dual_msm(dm, "inner_vk", &fixed_bases);
    acc.collapse();
    let repr = vk.transcript_repr();
    let mut public = vec![repr];
    for col in &st.plain[0] {
        public.extend_from_slice(col);
    }
    public.extend(AssignedAccumulator::as_public_input(&acc));
    let circuit = GenGadgetCircuit {
        inner_vk: (vk.get_domain().clone(), vk.cs().clone(), Value::known(repr)),
        committed: st.committed[0].iter().map(|p| Value::known(*p)).collect(),
        plain: st.plain[0].clone(),
        inner_proof: Value::known(proof.clone()),
    };
    let run = |public: Vec<F>| -> Result<bool, String> {
        match vpcore::catch(|| MockProver::run(GADGET_K, &circuit, vec![vec![], public]).map(|p| p.verify().is_ok())) {
            Err(p) => Err(format!("panic: {p}")),
            Ok(Err(e)) => Err(format!("synthesis: {e:?}")),
            Ok(Ok(b)) => Ok(b),
        }
    };
    let r = run(public.clone());
    let rots: Vec<i32> = spec.gates.iter().flat_map(|g| g.eqs.iter()).filter_map(|e| if let e1::Eqn::Inst { irot, .. } = e { Some(*irot) } else { None }).collect();
    ensure!(
        r == Ok(true),
        format!("gadget:generated-inner-circuit:differs-from-offcircuit:{}", if rots.iter().any(|r| *r != 0) { "instance-rotations" } else { "other" }),
        "in-circuit verifier is not satisfied with the off-circuit accumulator: {r:?}; committed instance columns {n_committed}, instance query rotations {rots:?}; spec = {spec:?}"
    );
    let mut w = public.clone();
    let pos = 1 + (c.wseed as usize) % (w.len() - 1);
    w[pos] += F::ONE;
    let r = run(w);
    ensure!(r != Ok(true), "gadget:generated-inner-circuit:accepts-edited-public-input", "position {pos}");
    let mut v = Verdict::nontrivial(format!("committed:{n_committed}"));
    if rots.iter().any(|r| *r != 0) {
        v = v.with("instance-queried-at-rotation");
    }
    for f in spec.features() {
        v = v.with(f);
    }
    Ok(v)
}

// ---------------------------------------------------------------------------
// (E) accumulators passed through a circuit as witnesses (recursion steps): the witnessed value,
// and the in-circuit accumulation of witnessed values, are the off-circuit ones

#[derive(Clone, Debug)]
struct AccCircuit {
    names: Vec<String>,
    lens: (usize, usize),
    accs: Vec<Value<Accumulator<S>>>,
    /// expose the in-circuit accumulation of the witnessed accumulators instead of the first one
    accumulate: bool,
}

impl Circuit<F> for AccCircuit {
    type Config = GadgetConfig;
    type FloorPlanner = SimpleFloorPlanner;
    type Params = ();
    fn without_witnesses(&self) -> Self {
        unreachable!()
    }
    fn configure(meta: &mut ConstraintSystem<F>) -> Self::Config {
        GadgetCircuit::configure(meta)
    }
    fn synthesize(&self, config: Self::Config, mut layouter: impl Layouter<F>) -> Result<(), Error> {
        let native_chip = <NativeChip<F> as ComposableChip<F>>::new(&config.0, &());
        let core_decomp_chip = P2RDecompositionChip::new(&config.1, &16);
        let native_gadget = NativeGadget::new(core_decomp_chip.clone(), native_chip.clone());
        let curve_chip = ForeignEccChip::new(&config.2, &native_gadget, &native_gadget);
        let poseidon_chip = PoseidonChip::new(&config.3, &native_chip);
        let verifier_chip = VerifierGadget::<S>::new(&curve_chip, &native_gadget, &poseidon_chip);
        let mut assigned = vec![];
        for a in &self.accs {
            assigned.push(AssignedAccumulator::<S>::assign(&mut layouter, &curve_chip, &native_gadget, self.lens.0, self.lens.1, &self.names, &self.names, a.clone())?);
        }
        let out = if self.accumulate {
            let mut acc = AssignedAccumulator::<S>::accumulate(&mut layouter, &verifier_chip, &native_gadget, &poseidon_chip, &assigned)?;
            acc.collapse(&mut layouter, &curve_chip, &native_gadget)?;
            acc
        } else {
            assigned[0].clone()
        };
        verifier_chip.constrain_as_public_input(&mut layouter, &out)?;
        core_decomp_chip.load(&mut layouter)
    }
}

#[derive(Clone, Debug, Serialize, Deserialize)]
struct AccCase {
    n_fixed: usize,
    n_perm: usize,
    terms: (usize, usize),
    n_accs: usize,
    seed: u64,
}

fn acc_case(c: &AccCase) -> CaseResult {
    use midnight_circuits::verifier::Msm;
    let mut rng = ChaCha20Rng::seed_from_u64(c.seed);
    let names = verifier::fixed_base_names::<S>("inner_vk", c.n_fixed, c.n_perm);
    let g = G1Projective::generator();
    let mut mk = |rng: &mut ChaCha20Rng| {
        let mut side = |t: usize| {
            let bases: Vec<C> = (0..t).map(|_| g * F::random(&mut *rng)).collect();
            let scalars: Vec<F> = (0..t).map(|_| F::random(&mut *rng)).collect();
            // distinct scalars per name: a name/value mix-up changes the accumulator
            let fixed: std::collections::BTreeMap<String, F> = names.iter().map(|n| (n.clone(), F::random(&mut *rng))).collect();
            Msm::<S>::new(&bases, &scalars, &fixed)
        };
        Accumulator::<S>::new(side(c.terms.0), side(c.terms.1))
    };
    let accs: Vec<Accumulator<S>> = (0..c.n_accs).map(|_| mk(&mut rng)).collect();
    let accumulate = c.n_accs >= 2;
    let expected = if accumulate {
        let mut a = Accumulator::<S>::accumulate(&accs);
        a.collapse();
        a
    } else {
        accs[0].clone()
    };
    let public = AssignedAccumulator::<S>::as_public_input(&expected);
    let circuit = AccCircuit { names: names.clone(), lens: c.terms, accs: accs.iter().map(|a| Value::known(a.clone())).collect(), accumulate };
    let run = |public: Vec<F>| -> Result<bool, String> {
        match vpcore::catch(|| MockProver::run(17, &circuit, vec![vec![], public]).map(|p| p.verify().is_ok())) {
            Err(p) => Err(format!("panic: {p}")),
            Ok(Err(e)) => Err(format!("synthesis: {e:?}")),
            Ok(Ok(b)) => Ok(b),
        }
    };
    let what = if accumulate { "accumulate" } else { "assign" };
    let r = run(public.clone());
    ensure!(
        r == Ok(true),
        format!("witnessed-accumulator:{what}:differs-from-offcircuit"),
        "{} fixed and {} permutation commitments, {:?} terms, {} accumulator(s): the circuit is not satisfied with the public inputs of the off-circuit value: {r:?}",
        c.n_fixed,
        c.n_perm,
        c.terms,
        c.n_accs
    );
    // another accumulator of the same shape, and single positions, must be refused
    let other = AssignedAccumulator::<S>::as_public_input(&mk(&mut rng));
    if !accumulate && other != public {
        let r = run(other);
        ensure!(r != Ok(true), format!("witnessed-accumulator:{what}:accepts-other-value"), "n_fixed = {}, n_perm = {}", c.n_fixed, c.n_perm);
    }
    let mut srng = SplitMix(c.seed ^ 0xacc);
    for _ in 0..2 {
        let mut w = public.clone();
        let pos = srng.below(w.len() as u64) as usize;
        w[pos] += F::ONE;
        let r = run(w);
        ensure!(r != Ok(true), format!("witnessed-accumulator:{what}:accepts-edited-position"), "position {pos} of {}", public.len());
    }
    let sorted_differs = {
        let mut s = names.clone();
        s.sort();
        s != names
    };
    Ok(Verdict::nontrivial(what).with(if sorted_differs { "canonical-name-order-differs-from-sorted" } else { "name-orders-coincide" }).with(format!("names:{}", names.len() / 8 * 8)))
}

fn main() {
    vpcore::main("C20", "fault_enumeration", (3600, 21600), |p| {
        p.sub(
            "accumulate.batch",
            "Accumulator::accumulate over 1..5 synthetic accumulators with a known trapdoor (1..3 variable terms a side, fixed-base scalars over key sets that differ between members in two thirds of the cases, optionally collapsed) whose errors are small integer multiples of one secret: the batch passes check iff every accumulator does (single errors, cancelling / proportional pairs in every ordered pair of slots, arbitrary small vectors); non-trivial = two or more accumulators",
            p.tier.pick(1500, 40000),
            8,
            batch_strategy,
            batch_case,
        );
        {
            let mut rng = SplitMix(p.seed ^ 0xacc20);
            let mut items = vec![];
            // few and many commitments (canonical order = numeric, which differs from the sorted
            // order from 11 commitments on), one or several witnessed accumulators
            for (n_fixed, n_perm) in if p.quick() { vec![(3usize, 2usize), (12, 4), (5, 13)] } else { vec![(1, 1), (3, 2), (10, 10), (11, 3), (12, 4), (5, 13), (25, 12), (101, 11)] } {
                for n_accs in if p.quick() { vec![1usize, 2] } else { vec![1, 2, 3] } {
                    items.push(AccCase { n_fixed, n_perm, terms: (1 + rng.below(2) as usize, 1 + rng.below(2) as usize), n_accs, seed: rng.next_u64() });
                }
            }
            p.enumerate(
                "accumulator.witnessed",
                "synthetic accumulators (1..2 variable terms a side, one fixed-base scalar per canonical name of a key with few or many fixed / permutation commitments, all scalars distinct) witnessed with AssignedAccumulator::assign and exposed, or witnessed, accumulated in-circuit, collapsed and exposed: the circuit is satisfied with the public inputs of the off-circuit value (resp. of Accumulator::accumulate) and with nothing else (another accumulator, edited positions); every case non-trivial",
                items,
                6,
                false,
                acc_case,
            );
        }
        p.sub_cfg(
            "verifier-gadget.generated",
            "VerifierGadget<BlstrsEmulation> at k=18 under MockProver on honest Poseidon-transcript proofs of generated inner circuits (E1 family restricted to one phase and k <= 7: instance columns queried at rotations -1..1, committed and plain instance columns, lookups, copy constraints): satisfied with the off-circuit accumulator, not with an edited public input; every case non-trivial",
            p.tier.pick(12, 90),
            4,
            2,
            || (vp_plonk::e1::knobs_strategy(4), any::<u64>(), 0usize..=1).prop_map(|(knobs, wseed, n_committed)| GenGadgetCase { knobs, wseed, n_committed }).boxed(),
            gen_gadget_case,
        );
        p.assume("inner circuits are the standard-library fixture relations with exactly two public inputs (the aggregator's documented limitation); one SRS secret");
        p.sub(
            "ipa",
            "inner-product argument sizes 2^0..2^6 with random scalars (optionally half zero) and bases (some identities): complete; each base, each claimed value and each proof element altered once (other valid / identity / all-0xFF / +1 / 0 / truncation / appended bytes / bit flips) is rejected; non-trivial = size >= 2",
            p.tier.pick(48, 600),
            16,
            || (0u32..=6, any::<u64>(), any::<bool>()).prop_map(|(log_n, seed, zero_scalars)| IpaCase { log_n, seed, zero_scalars }).boxed(),
            ipa_case,
        );
        let mut rng = SplitMix(p.seed ^ 0xc20);
        let mut agg_items = vec![];
        let fixes: Vec<Fix> = if p.quick() { vec![Fix::MulRange] } else { vec![Fix::MulRange, Fix::Affine3] };
        for fix in &fixes {
            for n in if p.quick() { vec![1usize, 2] } else { vec![1, 2, 3] } {
                for _ in 0..p.tier.pick(1, 4) {
                    agg_items.push(AggCase { fix: *fix, n, seed: rng.next_u64(), bitflips: p.tier.pick(64, 2000) });
                }
            }
        }
        p.enumerate(
            "aggregator",
            "LightAggregator<N> over fixture relations: honest aggregate verifies; every element of the aggregated proof (accumulator bases/scalars, counts, committed scalars, evaluated rhs, PLONK proof, IPA rounds) replaced once, truncations, appended bytes, sampled bit flips, edited/swapped inner instances must be rejected without panic; aggregation with an invalid inner proof or wrong inner instance must fail or be rejected; every case non-trivial",
            agg_items,
            2,
            false,
            |c| match c.n {
                1 => agg1(c),
                2 => agg2(c),
                _ => agg3(c),
            },
        );
        let mut items = vec![];
        let variants = ["honest", "wrong-accumulator", "wrong-vk-identity", "wrong-inner-input", "corrupted-inner-proof"];
        for fix in &fixes {
            for v in variants {
                for _ in 0..p.tier.pick(1, 6) {
                    items.push(GadgetCase { fix: *fix, seed: rng.next_u64(), variant: v.to_string() });
                }
            }
        }
        p.enumerate(
            "verifier-gadget",
            "VerifierGadget<BlstrsEmulation> at k=18 under MockProver: satisfied with the off-circuit accumulator; unsatisfied with any other claimed accumulator limb, vk identity or inner input; corrupted inner proofs: fail, or derive exactly the off-circuit accumulator which does not pass check; every case non-trivial",
            items,
            p.tier.pick(3, 4),
            false,
            gadget_case,
        );
    });
}
