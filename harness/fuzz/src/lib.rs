//! Shared code of the C16 libFuzzer targets: fixtures, panic allow-list driven
//! by /verif/known_findings.json, oracles.
//!
//! A violation inside a target ends in `std::process::abort()` after printing
//! `C16-FUZZ-FAIL <signature> | <detail>` on stderr; libFuzzer then writes the
//! crash artifact, which `c16 thorough` converts into a replay + failure.
//!
//! Known panic sites (entries with `"status": "known"`, property C16, in
//! /verif/known_findings.json, plus an optional extra file named by
//! `VP_FUZZ_ALLOW`) are tolerated: the input is dropped. `VP_FUZZ_STRICT=1`
//! disables the allow-list (replay of an artifact).

use std::cell::RefCell;
use std::panic::{self, AssertUnwindSafe};
use std::sync::{Once, OnceLock};

use ff::PrimeField;
use midnight_curves::{Bls12, G1Affine, G1Projective};
use midnight_proofs::{
    circuit::{Layouter, Value},
    plonk::Error,
    poly::kzg::params::ParamsVerifierKZG,
    utils::SerdeFormat,
};
use midnight_zk_stdlib::{MidnightVK, Relation, ZkStdLib};

pub type F = midnight_curves::Fq;
pub type Blake = blake2b_simd::State;
pub type Poseidon = midnight_circuits::hash::poseidon::PoseidonState<F>;

pub const FIXTURE_DIR: &str = "/verif/corpus/_fixtures";

/// Stand-in relation: only `format_instance` is used by `verify`.
#[derive(Clone, Debug)]
pub struct Raw;

impl Relation for Raw {
    type Instance = Vec<F>;
    type Witness = ();
    fn format_instance(i: &Vec<F>) -> Result<Vec<F>, Error> {
        Ok(i.clone())
    }
    fn circuit(&self, _: &ZkStdLib, _: &mut impl Layouter<F>, _: Value<Vec<F>>, _: Value<()>) -> Result<(), Error> {
        Ok(())
    }
    fn write_relation<W: std::io::Write>(&self, _: &mut W) -> std::io::Result<()> {
        Ok(())
    }
    fn read_relation<R: std::io::Read>(_: &mut R) -> std::io::Result<Self> {
        Ok(Raw)
    }
}

pub fn fixture_vec(name: &str) -> Vec<u8> {
    std::fs::read(format!("{FIXTURE_DIR}/{name}")).unwrap_or_else(|e| panic!("fixture {name}: {e} (run `VP_C16_EXPORT=1 c16 quick` once)"))
}

pub fn fixture(name: &str) -> &'static [u8] {
    Box::leak(fixture_vec(name).into_boxed_slice())
}

pub struct Fixture {
    pub vk_p: &'static [u8],
    pub vk_r: &'static [u8],
    pub vk: MidnightVK,
    pub inst: Vec<F>,
    pub proof_blake: &'static [u8],
    pub proof_poseidon: &'static [u8],
}

pub struct Fixtures {
    pub fix: Vec<Fixture>,
    pub vp: ParamsVerifierKZG<Bls12>,
}

pub fn fixtures() -> &'static Fixtures {
    static C: OnceLock<Fixtures> = OnceLock::new();
    C.get_or_init(|| {
        let fix = (0..3)
            .map(|i| {
                let vk_r = fixture(&format!("vk_{i}_R"));
                let inst = fixture_vec(&format!("inst_{i}"))
                    .chunks(32)
                    .map(|c| {
                        let mut r = <F as PrimeField>::Repr::default();
                        r.as_mut().copy_from_slice(c);
                        Option::from(F::from_repr(r)).expect("fixture instance")
                    })
                    .collect();
                Fixture {
                    vk_p: fixture(&format!("vk_{i}_P")),
                    vk_r,
                    vk: MidnightVK::read(&mut &vk_r[..], SerdeFormat::RawBytes).expect("fixture vk"),
                    inst,
                    proof_blake: fixture(&format!("proof_{i}_blake")),
                    proof_poseidon: fixture(&format!("proof_{i}_poseidon")),
                }
            })
            .collect();
        let vp = ParamsVerifierKZG::read(&mut &fixture_vec("vparams_R")[..], SerdeFormat::RawBytes).expect("fixture params");
        Fixtures { fix, vp }
    })
}

// ---------------------------------------------------------------------------
// panic capture and allow-list

thread_local! {
    static LAST: RefCell<Option<String>> = const { RefCell::new(None) };
    static QUIET: RefCell<bool> = const { RefCell::new(false) };
}

/// Replaces libfuzzer-sys's abort-on-panic hook by one that records the
/// location; panics outside `guard` still abort.
pub fn init() {
    static ONCE: Once = Once::new();
    ONCE.call_once(|| {
        panic::set_hook(Box::new(|info| {
            let loc = info.location().map(|l| format!("{}:{}", l.file(), l.line())).unwrap_or_else(|| "?".into());
            let msg = if let Some(s) = info.payload().downcast_ref::<&str>() {
                s.to_string()
            } else if let Some(s) = info.payload().downcast_ref::<String>() {
                s.clone()
            } else {
                "<non-string panic>".into()
            };
            let text = format!("{loc}: {msg}").replace("/repo/", "");
            if QUIET.with(|q| *q.borrow()) {
                LAST.with(|p| *p.borrow_mut() = Some(text));
            } else {
                eprintln!("C16-FUZZ-FAIL panic-outside-guard | {text}");
                std::process::abort();
            }
        }));
        let _ = allow_list();
    });
}

fn allow_list() -> &'static Vec<String> {
    static C: OnceLock<Vec<String>> = OnceLock::new();
    C.get_or_init(|| {
        let mut v = vec![];
        if std::env::var("VP_FUZZ_STRICT").map(|s| s == "1").unwrap_or(false) {
            return v;
        }
        let mut files = vec!["/verif/known_findings.json".to_string()];
        if let Ok(extra) = std::env::var("VP_FUZZ_ALLOW") {
            files.push(extra);
        }
        for f in files {
            let Ok(text) = std::fs::read_to_string(&f) else { continue };
            let Ok(j) = serde_json::from_str::<serde_json::Value>(&text) else { continue };
            for e in j["findings"].as_array().cloned().unwrap_or_default() {
                if e["status"] == "known" && e["property"] == "C16" {
                    if let Some(s) = e["signature"].as_str() {
                        v.push(s.trim_end_matches('*').to_string());
                    }
                }
            }
        }
        v
    })
}

/// Is a failure signature (as the deterministic check `c16` would print it)
/// covered by a known finding? Signatures are compared without the entry point
/// (the site `file:line` identifies the defect).
pub fn tolerated(sig: &str) -> bool {
    let site = |s: &str| -> String {
        // "panic:<entry>:<file>.rs:<line>: msg" -> "<file>.rs:<line>"
        match s.find(".rs:") {
            Some(i) => {
                let start = s[..i].rfind(':').map(|j| j + 1).unwrap_or(0);
                let digits: String = s[i + 4..].chars().take_while(|c| c.is_ascii_digit()).collect();
                format!("{}.rs:{digits}", &s[start..i])
            }
            None => String::new(),
        }
    };
    allow_list().iter().any(|k| k == sig || sig.starts_with(k.as_str()) || (site(k) == site(sig) && !site(sig).is_empty()))
}

pub fn fail(sig: &str, detail: &str) -> ! {
    eprintln!("C16-FUZZ-FAIL {sig} | {detail}");
    std::process::abort()
}

fn panic_sig(entry: &str, p: &str) -> String {
    if p.contains("proofs/src/dev/cost_model.rs") {
        return "panic:cost-model-unwrap".into();
    }
    let mut q = p.to_string();
    if let Some(i) = q.find("/.cargo/registry/src/") {
        let rest = &q[i + "/.cargo/registry/src/".len()..];
        if let Some(j) = rest.find('/') {
            q = rest[j + 1..].to_string();
        }
    }
    let (loc, msg) = match q.find(": ") {
        Some(i) => (q[..i].to_string(), q[i..].to_string()),
        None => (q.clone(), String::new()),
    };
    let mut out = format!("panic:{entry}:{loc}");
    let mut prev = false;
    for ch in msg.chars().take(200) {
        if ch.is_ascii_digit() {
            if !prev {
                out.push('#');
            }
            prev = true;
        } else {
            prev = false;
            out.push(ch);
        }
    }
    out.chars().take(200).collect()
}

/// Runs `f`; a panic is a failure unless its site is a known finding, in which
/// case `None` is returned (drop the input).
pub fn guard<T>(entry: &str, f: impl FnOnce() -> T) -> Option<T> {
    init();
    let prev = QUIET.with(|q| q.replace(true));
    LAST.with(|p| *p.borrow_mut() = None);
    let r = panic::catch_unwind(AssertUnwindSafe(f));
    QUIET.with(|q| *q.borrow_mut() = prev);
    match r {
        Ok(v) => Some(v),
        Err(_) => {
            let p = LAST.with(|p| p.borrow_mut().take()).unwrap_or_else(|| "?: <panic on another thread>".into());
            let sig = panic_sig(entry, &p);
            if tolerated(&sig) {
                None
            } else {
                fail(&sig, &p)
            }
        }
    }
}

// ---------------------------------------------------------------------------
// oracles

pub fn fmt_of(b: u8) -> SerdeFormat {
    if b & 1 == 0 {
        SerdeFormat::Processed
    } else {
        SerdeFormat::RawBytes
    }
}

/// Decodes a key; checks canonicity and the point predicates when it decodes.
pub fn vk_read_checked(input: &[u8], format: SerdeFormat) -> Option<MidnightVK> {
    let (res, rem) = guard("MidnightVK::read", || {
        let mut r = input;
        let res = MidnightVK::read(&mut r, format);
        (res, r.len())
    })?;
    let vk = res.ok()?;
    let consumed = input.len() - rem;
    let mut w = vec![];
    guard("MidnightVK::write", || vk.write(&mut w, format))?.ok()?;
    if w[..] != input[..consumed] {
        fail(&format!("noncanonical:MidnightVK::read:{format:?}"), "decoded key re-encodes differently");
    }
    let compressed = matches!(format, SerdeFormat::Processed);
    for p in vk.vk().fixed_commitments().iter().chain(vk.vk().permutation().commitments().iter()) {
        let a = G1Affine::from(*p);
        if !bool::from(midnight_curves::CurveAffine::is_on_curve(&a)) || (compressed && !bool::from(a.is_torsion_free())) {
            fail(&format!("invalid-point-accepted:MidnightVK::read:{format:?}"), &format!("{a:?}"));
        }
    }
    Some(vk)
}

pub fn verify_blake(entry: &str, vk: &MidnightVK, inst: &Vec<F>, proof: &[u8]) -> Option<bool> {
    let vp = &fixtures().vp;
    guard(entry, || midnight_zk_stdlib::verify::<Raw, Blake>(vp, vk, inst, None, proof).is_ok())
}

pub fn verify_poseidon(entry: &str, vk: &MidnightVK, inst: &Vec<F>, proof: &[u8]) -> Option<bool> {
    let vp = &fixtures().vp;
    guard(entry, || midnight_zk_stdlib::verify::<Raw, Poseidon>(vp, vk, inst, None, proof).is_ok())
}

pub fn batch_blake(entry: &str, vk: &MidnightVK, inst: &Vec<F>, proof: &[u8]) -> Option<bool> {
    let vp = &fixtures().vp;
    guard(entry, || midnight_zk_stdlib::batch_verify::<Blake>(vp, &[vk.clone()], &[inst.clone()], &[proof.to_vec()]).is_ok())
}

/// The judged part of an IR program that loaded: `used_chips` (C16 judges the
/// decoding of verifier-facing objects; compiling a program is judged by C18,
/// and it can abort, which a libFuzzer target cannot survive).
pub fn zkir_followups(rel: &midnight_zkir::ZkirRelation) {
    guard("ZkirRelation::used_chips", || rel.used_chips());
}

pub fn _unused(_: G1Projective) {}
