#!/usr/bin/env python3
"""Regenerates /verif/MANIFEST.json from the table below (claimed checks) and
properties.jsonl (everything else goes to not_applicable with a reason)."""
import json, subprocess
props=[json.loads(l) for l in open('/verif/properties.jsonl')]
GEN="generated-input search (property-based testing with proptest, fixed seeds from VERIF_SEED; shrunk failures become replay files)"
claimed={
 "C01": dict(level="exploration", design="DESIGN.md §3 E1, §4 C01",
   technique="property-based testing: grammar-generated constraint systems + constructed satisfying witnesses, prove/verify round trip with MockProver as generator guard",
   text="Generated-input search over the circuit family E1 (random gates with rotations, simple/complex/additive selectors, fixed-coefficient gates, table and lookup_any lookups, copies to/from instance and constants, 1-3 phases, unblinded columns) x honest witnesses x 1-4 proofs x 0-2 committed columns x both transcript hashes: every honest proof must verify. Finds completeness bugs that need a particular shape (it found the multi-proof/committed transcript-order bug and the rotated-first-query opening bug); does not prove completeness for all circuits.",
   note="Trusted: the harness's witness construction (guarded by MockProver on every case), SRS from unsafe_setup with fixed seed. Standard-library relations are covered through C09/C15/C17 fixtures, not here."),
 "C02": dict(level="fault_enumeration", design="DESIGN.md §3 E1, §4 C02",
   technique="property-based fault injection: one faulted advice/instance cell per run, differential verdict real verifier vs MockProver vs harness constraint evaluator",
   text="For generated circuits and honest assignments, single-cell faults (advice assignment or instance cell; +1, zero, neighbour's value, random) are injected before proving. Required: verdict of prover+verifier equals MockProver's verdict on every case; faults that violate a gate, lookup, copy, constant, instance or additive-selector constraint (by the harness's own evaluation) are rejected; faults on unused cells are accepted. Bounded adversary: one cell per run.",
   note="Trusted: harness evaluator Plan::violated (independent of the library); blinding rows cannot be faulted through the public API."),
 "C03": dict(level="fault_enumeration", design="DESIGN.md §4 C03",
   technique="property-based mutation testing of proof bytes / statement / key with a recording transcript for element-level layout",
   text="Every honest proof of the generated family is first verified (positive control), then hundreds of mutations per proof - each group element and scalar replaced (other valid, identity, off-curve, non-subgroup, flag variants, non-canonical), truncations at and inside every element, appended bytes, bit flips (sampled; all bits in thorough), public-input edits, committed-instance edits, malformed outer shapes, other transcript hash, wrong verifying keys - must all return an error, never accept or panic.",
   note="Trusted: none beyond the positive control; acceptance of any mutated input is a violation."),
 "C10": dict(level="exploration", design="DESIGN.md §4 C10",
   technique="property-based testing (proptest): generated operands vs big-integer reference model; enumerated constant equations",
   text="Generated-input search: every exported prime field (BLS12-381 Fq/Fp, Jubjub Fr, secp256k1 Fp/Fq, Curve25519 Fp/Scalar, BN254 Fq/Fr) and both extension towers are driven with boundary-class and uniform operands through every arithmetic, in-place, batched, root, conversion and decoding entry point and compared with an independent num-bigint model of Z_p and of the tower; constants are checked against their defining equations. It finds wrong results on the classes generated; it cannot prove absence for all inputs.",
   note="Trusted: num-bigint arithmetic, the harness model (vp-alg/src/model.rs), to_repr/from_repr as the bridge between library values and integers (cross-checked by from_u128 / from_str_vartime / decoders)."),
 "C17": dict(level="exploration", design="DESIGN.md §4 C17",
   technique="property-based testing: round trips and differential runs across rayon pool sizes",
   text="Generated circuits: key generation repeated under thread pools of 1-16 threads and with/without a witness must give byte-identical keys; vk/pk written and re-read in every format (and the compatible raw pair) must serialise identically, keep the transcript identity and prove/verify interchangeably with the originals; KZG parameters round-trip, and downsize(k') equals a fresh setup for k' from the same secret for all k' <= k.",
   note="Schedules are explored only via pool sizes; prover output is randomised, so interchangeability is judged by verification, not by proof bytes."),
}
import os
extra=os.path.join(os.path.dirname(__file__),'claims_extra.json')
if os.path.exists(extra):
    claimed.update(json.load(open(extra)))
checks=[]
for pid in sorted(claimed):
    c=claimed[pid]
    checks.append({
      "property_id":pid,
      "quick_cmd":f"./check {pid} quick",
      "thorough_cmd":f"./check {pid} thorough",
      "evidence_file":f"/verif/evidence/{pid}.json",
      "replay_cmd_template":f"./check {pid} --replay {{path}}",
      "engine":"vp-harness",
      "level_claimed":{"category":c["level"],"text":c["text"],"design_ref":c["design"]},
      "level_note":c["note"],
      "technique":c["technique"],
    })
na=[{"property_id":p["id"],"reason":c} for p in props if p["id"] not in claimed for c in ["check not built yet (build in progress; see DESIGN.md §10)"]]
hooks=subprocess.run(["git","-C","/repo","log","--format=%h","--grep=^verif-hooks"],capture_output=True,text=True).stdout.split()
m={
 "version":1,
 "setup_cmd":"./setup.sh",
 "hooks":{"guard":"cargo feature `verif-hooks` (midnight-proofs, midnight-circuits)","enable":"the harness crates depend on /repo crates by path with features = [\"verif-hooks\"]; ./check rebuilds them from the working tree","baseline_off_cmd":"cd /repo && cargo test --workspace --no-fail-fast --offline","source_commits":hooks,"add_only":True},
 "engines":[{"name":"vp-harness","path":"/verif/harness","serves_properties":sorted(claimed),"kind_free_text":"Rust property-based testing harness (proptest TestRunner with fixed seeds derived from VERIF_SEED, enumeration runner, replay files, known-findings matcher); crates vpcore (runner/evidence), vp-alg (algebra models), vp-plonk (generated circuits E1), vp-circ (gadget catalogue, fault engines)"}],
 "checks":checks,
 "not_applicable":na,
 "notes":"All checks are generated-input search (property-based testing / fuzzing). Exit 0 held, 1 violation, 2 inconclusive (build failure, watchdog)."
}
json.dump(m,open('/verif/MANIFEST.json','w'),indent=1)
print("claimed:",sorted(claimed))
