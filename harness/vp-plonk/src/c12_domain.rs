//! C12, part 2 — evaluation-domain algebra and polynomial utilities of
//! `midnight_proofs` against plain polynomial arithmetic.
//!
//! Covered (everything publicly reachable): `EvaluationDomain::{new,
//! coeff_to_lagrange, lagrange_to_coeff, coeff_to_extended, extended_to_coeff,
//! extended_to_lagrange, divide_by_vanishing_poly, rotate_omega, l_i_range,
//! constant_*/empty_*/…_from_vec, accessors}`, `Polynomial::{rotate, +, -, *}`,
//! `PolynomialRepresentation::{coeff_to_self, g_coset, omega, k, len}`,
//! `utils::arithmetic::{eval_polynomial, kate_division, lagrange_interpolate,
//! compute_inner_product, parallelize, g_to_lagrange}`,
//! `KZGCommitmentScheme::{commit, commit_lagrange}`, `ParamsKZG::{unsafe_setup,
//! from_parts, downsize, g_lagrange, max_k}`, `msm_specific`, `MSMKZG`,
//! `Rational`.
//!
//! Oracles: Horner evaluation, schoolbook multiplication, the product formula
//! of the Lagrange basis, naive sums of scalar*base, field arithmetic with
//! inv0 for `Rational`. Library calls run inside a rayon pool of the case's
//! thread count; oracles run outside.
//!
//! Not reachable from outside the crate (`pub(crate)`): `batch_invert_rational`,
//! `Polynomial::<Rational<_>,_>::invert`, `powers`, `inner_product`,
//! `evals_inner_product`, `msm_inner_product`.

use std::sync::OnceLock;

use ff::{Field, PrimeField, WithSmallOrderMulGroup};
use group::Group;
use midnight_curves::{pairing::MultiMillerLoop, CurveAffine, CurveExt};
use midnight_proofs::{
    poly::{
        commitment::{Params, PolynomialCommitmentScheme},
        kzg::{
            msm::{msm_specific, MSMKZG},
            params::ParamsKZG,
            KZGCommitmentScheme,
        },
        Coeff, CommitmentLabel, EvaluationDomain, ExtendedLagrangeCoeff, LagrangeCoeff,
        PolynomialRepresentation, Rotation,
    },
    utils::{
        arithmetic::{
            compute_inner_product, eval_polynomial, g_to_lagrange, kate_division, lagrange_interpolate, parallelize, MSM,
        },
        helpers::ProcessedSerdeObject,
        rational::Rational,
    },
};
use proptest::prelude::*;
use rand_chacha::ChaCha20Rng;
use rand_core::SeedableRng;
use rayon::prelude::*;
use serde::{Deserialize, Serialize};
use vp_alg::c12_msm::{from_limbs, in_pool_catch, random_scalar, POOL_SIZES};
use vpcore::{ensure, CaseResult, Failure, Prop, SplitMix, Verdict};

fn horner<F: Field>(a: &[F], x: F) -> F {
    a.iter().rev().fold(F::ZERO, |acc, c| acc * x + c)
}

fn powers<F: Field>(w: F, n: usize) -> Vec<F> {
    let mut v = Vec::with_capacity(n);
    let mut x = F::ONE;
    for _ in 0..n {
        v.push(x);
        x *= w;
    }
    v
}

fn panic_failure(msg: String) -> Failure {
    Failure::new(format!("panic:{}", vpcore::panic_signature(&msg)), format!("unexpected panic: {msg}"))
}

fn threads_strategy() -> impl Strategy<Value = usize> {
    prop::sample::select(POOL_SIZES.to_vec())
}

const POLY_CLASSES: [&str; 6] = ["random-full-degree", "zero", "constant", "top-only", "sparse", "low-degree"];

fn poly_input<F: PrimeField>(n: usize, class: u8, seed: u64) -> Vec<F> {
    let mut rng = SplitMix(seed);
    let nz = |rng: &mut SplitMix| loop {
        let x: F = random_scalar(rng);
        if !bool::from(x.is_zero()) {
            return x;
        }
    };
    match class % 6 {
        0 => {
            let mut v: Vec<F> = (0..n).map(|_| random_scalar(&mut rng)).collect();
            if n > 0 {
                v[n - 1] = nz(&mut rng);
            }
            v
        }
        1 => vec![F::ZERO; n],
        2 => {
            let mut v = vec![F::ZERO; n];
            if n > 0 {
                v[0] = nz(&mut rng);
            }
            v
        }
        3 => {
            let mut v = vec![F::ZERO; n];
            if n > 0 {
                v[n - 1] = nz(&mut rng);
            }
            v
        }
        4 => (0..n)
            .map(|_| if rng.below(4) == 0 { random_scalar(&mut rng) } else { F::ZERO })
            .collect(),
        _ => {
            let deg = rng.below(n as u64 + 1) as usize;
            (0..n).map(|i| if i < deg { random_scalar(&mut rng) } else { F::ZERO }).collect()
        }
    }
}

fn expected_extended_k(k: u32, j: u32) -> u32 {
    let n = 1u64 << k;
    let mut ek = k;
    while (1u64 << ek) < n * (j as u64 - 1) {
        ek += 1;
    }
    ek
}

// ---------------------------------------------------------------------------
// domain.conversions

#[derive(Clone, Debug, Serialize, Deserialize)]
struct DomCase {
    k: u32,
    j: u32,
    threads: usize,
    class: u8,
    seed: u64,
}

fn dom_strategy(max_k: u32) -> BoxedStrategy<DomCase> {
    (1u32..=max_k, 1u32..=9, threads_strategy(), 0u8..6, any::<u64>())
        .prop_map(|(k, j, threads, class, seed)| DomCase { k, j, threads, class, seed })
        .boxed()
}

type ConvOut<F> = (
    (u32, u32, usize, usize, F, F, F, F),
    Vec<F>,
    Vec<F>,
    Vec<F>,
    Vec<F>,
    Vec<F>,
    Vec<Vec<F>>,
);

fn conv_check<F: WithSmallOrderMulGroup<3>>(fname: &str, case: &DomCase, full: bool) -> CaseResult {
    let (k, j, t) = (case.k, case.j, case.threads);
    let n = 1usize << k;
    let a: Vec<F> = poly_input(n, case.class, case.seed);
    let mut rng = SplitMix(case.seed ^ 0xABCD_EF01);
    let c: F = random_scalar(&mut rng);
    let b: Vec<F> = (0..n).map(|_| random_scalar(&mut rng)).collect();
    let ctx = || format!("{fname} k={k} j={j} threads={t} poly={}", POLY_CLASSES[case.class as usize % 6]);

    let out: ConvOut<F> = in_pool_catch(t, || {
        let d = EvaluationDomain::<F>::new(j, k);
        let pa = d.coeff_from_vec(a.clone());
        let pb = d.coeff_from_vec(b.clone());
        let l = d.coeff_to_lagrange(pa.clone());
        let back = d.lagrange_to_coeff(l.clone());
        let e = d.coeff_to_extended(pa.clone());
        let e2c = d.extended_to_coeff(e.clone());
        let e2l = d.extended_to_lagrange(e.clone());
        let misc: Vec<Vec<F>> = vec![
            /* 0 */ d.extended_to_coeff(d.constant_extended(c)),
            /* 1 */ d.lagrange_to_coeff(d.constant_lagrange(c)).to_vec(),
            /* 2 */ d.empty_coeff().to_vec(),
            /* 3 */ d.empty_lagrange().to_vec(),
            /* 4 */ d.empty_extended().to_vec(),
            /* 5 */ (pa.clone() + &pb).to_vec(),
            /* 6 */ (pa.clone() + pb.clone()).to_vec(),
            /* 7 */ (pa.clone() - &pb).to_vec(),
            /* 8 */ (pa.clone() * c).to_vec(),
            /* 9 */ (&pa - c).to_vec(),
            /* 10 */ (l.clone() * c).to_vec(),
            /* 11 */ (e.clone() * c).to_vec(),
            /* 12 */ (pa.clone() * F::ZERO).to_vec(),
            /* 13 */ (pa.clone() * F::ONE).to_vec(),
            /* 14 */ <Coeff as PolynomialRepresentation>::coeff_to_self(&d, pa.clone()).to_vec(),
            /* 15 */ <LagrangeCoeff as PolynomialRepresentation>::coeff_to_self(&d, pa.clone()).to_vec(),
            /* 16 */ <ExtendedLagrangeCoeff as PolynomialRepresentation>::coeff_to_self(&d, pa.clone()).to_vec(),
            /* 17 */ d.lagrange_from_vec(b.clone()).to_vec(),
            /* 18 */ d.empty_lagrange_rational().iter().map(|r| r.evaluate()).collect(),
            /* 19 */
            vec![
                <Coeff as PolynomialRepresentation>::omega(&d),
                <LagrangeCoeff as PolynomialRepresentation>::omega(&d),
                <ExtendedLagrangeCoeff as PolynomialRepresentation>::omega(&d),
                <Coeff as PolynomialRepresentation>::g_coset(&d),
                <LagrangeCoeff as PolynomialRepresentation>::g_coset(&d),
                F::from(<Coeff as PolynomialRepresentation>::len(&d) as u64),
                F::from(<LagrangeCoeff as PolynomialRepresentation>::len(&d) as u64),
                F::from(<ExtendedLagrangeCoeff as PolynomialRepresentation>::len(&d) as u64),
                F::from(<Coeff as PolynomialRepresentation>::k(&d) as u64),
                F::from(<ExtendedLagrangeCoeff as PolynomialRepresentation>::k(&d) as u64),
            ],
        ];
        (
            (
                d.k(),
                d.extended_k(),
                d.extended_len(),
                d.get_quotient_poly_degree(),
                d.get_omega(),
                d.get_omega_inv(),
                d.get_extended_omega(),
                <ExtendedLagrangeCoeff as PolynomialRepresentation>::g_coset(&d),
            ),
            l.to_vec(),
            back.to_vec(),
            e.to_vec(),
            e2c,
            e2l.to_vec(),
            misc,
        )
    })
    .map_err(panic_failure)?;
    let ((dk, dek, elen, qdeg, w, winv, wext, g), l, back, e, e2c, e2l, misc) = out;

    // --- the domain itself
    let ek = expected_extended_k(k, j);
    ensure!(dk == k && dek == ek && elen == 1usize << ek && qdeg == (j - 1) as usize, "EvaluationDomain:new:sizes",
        "{}: k()={dk} extended_k()={dek} (minimal 2^ek >= n(j-1) is {ek}) extended_len()={elen} quotient degree {qdeg}", ctx());
    ensure!(w.pow_vartime([n as u64]) == F::ONE && w.pow_vartime([(n / 2) as u64]) == -F::ONE, "EvaluationDomain:omega",
        "{}: omega is not a primitive n-th root of unity", ctx());
    ensure!(w * winv == F::ONE, "EvaluationDomain:omega_inv", "{}: omega * omega_inv != 1", ctx());
    let en = 1usize << ek;
    ensure!(wext.pow_vartime([en as u64]) == F::ONE && (en == 1 || wext.pow_vartime([(en / 2) as u64]) == -F::ONE),
        "EvaluationDomain:extended_omega", "{}: extended omega is not a primitive 2^extended_k-th root of unity", ctx());
    ensure!(wext.pow_vartime([(en / n) as u64]) == w, "EvaluationDomain:extended_omega",
        "{}: omega != extended_omega^(2^(extended_k-k))", ctx());
    ensure!(g == F::ZETA, "EvaluationDomain:g_coset", "{}: the coset generator is not ZETA (doc of new())", ctx());
    ensure!(g != F::ONE && g.cube() == F::ONE, "EvaluationDomain:g_coset", "{}: ZETA is not a primitive cube root of unity", ctx());

    // --- coefficient <-> Lagrange
    let pts = powers(w, n);
    let want_l: Vec<F> = pts.par_iter().map(|x| horner(&a, *x)).collect();
    if let Some(i) = (0..n).find(|&i| l[i] != want_l[i]) {
        return Err(Failure::new("EvaluationDomain:coeff_to_lagrange", format!("{}: value {i} is not p(omega^{i})", ctx())));
    }
    ensure!(back == a, "EvaluationDomain:lagrange_to_coeff", "{}: lagrange_to_coeff(coeff_to_lagrange(p)) != p", ctx());

    // --- coefficient <-> extended coset
    ensure!(e.len() == en, "EvaluationDomain:coeff_to_extended", "{}: wrong length {}", ctx(), e.len());
    let positions: Vec<usize> = if full || en * n <= 1 << 20 {
        (0..en).collect()
    } else {
        let m = ((1usize << 20) / n).max(16);
        let mut v: Vec<usize> = (0..m).map(|_| rng.below(en as u64) as usize).collect();
        v.extend([0, 1, en - 1, en / 2, n, n - 1]);
        v
    };
    let bad = positions.par_iter().find_first(|&&i| {
        let x = g * wext.pow_vartime([i as u64]);
        e[i] != horner(&a, x)
    });
    if let Some(i) = bad {
        return Err(Failure::new("EvaluationDomain:coeff_to_extended", format!("{}: value {i} is not p(zeta * omega_ext^{i})", ctx())));
    }
    let mut a_ext = a.clone();
    a_ext.resize(en, F::ZERO);
    ensure!(e2c == a_ext, "EvaluationDomain:extended_to_coeff", "{}: extended_to_coeff(coeff_to_extended(p)) != p padded with zeros", ctx());
    ensure!(e2l == want_l, "EvaluationDomain:extended_to_lagrange", "{}: extended_to_lagrange(coeff_to_extended(p)) != evaluations of p on the domain", ctx());

    // --- constructors and pointwise arithmetic
    let mut cst = vec![F::ZERO; en];
    cst[0] = c;
    ensure!(misc[0] == cst, "EvaluationDomain:constant_extended", "{}: not the constant polynomial", ctx());
    ensure!(misc[1] == cst[..n], "EvaluationDomain:constant_lagrange", "{}: not the constant polynomial", ctx());
    ensure!(misc[2] == vec![F::ZERO; n] && misc[3] == vec![F::ZERO; n] && misc[4] == vec![F::ZERO; en] && misc[18] == vec![F::ZERO; n],
        "EvaluationDomain:empty", "{}: empty_* is not the zero polynomial of the right length", ctx());
    let zip = |f: &dyn Fn(F, F) -> F| -> Vec<F> { a.iter().zip(b.iter()).map(|(x, y)| f(*x, *y)).collect() };
    ensure!(misc[5] == zip(&|x, y| x + y) && misc[6] == misc[5], "Polynomial:add", "{}: coefficient-wise sum", ctx());
    ensure!(misc[7] == zip(&|x, y| x - y), "Polynomial:sub", "{}: coefficient-wise difference", ctx());
    ensure!(misc[8] == a.iter().map(|x| *x * c).collect::<Vec<_>>(), "Polynomial:mul_scalar", "{}: coefficient form", ctx());
    let mut a_minus_c = a.clone();
    a_minus_c[0] -= c;
    ensure!(misc[9] == a_minus_c, "Polynomial:sub_scalar", "{}: coefficient form, p - c", ctx());
    ensure!(misc[10] == want_l.iter().map(|x| *x * c).collect::<Vec<_>>(), "Polynomial:mul_scalar", "{}: Lagrange form", ctx());
    ensure!(misc[11] == e.iter().map(|x| *x * c).collect::<Vec<_>>(), "Polynomial:mul_scalar", "{}: extended form", ctx());
    ensure!(misc[12] == vec![F::ZERO; n] && misc[13] == a, "Polynomial:mul_scalar", "{}: multiplication by 0 / 1", ctx());
    ensure!(misc[14] == a && misc[15] == want_l && misc[16] == e, "PolynomialRepresentation:coeff_to_self", "{}", ctx());
    ensure!(misc[17] == b, "EvaluationDomain:lagrange_from_vec", "{}", ctx());
    let m = &misc[19];
    ensure!(
        m[0] == w && m[1] == w && m[2] == wext && m[3] == F::ONE && m[4] == F::ONE
            && m[5] == F::from(n as u64) && m[6] == F::from(n as u64) && m[7] == F::from(en as u64)
            && m[8] == F::from(k as u64) && m[9] == F::from(ek as u64),
        "PolynomialRepresentation:accessors", "{}", ctx()
    );
    let nontrivial = case.class % 6 == 0;
    Ok(Verdict::of(nontrivial, format!("k={k}")).with(format!("j={j}")).with(format!("threads={t}")).with(POLY_CLASSES[case.class as usize % 6]))
}

// ---------------------------------------------------------------------------
// domain.vanishing

fn vanishing_check<F: WithSmallOrderMulGroup<3>>(fname: &str, case: &DomCase, max_poly_len: usize) -> CaseResult {
    let (k, j, t) = (case.k, case.j, case.threads);
    let n = 1usize << k;
    let ek = expected_extended_k(k, j);
    let en = 1usize << ek;
    let ctx = || format!("{fname} k={k} j={j} threads={t}");
    let mut rng = SplitMix(case.seed);
    // (1) pointwise: arbitrary extended values
    let v: Vec<F> = match case.class % 3 {
        0 => (0..en).map(|_| random_scalar(&mut rng)).collect(),
        1 => (0..en).map(|i| F::from(i as u64 + 1)).collect(),
        _ => (0..en).map(|_| if rng.below(3) == 0 { F::ZERO } else { random_scalar(&mut rng) }).collect(),
    };
    // (2) polynomial level: p = q (X^n - 1), deg q < en - n
    let poly_level = en > n && en <= max_poly_len;
    let q: Vec<F> = poly_input(en - n, case.class / 3, case.seed ^ 0x77);
    let g = F::ZETA;
    let wext = {
        let mut w = F::ROOT_OF_UNITY;
        for _ in ek..F::S {
            w = w.square();
        }
        w
    };
    let xs: Vec<F> = powers(wext, en).into_iter().map(|x| g * x).collect();
    let p_ext: Vec<F> = if poly_level {
        let mut pp = vec![F::ZERO; en];
        for (i, c) in q.iter().enumerate() {
            pp[i + n] += c;
            pp[i] -= c;
        }
        xs.par_iter().map(|x| horner(&pp, *x)).collect()
    } else {
        vec![]
    };
    let (r, qq): (Vec<F>, Vec<F>) = in_pool_catch(t, || {
        let d = EvaluationDomain::<F>::new(j, k);
        let mut pv = d.empty_extended();
        pv.iter_mut().zip(v.iter()).for_each(|(a, b)| *a = *b);
        let r = d.divide_by_vanishing_poly(pv).to_vec();
        let qq = if poly_level {
            let mut pe = d.empty_extended();
            pe.iter_mut().zip(p_ext.iter()).for_each(|(a, b)| *a = *b);
            d.extended_to_coeff(d.divide_by_vanishing_poly(pe))
        } else {
            vec![]
        };
        (r, qq)
    })
    .map_err(panic_failure)?;
    ensure!(r.len() == en, "EvaluationDomain:divide_by_vanishing_poly", "{}: wrong length", ctx());
    let bad = (0..en).into_par_iter().find_first(|&i| {
        let tx = xs[i].pow_vartime([n as u64]) - F::ONE;
        r[i] * tx != v[i]
    });
    if let Some(i) = bad {
        return Err(Failure::new(
            "EvaluationDomain:divide_by_vanishing_poly",
            format!("{}: result[{i}] * ((zeta omega_ext^{i})^n - 1) != input[{i}]", ctx()),
        ));
    }
    if poly_level {
        let mut want = q.clone();
        want.resize(en, F::ZERO);
        ensure!(qq == want, "EvaluationDomain:divide_by_vanishing_poly", "{}: (q (X^n-1)) / (X^n-1) != q at the polynomial level", ctx());
    }
    Ok(Verdict::of(case.class % 3 != 1, format!("k={k}")).with(format!("j={j}")).with(format!("threads={t}")).with(if poly_level { "poly-level" } else { "pointwise-only" }))
}

// ---------------------------------------------------------------------------
// domain.rotate

#[derive(Clone, Debug, Serialize, Deserialize)]
struct RotCase {
    k: u32,
    threads: usize,
    seed: u64,
    big: i32,
}

fn omega_pow<F: Field>(w: F, rho: i64) -> F {
    // naive repeated multiplication by omega or its inverse
    let base = if rho >= 0 { w } else { w.invert().unwrap() };
    let mut r = F::ONE;
    for _ in 0..rho.unsigned_abs() {
        r *= base;
    }
    r
}

fn rotate_check<F: WithSmallOrderMulGroup<3>>(fname: &str, case: &RotCase) -> CaseResult {
    let (k, t) = (case.k, case.threads);
    let n = 1usize << k;
    let mut rng = SplitMix(case.seed);
    let a: Vec<F> = (0..n).map(|_| random_scalar(&mut rng)).collect();
    let x: F = random_scalar(&mut rng);
    // every rotation -3..3 on every domain (beyond n for k = 1), and a few
    // larger ones: positions are taken modulo n
    let mut rots: Vec<i32> = (-3..=3).collect();
    rots.extend([n as i32, -(n as i32), n as i32 + 1, -(n as i32) - 1, 2 * n as i32 + 3, (case.big % 4096)]);
    let big_rots: Vec<i32> = vec![n as i32, -(n as i32), n as i32 + 1, -(n as i32) - 1, case.big, i32::MAX, i32::MIN + 1, i32::MIN];
    type Out<F> = (F, Vec<F>, Vec<(Vec<F>, Vec<F>, F)>, Vec<F>);
    let out: Out<F> = in_pool_catch(t, || {
        let d = EvaluationDomain::<F>::new(2, k);
        let l = d.coeff_to_lagrange(d.coeff_from_vec(a.clone()));
        let per: Vec<(Vec<F>, Vec<F>, F)> = rots
            .iter()
            .map(|&r| {
                let rl = l.rotate(Rotation(r));
                let rc = d.lagrange_to_coeff(rl.clone());
                (rl.to_vec(), rc.to_vec(), d.rotate_omega(x, Rotation(r)))
            })
            .collect();
        let big: Vec<F> = big_rots.iter().map(|&r| d.rotate_omega(x, Rotation(r))).collect();
        (d.get_omega(), l.to_vec(), per, big)
    })
    .map_err(panic_failure)?;
    let (w, l, per, big) = out;
    ensure!(Rotation::cur() == Rotation(0) && Rotation::next() == Rotation(1) && Rotation::prev() == Rotation(-1), "Rotation:constants", "cur/next/prev");
    for (&r, (rl, rc, rx)) in rots.iter().zip(per.iter()) {
        let wr = if r.abs() <= 3 { omega_pow(w, r as i64) } else { w.pow_vartime([(r as i64).rem_euclid(n as i64) as u64]) };
        ensure!(*rx == x * wr, "EvaluationDomain:rotate_omega", "{fname} k={k} rotation {r}: not x * omega^{r}");
        for i in 0..n {
            let src = (i as i64 + r as i64).rem_euclid(n as i64) as usize;
            ensure!(rl[i] == l[src], "Polynomial:rotate", "{fname} k={k} rotation {r}: value {i} is not the value at {i}+({r}) mod n");
        }
        // polynomial level: the rotated polynomial is p(omega^r X)
        ensure!(horner(rc, x) == horner(&a, x * wr), "Polynomial:rotate", "{fname} k={k} threads={t} rotation {r}: rotated polynomial at x != p(omega^{r} x)");
    }
    for (&r, rx) in big_rots.iter().zip(big.iter()) {
        let e = (r as i64).rem_euclid(n as i64) as u64;
        ensure!(*rx == x * w.pow_vartime([e]), "EvaluationDomain:rotate_omega", "{fname} k={k} rotation {r}: not x * omega^({r} mod n)");
    }
    Ok(Verdict::nontrivial(format!("k={k}")).with(format!("threads={t}")).with(if n < 3 { "rotations -3..3 exceed n" } else { "rotations -3..3 within n" }))
}

#[derive(Clone, Debug, Serialize, Deserialize)]
struct WrapCase {
    k: u32,
    rotation: i32,
}

/// `Polynomial::rotate` with |rotation| > n (rotations are positions modulo n,
/// as in `rotate_omega`).
fn rotate_wrap_check<F: WithSmallOrderMulGroup<3>>(case: &WrapCase) -> CaseResult {
    let n = 1usize << case.k;
    let d = EvaluationDomain::<F>::new(2, case.k);
    let l: Vec<F> = (0..n).map(|i| F::from(i as u64 + 10)).collect();
    let pl = d.lagrange_from_vec(l.clone());
    let r = case.rotation;
    match vpcore::catch(|| pl.rotate(Rotation(r)).to_vec()) {
        Err(e) => Err(Failure::new(
            "Polynomial::rotate:|rotation|>n:panic",
            format!("Polynomial::rotate(Rotation({r})) on a domain of size n={n} panicked: {e}"),
        )),
        Ok(v) => {
            for i in 0..n {
                let src = (i as i64 + r as i64).rem_euclid(n as i64) as usize;
                ensure!(v[i] == l[src], "Polynomial::rotate:|rotation|>n", "n={n} rotation {r}: value {i} is not the value at ({i}+{r}) mod n");
            }
            Ok(Verdict::nontrivial(format!("n={n}")))
        }
    }
}

// ---------------------------------------------------------------------------
// domain.l_i_range

#[derive(Clone, Debug, Serialize, Deserialize)]
struct LiCase {
    k: u32,
    threads: usize,
    xclass: u8,
    /// 0 = Range, 1 = RangeInclusive, 2 = arbitrary Vec
    kind: u8,
    start: i32,
    len: u16,
    seed: u64,
}

fn li_strategy(max_k: u32) -> BoxedStrategy<LiCase> {
    (1u32..=max_k, threads_strategy(), 0u8..8, 0u8..3, any::<i16>(), 0u16..40, any::<u64>())
        .prop_map(|(k, threads, xclass, kind, s, len, seed)| {
            let n = 1i32 << k;
            // start in [-2n-3, 2n+3]
            let span = 4 * n + 7;
            let start = (s as i32).rem_euclid(span) - 2 * n - 3;
            LiCase { k, threads, xclass, kind, start, len, seed }
        })
        .boxed()
}

/// l_i(x) = prod_{j != i} (x - w^j) / (w^i - w^j)
fn lagrange_basis_at<F: Field>(pts: &[F], i: usize, x: F) -> F {
    let mut num = F::ONE;
    let mut den = F::ONE;
    for (jx, pj) in pts.iter().enumerate() {
        if jx != i {
            num *= x - pj;
            den *= pts[i] - pj;
        }
    }
    num * den.invert().unwrap()
}

fn li_check<F: WithSmallOrderMulGroup<3>>(fname: &str, case: &LiCase) -> CaseResult {
    let (k, t) = (case.k, case.threads);
    let n = 1usize << k;
    let mut rng = SplitMix(case.seed);
    let w = {
        let mut w = F::ROOT_OF_UNITY;
        for _ in k..F::S {
            w = w.square();
        }
        w
    };
    let pts = powers(w, n);
    let (x, xlabel, in_domain): (F, &str, bool) = match case.xclass {
        0 => (F::ZERO, "x=0", false),
        1 => (F::ZETA, "x=zeta", false),
        2 => (F::from(2), "x=2", false),
        3 => (-F::ONE * F::from(3), "x=-3", false),
        // a point of the domain: the closed formula is 0/0 there (recorded, not judged)
        4 => (pts[rng.below(n as u64) as usize], "x-in-domain", true),
        _ => (random_scalar(&mut rng), "x=random", false),
    };
    let xn = x.pow_vartime([n as u64]);
    let idx: Vec<i32> = match case.kind {
        0 => (case.start..case.start + case.len as i32).collect(),
        1 => (case.start..=case.start + case.len as i32).collect(),
        _ => (0..case.len).map(|_| case.start + rng.below(2 * n as u64 + 5) as i32 - n as i32).collect(),
    };
    let got: Vec<F> = in_pool_catch(t, || {
        let d = EvaluationDomain::<F>::new(2, k);
        match case.kind {
            0 => d.l_i_range(x, xn, case.start..case.start + case.len as i32),
            1 => d.l_i_range(x, xn, case.start..=case.start + case.len as i32),
            _ => d.l_i_range(x, xn, idx.clone()),
        }
    })
    .map_err(panic_failure)?;
    ensure!(got.len() == idx.len(), "EvaluationDomain:l_i_range:len", "{fname} k={k}: {} results for {} indices", got.len(), idx.len());
    let mut agree = true;
    for (g, &i) in got.iter().zip(idx.iter()) {
        let ii = (i as i64).rem_euclid(n as i64) as usize;
        let want = lagrange_basis_at(&pts, ii, x);
        if *g != want {
            if in_domain {
                agree = false;
            } else {
                return Err(Failure::new(
                    "EvaluationDomain:l_i_range",
                    format!("{fname} k={k} threads={t} {xlabel} index {i} (= {ii} mod n): result differs from prod_(j!=i) (x-w^j)/(w^i-w^j)"),
                ));
            }
        }
    }
    let neg = idx.iter().any(|i| *i < 0);
    let beyond = idx.iter().any(|i| *i >= n as i32);
    let mut v = Verdict::of(!in_domain && !idx.is_empty() && (neg || beyond), format!("k={k}"))
        .with(xlabel)
        .with(["Range", "RangeInclusive", "Vec"][case.kind as usize % 3]);
    if neg {
        v = v.with("negative-index");
    }
    if beyond {
        v = v.with("index>=n");
    }
    if idx.is_empty() {
        v = v.with("empty-range");
    }
    if in_domain {
        v = v.with(if agree { "x-in-domain:agrees" } else { "x-in-domain:formula-0/0-differs(observation)" });
    }
    Ok(v)
}

// ---------------------------------------------------------------------------
// polynomial utilities

#[derive(Clone, Debug, Serialize, Deserialize)]
struct UtilCase {
    len: usize,
    threads: usize,
    class: u8,
    xclass: u8,
    seed: u64,
}

fn len_strategy(max: usize) -> BoxedStrategy<usize> {
    prop_oneof![
        6 => 0usize..=70,
        1 => prop::sample::select(vec![127usize, 128, 129, 255, 256, 257, 1023, 1024, 1025, 4095, 4096]),
        1 => 71usize..=max,
    ]
    .boxed()
}

fn util_strategy(max: usize) -> BoxedStrategy<UtilCase> {
    (len_strategy(max), threads_strategy(), 0u8..6, 0u8..6, any::<u64>())
        .prop_map(|(len, threads, class, xclass, seed)| UtilCase { len, threads, class, xclass, seed })
        .boxed()
}

fn x_input<F: PrimeField>(xclass: u8, rng: &mut SplitMix) -> (F, &'static str) {
    match xclass {
        0 => (F::ZERO, "x=0"),
        1 => (F::ONE, "x=1"),
        2 => (-F::ONE, "x=-1"),
        _ => (random_scalar(rng), "x=random"),
    }
}

fn util_check<F: WithSmallOrderMulGroup<3> + Ord>(fname: &str, case: &UtilCase) -> CaseResult {
    let (len, t) = (case.len, case.threads);
    let a: Vec<F> = poly_input(len, case.class, case.seed);
    let mut rng = SplitMix(case.seed ^ 0x5151);
    let (x, xlabel) = x_input::<F>(case.xclass, &mut rng);
    let b: Vec<F> = (0..len).map(|_| random_scalar(&mut rng)).collect();
    let ctx = || format!("{fname} len={len} threads={t} poly={} {xlabel}", POLY_CLASSES[case.class as usize % 6]);
    // exact-division input: a2 = q0 (X - x)
    let q0: Vec<F> = poly_input(len.saturating_sub(1), case.class, case.seed ^ 0x99);
    let mut a2 = vec![F::ZERO; len];
    for (i, c) in q0.iter().enumerate() {
        a2[i + 1] += c;
        a2[i] -= *c * x;
    }
    type Out<F> = (F, Option<Vec<F>>, Option<Vec<F>>, F, Vec<u64>);
    let out: Out<F> = in_pool_catch(t, || {
        let ev = eval_polynomial(&a, x);
        // (the empty coefficient list is the zero polynomial: empty quotient)
        let (kd, kd2) = (Some(kate_division(&a, x)), Some(kate_division(&a2, x)));
        let ip = compute_inner_product(&a, &b);
        let mut marks = vec![0u64; len];
        parallelize(&mut marks, |chunk, offset| {
            for (i, m) in chunk.iter_mut().enumerate() {
                *m += (offset + i) as u64 + 1;
            }
        });
        (ev, kd, kd2, ip, marks)
    })
    .map_err(panic_failure)?;
    let (ev, kd, kd2, ip, marks) = out;
    ensure!(ev == horner(&a, x), "eval_polynomial", "{}: differs from Horner evaluation", ctx());
    if let (Some(q), Some(q2)) = (kd, kd2) {
        ensure!(q.len() == len.saturating_sub(1), "kate_division:len", "{}: quotient has {} coefficients", ctx(), q.len());
        // multiply back: q (X - x) + p(x) == p
        let mut back = vec![F::ZERO; len];
        for (i, c) in q.iter().enumerate() {
            back[i + 1] += c;
            back[i] -= *c * x;
        }
        if len >= 1 {
            back[0] += horner(&a, x);
        }
        ensure!(back == a, "kate_division", "{}: q (X - b) + p(b) != p", ctx());
        ensure!(q2 == q0, "kate_division", "{}: (q0 (X - b)) / (X - b) != q0", ctx());
    }
    let want_ip = a.iter().zip(b.iter()).fold(F::ZERO, |acc, (x, y)| acc + *x * *y);
    ensure!(ip == want_ip, "compute_inner_product", "{}", ctx());
    if let Some(i) = (0..len).find(|&i| marks[i] != i as u64 + 1) {
        return Err(Failure::new(
            "parallelize",
            format!("{}: element {i} was visited with offset+index = {} (0 = never, sums = more than once)", ctx(), marks[i] as i64 - 1),
        ));
    }
    let lc = match len {
        0 => "len=0",
        1 => "len=1",
        2..=16 => "len<=16",
        17..=70 => "len<=70",
        _ => "len>70",
    };
    Ok(Verdict::of(len >= 2 && case.class % 6 != 1, lc).with(format!("threads={t}")).with(xlabel).with(POLY_CLASSES[case.class as usize % 6]))
}

#[derive(Clone, Debug, Serialize, Deserialize)]
struct InterpCase {
    m: usize,
    pclass: u8,
    seed: u64,
}

fn interp_check<F: WithSmallOrderMulGroup<3> + Ord>(fname: &str, case: &InterpCase) -> CaseResult {
    let m = case.m;
    let mut rng = SplitMix(case.seed);
    // distinct points (documented precondition)
    let mut pts: Vec<F> = Vec::with_capacity(m);
    while pts.len() < m {
        let c: F = match case.pclass % 3 {
            0 => random_scalar(&mut rng),
            1 => F::from(pts.len() as u64), // 0, 1, 2, ... (includes the point 0)
            _ => {
                // powers of a root of unity, some negated
                let w = F::ROOT_OF_UNITY.pow_vartime([1u64 << (F::S - 5)]);
                w.pow_vartime([pts.len() as u64])
            }
        };
        if !pts.contains(&c) {
            pts.push(c);
        }
    }
    let evals: Vec<F> = (0..m).map(|i| if case.pclass >= 3 && i % 2 == 0 { F::ZERO } else { random_scalar(&mut rng) }).collect();
    let poly = vpcore::catch(|| lagrange_interpolate(&pts, &evals)).map_err(panic_failure)?;
    ensure!(poly.len() == m, "lagrange_interpolate:len", "{fname} m={m}: {} coefficients", poly.len());
    for (pt, ev) in pts.iter().zip(evals.iter()) {
        ensure!(horner(&poly, *pt) == *ev, "lagrange_interpolate", "{fname} m={m} points class {}: the polynomial does not take the prescribed value", case.pclass % 3);
    }
    Ok(Verdict::of(m >= 2, format!("m={m}")).with(["random-points", "small-points", "roots-of-unity"][case.pclass as usize % 3]))
}

// ---------------------------------------------------------------------------
// KZG: Lagrange-basis SRS and commitments

struct KzgFixture<E: MultiMillerLoop> {
    s: E::Fr,
    params: ParamsKZG<E>,
}

fn srs_secret<F: PrimeField>(k: u32) -> (u64, F) {
    let seed = 0xC12_0000 + k as u64;
    (seed, F::random(ChaCha20Rng::seed_from_u64(seed)))
}

struct KzgCtx<E: MultiMillerLoop> {
    name: &'static str,
    fixtures: Vec<OnceLock<KzgFixture<E>>>,
}

impl<E: MultiMillerLoop + std::fmt::Debug> KzgCtx<E> {
    fn new(name: &'static str) -> Self {
        KzgCtx { name, fixtures: (0..16).map(|_| OnceLock::new()).collect() }
    }
    fn get(&self, k: u32) -> &KzgFixture<E> {
        self.fixtures[k as usize].get_or_init(|| {
            let (seed, s) = srs_secret::<E::Fr>(k);
            // unsafe_setup draws its secret as the first Fr::random of the rng
            let params = ParamsKZG::<E>::unsafe_setup(k, ChaCha20Rng::seed_from_u64(seed));
            KzgFixture { s, params }
        })
    }
}

#[derive(Clone, Debug, Serialize, Deserialize)]
struct KzgCase {
    k: u32,
    threads: usize,
    class: u8,
    seed: u64,
}

fn lagrange_basis_all<F: PrimeField>(k: u32, s: F) -> Vec<F> {
    let n = 1usize << k;
    let mut w = F::ROOT_OF_UNITY;
    for _ in k..F::S {
        w = w.square();
    }
    let pts = powers(w, n);
    (0..n).into_par_iter().map(|i| lagrange_basis_at(&pts, i, s)).collect()
}

fn kzg_commit_check<E>(ctx: &KzgCtx<E>, case: &KzgCase) -> CaseResult
where
    E: MultiMillerLoop + std::fmt::Debug,
    E::Fr: WithSmallOrderMulGroup<3> + Ord,
    E::G1: Default + CurveExt<ScalarExt = E::Fr> + ProcessedSerdeObject,
    E::G1Affine: Default + CurveAffine<ScalarExt = E::Fr, CurveExt = E::G1>,
{
    let name = ctx.name;
    let (k, t) = (case.k, case.threads);
    let n = 1usize << k;
    let fx = ctx.get(k);
    let a: Vec<E::Fr> = poly_input(n, case.class, case.seed);
    let want = E::G1::generator() * horner(&a, fx.s);
    let (c1, c2): (E::G1, E::G1) = in_pool_catch(t, || {
        let d = EvaluationDomain::<E::Fr>::new(2, k);
        let pa = d.coeff_from_vec(a.clone());
        let c1 = <KZGCommitmentScheme<E> as PolynomialCommitmentScheme<E::Fr>>::commit(&fx.params, &pa);
        let l = d.coeff_to_lagrange(pa);
        let c2 = <KZGCommitmentScheme<E> as PolynomialCommitmentScheme<E::Fr>>::commit_lagrange(&fx.params, &l);
        (c1, c2)
    })
    .map_err(panic_failure)?;
    ensure!(c1 == want, format!("{name}:KZG:commit"), "k={k} threads={t} poly={}: commit(p) != p(s) G", POLY_CLASSES[case.class as usize % 6]);
    ensure!(c2 == want, format!("{name}:KZG:commit_lagrange"), "k={k} threads={t} poly={}: commit_lagrange(evaluations of p) != p(s) G", POLY_CLASSES[case.class as usize % 6]);
    Ok(Verdict::of(case.class % 6 != 1, format!("k={k}")).with(format!("threads={t}")).with(POLY_CLASSES[case.class as usize % 6]))
}

#[derive(Clone, Debug, Serialize, Deserialize)]
struct SrsCase {
    what: String,
    k: u32,
    new_k: u32,
    threads: usize,
}

fn kzg_srs_check<E>(ctx: &KzgCtx<E>, case: &SrsCase) -> CaseResult
where
    E: MultiMillerLoop + std::fmt::Debug,
    E::Fr: WithSmallOrderMulGroup<3> + Ord,
    E::G1: Default + CurveExt<ScalarExt = E::Fr> + ProcessedSerdeObject,
    E::G1Affine: Default + CurveAffine<ScalarExt = E::Fr, CurveExt = E::G1>,
{
    let name = ctx.name;
    let (k, t) = (case.k, case.threads);
    let g = E::G1::generator();
    let check_lagrange = |what: &str, gl: &[E::G1], k: u32, s: E::Fr| -> Result<(), Failure> {
        let n = 1usize << k;
        ensure!(gl.len() == n, format!("{name}:{what}:len"), "k={k}: {} Lagrange bases", gl.len());
        let li = lagrange_basis_all::<E::Fr>(k, s);
        if let Some(i) = (0..n).into_par_iter().find_first(|&i| gl[i] != g * li[i]) {
            return Err(Failure::new(format!("{name}:{what}"), format!("k={k} threads={t}: Lagrange base {i} != l_{i}(s) G")));
        }
        Ok(())
    };
    match case.what.as_str() {
        "unsafe_setup" => {
            let fx = ctx.get(k);
            ensure!(fx.params.max_k() == k, format!("{name}:ParamsKZG:max_k"), "k={k}");
            check_lagrange("ParamsKZG::unsafe_setup:g_lagrange", fx.params.g_lagrange(), k, fx.s)?;
            ensure!(fx.params.g2() == E::G2::generator() && fx.params.s_g2() == E::G2::generator() * fx.s, format!("{name}:ParamsKZG:g2"), "k={k}");
        }
        "g_to_lagrange" | "from_parts" => {
            let (_, s) = srs_secret::<E::Fr>(k + 100);
            let mons: Vec<E::G1> = powers(s, 1usize << k).par_iter().map(|p| g * *p).collect();
            if case.what == "g_to_lagrange" {
                let gl = in_pool_catch(t, || g_to_lagrange(&mons, k)).map_err(panic_failure)?;
                check_lagrange("g_to_lagrange", &gl, k, s)?;
            } else {
                let g2 = E::G2::generator();
                let params = in_pool_catch(t, || ParamsKZG::<E>::from_parts(k, mons.clone(), None, g2, g2 * s)).map_err(panic_failure)?;
                check_lagrange("ParamsKZG::from_parts:g_lagrange", params.g_lagrange(), k, s)?;
                // commitments in both bases with these parameters
                let a: Vec<E::Fr> = poly_input(1usize << k, 0, 0xFACE + k as u64);
                let d = EvaluationDomain::<E::Fr>::new(2, k);
                let pa = d.coeff_from_vec(a.clone());
                let c1 = <KZGCommitmentScheme<E> as PolynomialCommitmentScheme<E::Fr>>::commit(&params, &pa);
                let c2 = <KZGCommitmentScheme<E> as PolynomialCommitmentScheme<E::Fr>>::commit_lagrange(&params, &d.coeff_to_lagrange(pa));
                ensure!(c1 == g * horner(&a, s) && c2 == c1, format!("{name}:ParamsKZG::from_parts:commit"), "k={k}");
            }
        }
        _ => {
            // downsize
            let fx = ctx.get(k);
            let nk = case.new_k;
            let params = in_pool_catch(t, || {
                let mut p = fx.params.clone();
                p.downsize(nk);
                p
            })
            .map_err(panic_failure)?;
            ensure!(params.max_k() == nk, format!("{name}:ParamsKZG::downsize:max_k"), "k={k} -> {nk}: max_k() = {}", params.max_k());
            check_lagrange("ParamsKZG::downsize:g_lagrange", params.g_lagrange(), nk, fx.s)?;
            let a: Vec<E::Fr> = poly_input(1usize << nk, 0, 0xD0 + k as u64);
            let d = EvaluationDomain::<E::Fr>::new(2, nk);
            let pa = d.coeff_from_vec(a.clone());
            let c1 = <KZGCommitmentScheme<E> as PolynomialCommitmentScheme<E::Fr>>::commit(&params, &pa);
            let c2 = <KZGCommitmentScheme<E> as PolynomialCommitmentScheme<E::Fr>>::commit_lagrange(&params, &d.coeff_to_lagrange(pa));
            ensure!(c1 == g * horner(&a, fx.s) && c2 == c1, format!("{name}:ParamsKZG::downsize:commit"), "k={k} -> {nk}");
        }
    }
    Ok(Verdict::nontrivial(case.what.clone()).with(format!("k={k}")))
}

// ---------------------------------------------------------------------------
// msm_specific / MSMKZG

#[derive(Clone, Debug, Serialize, Deserialize)]
struct MsmkCase {
    n: usize,
    threads: usize,
    smode: u8,
    bmode: u8,
    seed: u64,
}

fn msmk_strategy() -> BoxedStrategy<MsmkCase> {
    let n = prop_oneof![6 => 0usize..=40, 1 => prop::sample::select(vec![31usize, 32, 33, 64, 255, 256, 600]), 1 => 41usize..=400];
    (n, threads_strategy(), 0u8..4, 0u8..4, any::<u64>())
        .prop_map(|(n, threads, smode, bmode, seed)| MsmkCase { n, threads, smode, bmode, seed })
        .boxed()
}

fn msmk_check<E>(name: &str, case: &MsmkCase) -> CaseResult
where
    E: MultiMillerLoop + std::fmt::Debug,
    E::Fr: WithSmallOrderMulGroup<3> + Ord,
    E::G1: Default + CurveExt<ScalarExt = E::Fr> + ProcessedSerdeObject,
    E::G1Affine: Default + CurveAffine<ScalarExt = E::Fr, CurveExt = E::G1>,
{
    let (n, t) = (case.n, case.threads);
    let mut rng = SplitMix(case.seed);
    let g = E::G1::generator();
    let base0 = g * random_scalar::<E::Fr>(&mut rng);
    let step = g * random_scalar::<E::Fr>(&mut rng);
    let mut labels: Vec<&'static str> = vec![];
    let mut scalars: Vec<E::Fr> = Vec::with_capacity(n);
    let mut bases: Vec<E::G1> = Vec::with_capacity(n);
    let mut cur = base0;
    for i in 0..n {
        let s: E::Fr = match case.smode {
            0 => random_scalar(&mut rng),
            1 => match rng.below(4) {
                0 => {
                    labels.push("s=0");
                    E::Fr::ZERO
                }
                1 => {
                    labels.push("s=1");
                    E::Fr::ONE
                }
                2 => {
                    labels.push("s=-1");
                    -E::Fr::ONE
                }
                _ => random_scalar(&mut rng),
            },
            2 => {
                labels.push("s=0");
                E::Fr::ZERO
            }
            _ => {
                labels.push("s=1");
                E::Fr::ONE
            }
        };
        let b: E::G1 = match case.bmode {
            0 => cur,
            1 => match rng.below(5) {
                0 => {
                    labels.push("b=identity");
                    E::G1::identity()
                }
                1 => {
                    labels.push("b=repeated");
                    base0
                }
                2 => {
                    labels.push("b=opposite");
                    -base0
                }
                3 => g,
                _ => cur,
            },
            2 => {
                labels.push("b=identity");
                E::G1::identity()
            }
            _ => base0,
        };
        cur += step;
        let _ = i;
        scalars.push(s);
        bases.push(b);
    }
    let want = scalars.iter().zip(bases.iter()).fold(E::G1::identity(), |acc, (s, b)| acc + *b * *s);
    let f: E::Fr = from_limbs(&[rng.next_u64(), rng.next_u64(), 3, 0]);
    let half = n / 2;
    type Out<G> = (G, G, G, G, G, bool, G, usize, usize);
    let out: Out<E::G1> = in_pool_catch(t, || {
        let r0 = msm_specific::<E::G1Affine>(&scalars, &bases);
        let mut m = MSMKZG::<E>::init();
        for (s, b) in scalars.iter().zip(bases.iter()) {
            m.append_term(*s, *b, CommitmentLabel::NoLabel);
        }
        let r1 = m.eval();
        let chk = m.check();
        let mut m2 = m.clone();
        m2.scale(f);
        let r2 = m2.eval();
        // split in two, recombine with add_msm and from_many
        let mut ma = MSMKZG::<E>::init();
        let mut mb = MSMKZG::<E>::init();
        for (i, (s, b)) in scalars.iter().zip(bases.iter()).enumerate() {
            if i < half {
                ma.append_term(*s, *b, CommitmentLabel::Custom(format!("t{i}")));
            } else {
                mb.append_term(*s, *b, CommitmentLabel::Advice(i));
            }
        }
        let many = MSMKZG::<E>::from_many(vec![ma.clone(), mb.clone()]);
        ma.add_msm(&mb);
        let r3 = ma.eval();
        let r4 = many.eval();
        let fb = MSMKZG::<E>::from_base(&bases.first().copied().unwrap_or(g)).eval();
        (r0, r1, r2, r3, r4, chk, fb, m.scalars().len() + m.bases().len() + m.labels().len(), many.scalars().len())
    })
    .map_err(|e| {
        Failure::new(format!("{name}:msm_specific:panic"), format!("n={n} threads={t}: {e}"))
    })?;
    let (r0, r1, r2, r3, r4, chk, fb, lens, many_len) = out;
    ensure!(r0 == want, format!("{name}:msm_specific"), "n={n} threads={t} smode={} bmode={}: differs from the sum of scalar*base", case.smode, case.bmode);
    ensure!(r1 == want, format!("{name}:MSMKZG:eval"), "n={n} threads={t}");
    ensure!(r2 == want * f, format!("{name}:MSMKZG:scale"), "n={n}");
    ensure!(r3 == want && r4 == want && many_len == n, format!("{name}:MSMKZG:add_msm/from_many"), "n={n}");
    ensure!(chk == bool::from(want.is_identity()), format!("{name}:MSMKZG:check"), "n={n}: check() = {chk}");
    ensure!(fb == bases.first().copied().unwrap_or(g), format!("{name}:MSMKZG:from_base"), "n={n}");
    ensure!(lens == 3 * n, format!("{name}:MSMKZG:accessors"), "n={n}");
    labels.sort_unstable();
    labels.dedup();
    let mut v = Verdict::of(n >= 2 && !labels.is_empty(), if n == 0 { "n=0" } else if n < 32 { "n<32" } else { "n>=32" }).with(format!("threads={t}"));
    for l in labels {
        v = v.with(l);
    }
    Ok(v)
}

/// `msm_specific` falls back to `msm_best` for curves other than BLS12-381 G1
/// (and for more than 2^19 terms): the identity-base panic of `msm_best` is
/// reachable through it.
fn msm_specific_identity_large(n: &usize) -> CaseResult {
    use midnight_curves::bn256;
    let n = *n;
    let g = bn256::G1::generator();
    let mut rng = SplitMix(0x1D00 + n as u64);
    // bases (3 + 5 i) G, scalars random
    let step = g * bn256::Fr::from(5);
    let mut cur = g * bn256::Fr::from(3);
    let mut bases = Vec::with_capacity(n);
    let mut k = bn256::Fr::ZERO;
    let mut scalars = Vec::with_capacity(n);
    for i in 0..n {
        let s: bn256::Fr = random_scalar(&mut rng);
        if i == 0 {
            bases.push(bn256::G1::identity());
        } else {
            bases.push(cur);
            k += s * bn256::Fr::from(3 + 5 * i as u64);
        }
        scalars.push(s);
        cur += step;
    }
    let want = g * k;
    let big = if n >= 8104 { "n>=8104" } else { "n<8104" };
    match in_pool_catch(1, || msm_specific::<bn256::G1Affine>(&scalars, &bases)) {
        Err(e) => Err(Failure::new(
            format!("msm_specific:bn256:identity-base:{big}:panic"),
            format!("msm_specific::<bn256::G1Affine>(n={n}, bases[0] = identity, other bases distinct, random scalars) panicked: {e}"),
        )),
        Ok(r) => {
            ensure!(r == want, format!("msm_specific:bn256:identity-base:{big}:wrong-result"), "n={n}: differs from the sum of scalar*base");
            Ok(Verdict::nontrivial(format!("n={n}")))
        }
    }
}

// ---------------------------------------------------------------------------
// Rational

#[derive(Clone, Debug, Serialize, Deserialize)]
struct RatCase {
    /// three operands: (kind 0 = Zero, 1 = Trivial, 2 = Rational; numerator class; denominator class)
    ops: Vec<(u8, u8, u8)>,
    seed: u64,
}

fn rat_strategy() -> BoxedStrategy<RatCase> {
    (proptest::collection::vec((0u8..3, 0u8..5, 0u8..5), 3), any::<u64>())
        .prop_map(|(ops, seed)| RatCase { ops, seed })
        .boxed()
}

fn inv0<F: Field>(x: F) -> F {
    x.invert().unwrap_or(F::ZERO)
}

fn rat_check<F: PrimeField>(fname: &str, case: &RatCase) -> CaseResult {
    let mut rng = SplitMix(case.seed);
    let fe = |c: u8, rng: &mut SplitMix| -> F {
        match c {
            0 => F::ZERO,
            1 => F::ONE,
            2 => -F::ONE,
            3 => F::from(rng.below(100)),
            _ => random_scalar(rng),
        }
    };
    let mut vals: Vec<(Rational<F>, F)> = vec![];
    let mut labels = vec![];
    for (kind, nc, dc) in case.ops.iter() {
        let (nn, dd) = (fe(*nc, &mut rng), fe(*dc, &mut rng));
        let (r, v) = match kind {
            0 => (Rational::Zero, F::ZERO),
            1 => (Rational::from(nn), nn),
            _ => {
                if *dc == 0 {
                    labels.push("den=0");
                }
                (Rational::from((nn, dd)), nn * inv0(dd))
            }
        };
        vals.push((r, v));
    }
    let (a, va) = vals[0];
    let (b, vb) = vals[1];
    let (c, vc) = vals[2];
    let x: F = fe(4, &mut rng);
    macro_rules! chk {
        ($op:expr, $got:expr, $want:expr) => {{
            let got: Rational<F> = $got;
            let want: F = $want;
            ensure!(got.evaluate() == want, format!("Rational:{}", $op), "{fname} {}: operands {:?}", $op, case.ops);
            // equality and zero test agree with the value
            ensure!((got == Rational::from(want)) && (Rational::from(want) == got), format!("Rational:eq({})", $op), "{fname}: result of {} not equal to its value; operands {:?}", $op, case.ops);
            ensure!(got.is_zero_vartime() == bool::from(want.is_zero()), format!("Rational:is_zero_vartime({})", $op), "{fname}: operands {:?}", case.ops);
        }};
    }
    chk!("evaluate", a, va);
    chk!("add", a + b, va + vb);
    chk!("add_ref", a + &b, va + vb);
    chk!("ref_add", &a + b, va + vb);
    chk!("ref_add_ref", &a + &b, va + vb);
    chk!("add_field", a + x, va + x);
    chk!("ref_add_field", &a + x, va + x);
    chk!("sub", a - b, va - vb);
    chk!("sub_ref", a - &b, va - vb);
    chk!("ref_sub", &a - b, va - vb);
    chk!("ref_sub_ref", &a - &b, va - vb);
    chk!("sub_field", a - x, va - x);
    chk!("ref_sub_field", &a - x, va - x);
    chk!("mul", a * b, va * vb);
    chk!("mul_ref", a * &b, va * vb);
    chk!("mul_field", a * x, va * x);
    chk!("ref_mul_field", &a * x, va * x);
    chk!("neg", -a, -va);
    chk!("ref_neg", -&a, -va);
    chk!("double", a.double(), va.double());
    chk!("square", a.square(), va.square());
    chk!("cube", a.cube(), va.square() * va);
    chk!("invert", a.invert(), inv0(va));
    chk!("distrib", (a + b) * c, (va + vb) * vc);
    chk!("mul_add", a * b + c, va * vb + vc);
    let mut t = a;
    t += b;
    chk!("add_assign", t, va + vb);
    let mut t = a;
    t += &b;
    chk!("add_assign_ref", t, va + vb);
    let mut t = a;
    t -= b;
    chk!("sub_assign", t, va - vb);
    let mut t = a;
    t -= &b;
    chk!("sub_assign_ref", t, va - vb);
    let mut t = a;
    t *= b;
    chk!("mul_assign", t, va * vb);
    let mut t = a;
    t *= &b;
    chk!("mul_assign_ref", t, va * vb);
    ensure!((a == b) == (va == vb) && (b == a) == (va == vb), "Rational:eq", "{fname}: a == b is {} but the values are {}equal; operands {:?}", a == b, if va == vb { "" } else { "not " }, case.ops);
    // the numerator/denominator protocol used for batch inversion
    let den = a.denominator();
    let v = a.numerator() * den.map(inv0).unwrap_or(F::ONE);
    ensure!(v == va, "Rational:numerator/denominator", "{fname}: numerator * inv0(denominator) != value; operands {:?}", case.ops);
    let kinds: String = case.ops.iter().map(|o| ["Z", "T", "R"][o.0 as usize]).collect();
    let mut verdict = Verdict::of(case.ops.iter().any(|o| o.0 == 2), kinds);
    labels.dedup();
    for l in labels {
        verdict = verdict.with(l);
    }
    Ok(verdict)
}

// ---------------------------------------------------------------------------

fn field_suite<F: WithSmallOrderMulGroup<3> + Ord>(p: &Prop, fname: &'static str, scale: u32) {
    let max_k = 10;
    let full = !p.quick();
    p.sub(
        &format!("domain.conversions.{fname}"),
        "k=1..10 x j=1..9 (quotient degree 0..8) x pools x polynomial classes {random full degree, zero, constant, top coefficient only, sparse, low degree}: coeff_to_lagrange vs Horner at omega^i, lagrange_to_coeff inverse, coeff_to_extended vs Horner at zeta*omega_ext^i (all positions when 2^ek*n <= 2^20, else ~2^20/n sampled; thorough: all), extended_to_coeff, extended_to_lagrange, constant/empty constructors, pointwise +,-,*scalar, representation trait; domain constants (minimal extended_k, primitive roots, omega = omega_ext^(2^(ek-k)), coset generator ZETA); non-trivial = random polynomial of full degree",
        p.tier.pick(360, 12_000) / scale,
        16,
        || dom_strategy(max_k),
        |c| conv_check::<F>(fname, c, full),
    );
    let max_poly_len = p.tier.pick(2048, 4096);
    p.sub(
        &format!("domain.vanishing.{fname}"),
        "k=1..10 x j=1..9 x pools: divide_by_vanishing_poly on arbitrary extended values, multiplied back pointwise by (zeta omega_ext^i)^n - 1; when the extended domain is larger than n (and <= 2048 points; thorough 4096): q (X^n-1) evaluated naively on the coset, divided, interpolated back, equals q; non-trivial = input not the fixed ramp",
        p.tier.pick(240, 8_000) / scale,
        16,
        || dom_strategy(max_k),
        |c| vanishing_check::<F>(fname, c, max_poly_len),
    );
    p.sub(
        &format!("domain.rotate.{fname}"),
        "k=1..10 x pools x all rotations -3..3 (beyond n for k=1) and +-n, +-(n+1), 2n+3, random up to +-4095: Polynomial::rotate value-wise (index + rotation mod n) and at the polynomial level p(omega^r X) at a random point; rotate_omega for the same rotations (naive repeated multiplication for -3..3) and for i32::MAX, i32::MIN(+1) (exponent reduced mod n)",
        p.tier.pick(300, 10_000) / scale,
        16,
        || {
            (1u32..=max_k, threads_strategy(), any::<u64>(), any::<i32>())
                .prop_map(|(k, threads, seed, big)| RotCase { k, threads, seed, big })
                .boxed()
        },
        |c| rotate_check::<F>(fname, c),
    );
    p.sub(
        &format!("domain.l_i_range.{fname}"),
        "k=1..10 x pools x evaluation points {0, zeta, 2, -3, random; a domain point only as an observation} x index ranges (Range, RangeInclusive, arbitrary Vec with repeats) starting in [-2n-3, 2n+3], up to 40 long: each result equals prod_(j != i mod n) (x-w^j)/(w^i-w^j); non-trivial = contains a negative or >= n index",
        p.tier.pick(2_400, 80_000) / scale,
        16,
        || li_strategy(max_k),
        |c| li_check::<F>(fname, c),
    );
    p.sub(
        &format!("poly.utils.{fname}"),
        "coefficient vectors of every length 0..70 and sampled up to 4096 x pools x classes x points {0,1,-1,random}: eval_polynomial vs Horner; kate_division multiplied back (q (X-b) + p(b) = p) and exact division recovers the quotient (empty input: empty quotient); compute_inner_product; parallelize visits every index exactly once with the right offset; non-trivial = length >= 2 and polynomial not zero",
        p.tier.pick(2_400, 80_000) / scale,
        16,
        || util_strategy(4096),
        |c| util_check::<F>(fname, c),
    );
    p.sub(
        &format!("poly.interpolate.{fname}"),
        "lagrange_interpolate on m = 0..12 (thorough 0..24) distinct points {random, 0..m-1, roots of unity}: m coefficients, and the polynomial takes the prescribed values (uniqueness of degree < m interpolation); non-trivial = m >= 2",
        p.tier.pick(600, 20_000) / scale,
        16,
        || {
            let max_m = if full { 24usize } else { 12 };
            (0usize..=max_m, 0u8..6, any::<u64>()).prop_map(|(m, pclass, seed)| InterpCase { m, pclass, seed }).boxed()
        },
        |c| interp_check::<F>(fname, c),
    );
    p.sub(
        &format!("rational.{fname}"),
        "three operands from {Zero, Trivial(x), Rational(n,d)} with x,n,d in {0,1,-1,small,random} (denominator 0 maps to 0): every operator form (+,-,*, with references, field operands, assign forms), neg, double, square, cube, invert, evaluate, ==, is_zero_vartime, numerator/denominator against field arithmetic with inv0; non-trivial = a Rational(n,d) operand present",
        p.tier.pick(4_000, 200_000) / scale,
        16,
        rat_strategy,
        |c| rat_check::<F>(fname, c),
    );
}

fn kzg_suite<E>(p: &Prop, ctx: &KzgCtx<E>, max_k: u32, cases: u32)
where
    E: MultiMillerLoop + std::fmt::Debug,
    E::Fr: WithSmallOrderMulGroup<3> + Ord,
    E::G1: Default + CurveExt<ScalarExt = E::Fr> + ProcessedSerdeObject,
    E::G1Affine: Default + CurveAffine<ScalarExt = E::Fr, CurveExt = E::G1>,
{
    let name = ctx.name;
    let mut items = vec![];
    for k in 1..=max_k {
        let t = POOL_SIZES[k as usize % POOL_SIZES.len()];
        items.push(SrsCase { what: "unsafe_setup".into(), k, new_k: 0, threads: t });
        items.push(SrsCase { what: "from_parts".into(), k, new_k: 0, threads: t });
        for &t in &POOL_SIZES {
            items.push(SrsCase { what: "g_to_lagrange".into(), k, new_k: 0, threads: t });
        }
        for nk in [1, k / 2, k - 1, k] {
            if nk >= 1 && nk <= k {
                items.push(SrsCase { what: "downsize".into(), k, new_k: nk, threads: t });
            }
        }
    }
    items.push(SrsCase { what: "g_to_lagrange".into(), k: 0, new_k: 0, threads: 1 });
    items.sort_by(|a, b| b.k.cmp(&a.k));
    p.enumerate(
        &format!("kzg.srs.{name}"),
        "k=1..max: the Lagrange-basis SRS of unsafe_setup (secret replayed from the seeded rng), of from_parts(.., None, ..), of g_to_lagrange (every pool, also k=0) and after downsize(new_k) equals l_i(s) G with l_i from the product formula; commit = commit_lagrange after from_parts / downsize",
        items,
        16,
        false,
        |c| kzg_srs_check::<E>(ctx, c),
    );
    p.sub(
        &format!("kzg.commit.{name}"),
        "k=1..max x pools x polynomial classes: commit(p) = p(s) G and commit_lagrange(coeff_to_lagrange(p)) = p(s) G (zero coefficients are filtered by msm_specific; the zero polynomial commits to the identity); non-trivial = polynomial not zero",
        cases,
        16,
        || {
            (1u32..=max_k, threads_strategy(), 0u8..6, any::<u64>())
                .prop_map(|(k, threads, class, seed)| KzgCase { k, threads, class, seed })
                .boxed()
        },
        |c| kzg_commit_check::<E>(ctx, c),
    );
    p.sub(
        &format!("kzg.msm.{name}"),
        "msm_specific and MSMKZG (init, append_term, eval, check, scale, add_msm, from_many, from_base, accessors) on 0..40 terms (sampled to 600) with zero/one/-1 scalars and identity/repeated/opposite bases x pools against the naive sum; non-trivial = n >= 2 and a special scalar or base",
        cases,
        16,
        msmk_strategy,
        |c| msmk_check::<E>(name, c),
    );
}

pub fn run(p: &Prop) {
    use midnight_curves::{bn256, Bls12, Fq};
    p.assume("Horner evaluation, schoolbook products and the product formula of the Lagrange basis over the library's field arithmetic (C10) are the reference; group scalar multiplication and addition are correct (C11)");
    p.assume("ParamsKZG::unsafe_setup draws its secret as the first Fr::random of the supplied rng (replayed with the same seeded ChaCha20 rng)");
    field_suite::<Fq>(p, "bls12_381.Fq", 1);
    field_suite::<bn256::Fr>(p, "bn256.Fr", 3);

    // known shape: Polynomial::rotate beyond the domain size
    let mut items = vec![];
    for k in 1u32..=2 {
        let n = 1i32 << k;
        for r in -7i32..=7 {
            if r.abs() > n {
                items.push(WrapCase { k, rotation: r });
            }
        }
    }
    p.enumerate(
        "domain.rotate.wrap",
        "REGRESSION (fixed: Polynomial::rotate panicked for |rotation| > n): Polynomial::rotate with |rotation| > n on the smallest domains (k=1: rotations +-3 of the quantifier; k=1,2: up to +-7): positions are taken modulo n, as rotate_omega does",
        items,
        2,
        false,
        rotate_wrap_check::<Fq>,
    );

    let bls = KzgCtx::<Bls12>::new("bls12_381");
    let bn = KzgCtx::<bn256::Bn256>::new("bn256");
    kzg_suite(p, &bls, p.tier.pick(7, 10), p.tier.pick(400, 8_000));
    kzg_suite(p, &bn, p.tier.pick(6, 9), p.tier.pick(200, 4_000));
    p.enumerate(
        "kzg.msm.identity-base-large",
        "REGRESSION (fixed: msm_best identity-base panic, reached through msm_specific): msm_specific on BN254 G1 (the msm_best fallback) with one identity base among n distinct bases with random scalars, n = 8103 and 8104",
        vec![8103usize, 8104],
        2,
        false,
        msm_specific_identity_large,
    );
}
