//! Extension towers Fp2 = Fp[u]/(u^2+1), Fp6 = Fp2[v]/(v^3 - xi), Fp12 =
//! Fp6[w]/(w^2 - v) for BLS12-381 (xi = u+1) and BN254 (xi = u+9).
//! Library values are *constructed* from model coefficients with the public
//! `new` constructors and compared with `==`; coefficient accessors are
//! checked where they exist.

use ff::{Field, PrimeField};
use num_bigint::BigUint;
use num_traits::{One, Zero};
use proptest::prelude::*;
use serde::{Deserialize, Serialize};
use subtle::ConstantTimeEq;
use vp_alg::*;
use vpcore::{ensure, CaseResult, Failure, Prop, Verdict};

#[derive(Clone, Debug, Serialize, Deserialize)]
pub struct TowerCase {
    a: Vec<Int>, // 12 coefficients
    b: Vec<Int>,
    shape: String, // how sparse
    e: u64,
}

fn coeffs(p: BigUint) -> BoxedStrategy<(Vec<Int>, String)> {
    let dense = proptest::collection::vec(operand(p.clone(), vec![]), 12).prop_map(|v| (v, "dense".to_string()));
    let p2 = p.clone();
    // sparse: only some coefficients non-zero (elements of sub-fields, sparse-mul shapes)
    let sparse = (proptest::collection::vec(operand(p2, vec![]), 12), any::<u16>()).prop_map(|(mut v, mask)| {
        for (i, c) in v.iter_mut().enumerate() {
            if mask & (1 << i) == 0 {
                *c = Int::of("0", &BigUint::zero());
            }
        }
        (v, format!("sparse-{:03x}", mask & 0xfff))
    });
    let zero = Just((vec![Int::of("0", &BigUint::zero()); 12], "zero".to_string()));
    let one = Just({
        let mut v = vec![Int::of("0", &BigUint::zero()); 12];
        v[0] = Int::of("1", &BigUint::one());
        (v, "one".to_string())
    });
    prop_oneof![4 => dense, 4 => sparse, 1 => zero, 1 => one].boxed()
}

fn tower_strategy(p: BigUint) -> BoxedStrategy<TowerCase> {
    (coeffs(p.clone()), coeffs(p), prop_oneof![0u64..20, any::<u64>()])
        .prop_map(|((a, sa), (b, sb), e)| TowerCase {
            a,
            b,
            shape: format!("{sa}/{sb}"),
            e,
        })
        .boxed()
}

fn e2_of(v: &[Int]) -> E2 {
    [v[0].big(), v[1].big()]
}
fn e6_of(v: &[Int]) -> E6 {
    [e2_of(&v[0..2]), e2_of(&v[2..4]), e2_of(&v[4..6])]
}
fn e12_of(v: &[Int]) -> E12 {
    [e6_of(&v[0..6]), e6_of(&v[6..12])]
}

/// Generic ring checks of one level: `mk` builds the library value from the
/// model value.
#[allow(clippy::too_many_arguments)]
fn level<T, E>(
    name: &str,
    mk: &dyn Fn(&E) -> T,
    a: &E,
    b: &E,
    e: u64,
    add: &dyn Fn(&E, &E) -> E,
    sub: &dyn Fn(&E, &E) -> E,
    neg: &dyn Fn(&E) -> E,
    mul: &dyn Fn(&E, &E) -> E,
    is_zero: &dyn Fn(&E) -> bool,
    one: &E,
) -> Result<(), Failure>
where
    T: Field + ConstantTimeEq + std::iter::Sum<T> + std::iter::Product<T>,
    E: Clone + PartialEq + std::fmt::Debug,
{
    let sig = |op: &str| format!("{name}:{op}");
    let x = mk(a);
    let y = mk(b);
    macro_rules! chk {
        ($op:expr, $got:expr, $want:expr) => {{
            let got = $got;
            let want = mk(&$want);
            ensure!(got == want, sig($op), "{name} {}: a={a:?} b={b:?}: got {got:?}, model {want:?}", $op);
        }};
    }
    chk!("add", x + y, add(a, b));
    chk!("sub", x - y, sub(a, b));
    chk!("neg", -x, neg(a));
    chk!("mul", x * y, mul(a, b));
    chk!("mul_comm", y * x, mul(a, b));
    chk!("square", x.square(), mul(a, a));
    chk!("double", x.double(), add(a, a));
    chk!("cube", x.cube(), mul(&mul(a, a), a));
    let mut t = x;
    t += y;
    chk!("add_assign", t, add(a, b));
    let mut t = x;
    t -= y;
    chk!("sub_assign", t, sub(a, b));
    let mut t = x;
    t *= y;
    chk!("mul_assign", t, mul(a, b));
    let mut t = x;
    t *= x;
    chk!("mul_assign_self", t, mul(a, a));
    let mut t = x;
    t += &y;
    chk!("add_assign_ref", t, add(a, b));
    let mut t = x;
    t -= &y;
    chk!("sub_assign_ref", t, sub(a, b));
    let mut t = x;
    t *= &y;
    chk!("mul_assign_ref", t, mul(a, b));
    chk!("sum", [x, y, x].into_iter().sum::<T>(), add(&add(a, b), a));
    chk!("product", [x, y, x].into_iter().product::<T>(), mul(&mul(a, b), a));
    // pow by a small/random u64 against square-and-multiply in the model
    {
        let mut r = one.clone();
        for i in (0..64).rev() {
            r = mul(&r, &r);
            if (e >> i) & 1 == 1 {
                r = mul(&r, a);
            }
        }
        chk!("pow_vartime", x.pow_vartime([e]), r.clone());
        chk!("pow", x.pow([e]), r);
    }
    let inv: Option<T> = x.invert().into();
    ensure!(inv.is_some() == !is_zero(a), sig("invert"), "{name} invert: is_some={} for a={a:?}", inv.is_some());
    if let Some(i) = inv {
        ensure!(i * x == mk(one), sig("invert"), "{name} invert: x*inv != 1 for a={a:?}");
    }
    ensure!(bool::from(x.is_zero()) == is_zero(a), sig("is_zero"), "{name} is_zero a={a:?}");
    ensure!((x == y) == (a == b), sig("eq"), "{name} eq a={a:?} b={b:?}");
    ensure!(bool::from(x.ct_eq(&y)) == (a == b), sig("ct_eq"), "{name} ct_eq a={a:?} b={b:?}");
    ensure!(mk(one) == T::ONE, sig("ONE"), "{name} ONE");
    ensure!(bool::from(T::ZERO.is_zero()), sig("ZERO"), "{name} ZERO");
    Ok(())
}

macro_rules! tower_suite {
    ($p:expr, $tag:expr, $base:ty, $f2:ty, $f6:ty, $f12:ty, $xi:expr, $mk2:expr, $mk6:expr, $mk12:expr, $extra:expr) => {{
        let zp = Zp::new(modulus::<$base>());
        let beta = zp.neg(&BigUint::one());
        let m2 = Ext2 { f: zp.clone(), beta };
        let m6 = Ext6 { e2: m2.clone(), xi: [BigUint::from($xi as u32), BigUint::one()] };
        let m12 = Ext12 { e6: m6.clone() };
        let mk2 = |v: &E2| -> $f2 { $mk2(from_big::<$base>(&v[0]), from_big::<$base>(&v[1])) };
        let mk6 = |v: &E6| -> $f6 { $mk6(mk2(&v[0]), mk2(&v[1]), mk2(&v[2])) };
        let mk12 = |v: &E12| -> $f12 { $mk12(mk6(&v[0]), mk6(&v[1])) };
        let extra: &(dyn Fn(&Ext2, &E2, &E2) -> Result<(), Failure> + Sync) = &$extra;
        $p.sub(
            &format!("{}.tower", $tag),
            "12 base-field coefficients per operand (dense, sparse by random mask, zero, one; coefficients from the boundary classes of Z_p); Fp2/Fp6/Fp12 ring operations, inversion, powers and equality against the schoolbook tower model; non-trivial = both operands non-zero in the top level; distinct by case digest",
            $p.tier.pick(2_400, 80_000),
            16,
            || tower_strategy(modulus::<$base>()),
            |c: &TowerCase| -> CaseResult {
                let (a2, b2) = (e2_of(&c.a), e2_of(&c.b));
                level::<$f2, E2>(
                    &format!("{}::Fp2", $tag), &mk2, &a2, &b2, c.e,
                    &|a, b| m2.add(a, b), &|a, b| m2.sub(a, b), &|a| m2.neg(a), &|a, b| m2.mul(a, b),
                    &|a| m2.is_zero(a), &m2.one(),
                )?;
                extra(&m2, &a2, &b2)?;
                let (a6, b6) = (e6_of(&c.a), e6_of(&c.b));
                level::<$f6, E6>(
                    &format!("{}::Fp6", $tag), &mk6, &a6, &b6, c.e,
                    &|a, b| m6.add(a, b), &|a, b| m6.sub(a, b), &|a| m6.neg(a), &|a, b| m6.mul(a, b),
                    &|a| m6.is_zero(a), &m6.one(),
                )?;
                let (a12, b12) = (e12_of(&c.a), e12_of(&c.b));
                level::<$f12, E12>(
                    &format!("{}::Fp12", $tag), &mk12, &a12, &b12, c.e,
                    &|a, b| m12.add(a, b), &|a, b| m12.sub(a, b), &|a| m12.neg(a), &|a, b| m12.mul(a, b),
                    &|a| m12.is_zero(a), &m12.one(),
                )?;
                let nt = !m12.is_zero(&a12) && !m12.is_zero(&b12);
                Ok(Verdict::of(nt, c.shape.split('-').next().unwrap_or("").to_string()).with($tag))
            },
        );
    }};
}

pub fn run(p: &Prop) {
    {
        use midnight_curves::bls12_381::{Fp12, Fp2, Fp6};
        use midnight_curves::Fp;
        tower_suite!(
            p, "bls12_381", Fp, Fp2, Fp6, Fp12, 1u32,
            |a, b| Fp2::new(a, b),
            |a, b, c| Fp6::new(a, b, c),
            |a, b| Fp12::new(a, b),
            |m2: &Ext2, a: &E2, _b: &E2| -> Result<(), Failure> {
                // accessors, sqrt and quadratic-residue test of Fp2
                let x = Fp2::new(from_big::<Fp>(&a[0]), from_big::<Fp>(&a[1]));
                ensure!(to_big(&x.c0()) == a[0] && to_big(&x.c1()) == a[1], "bls12_381::Fp2:accessors", "c0/c1 of {a:?}");
                let sq = m2.is_square(a);
                let r: Option<Fp2> = x.sqrt().into();
                ensure!(r.is_some() == sq, "bls12_381::Fp2:sqrt", "sqrt({a:?}).is_some()={} model square={sq}", r.is_some());
                if let Some(r) = r {
                    ensure!(r.square() == x, "bls12_381::Fp2:sqrt", "sqrt({a:?})^2 != x");
                }
                ensure!(x.is_quad_res() == sq, "bls12_381::Fp2:is_quad_res", "is_quad_res({a:?}) = {} model {sq}", x.is_quad_res());
                // norm = a0^2 + a1^2
                let n = m2.f.add(&m2.f.mul(&a[0], &a[0]), &m2.f.mul(&a[1], &a[1]));
                ensure!(to_big(&x.norm()) == n, "bls12_381::Fp2:norm", "norm({a:?})");
                // mul_by_nonresidue multiplies by xi = u+1
                let mut t = x;
                t.mul_by_nonresidue();
                let w = m2.mul(a, &[BigUint::one(), BigUint::one()]);
                ensure!(t == Fp2::new(from_big::<Fp>(&w[0]), from_big::<Fp>(&w[1])), "bls12_381::Fp2:mul_by_nonresidue", "mul_by_nonresidue({a:?})");
                // frobenius (power 1) = conjugation since u^p = -u
                let mut t = x;
                t.frobenius_map(1);
                ensure!(t == Fp2::new(from_big::<Fp>(&a[0]), from_big::<Fp>(&m2.f.neg(&a[1]))), "bls12_381::Fp2:frobenius", "frobenius_map(1)({a:?})");
                ensure!(x.mul3() == x + x + x, "bls12_381::Fp2:mul3", "mul3({a:?})");
                ensure!(x.mul8() == x.double().double().double(), "bls12_381::Fp2:mul8", "mul8({a:?})");
                Ok(())
            }
        );
    }
    {
        use midnight_curves::bn256::{Fq, Fq12, Fq2, Fq6};
        tower_suite!(
            p, "bn256", Fq, Fq2, Fq6, Fq12, 9u32,
            |a, b| Fq2::new(a, b),
            |a, b, c| Fq6::new(a, b, c),
            |a, b| Fq12::new(a, b),
            |m2: &Ext2, a: &E2, _b: &E2| -> Result<(), Failure> {
                let x = Fq2::new(from_big::<Fq>(&a[0]), from_big::<Fq>(&a[1]));
                let sq = m2.is_square(a);
                let r: Option<Fq2> = x.sqrt().into();
                ensure!(r.is_some() == sq, "bn256::Fq2:sqrt", "sqrt({a:?}).is_some()={} model square={sq}", r.is_some());
                if let Some(r) = r {
                    ensure!(r.square() == x, "bn256::Fq2:sqrt", "sqrt({a:?})^2 != x");
                }
                Ok(())
            }
        );
    }
    let _ = <midnight_curves::Fp as PrimeField>::NUM_BITS;
}
