#![no_main]
//! `ZkirRelation::read` on arbitrary text + `used_chips` on programs that load.
use libfuzzer_sys::fuzz_target;
use midnight_zkir::ZkirRelation;

fuzz_target!(|data: &[u8]| {
    c16_fuzz::init();
    let Ok(text) = std::str::from_utf8(data) else { return };
    // the API wants &'static str
    let text: &'static str = Box::leak(text.to_string().into_boxed_str());
    let res = c16_fuzz::guard("ZkirRelation::read", || ZkirRelation::read(text));
    if let Some(Ok(rel)) = res {
        c16_fuzz::zkir_followups(&rel);
    }
    // give the leaked text back
    unsafe { drop(Box::from_raw(text as *const str as *mut str)) };
});
