#!/bin/bash
# Two-phase variant of seeded_eval.sh for evaluating a change as soon as it arrives:
#   seeded_eval2.sh prep <tag> <PROP>            scratch worktree of /repo HEAD + harness copy, built (warm) in the background of the seeding
#   seeded_eval2.sh run  <tag> <PROP> <patch> [tier] [seed]   applies the patch there, rebuilds incrementally, runs the check
#   seeded_eval2.sh clean <tag>
set -u
MODE=$1; TAG=$2; WT=/tmp/ev2-$TAG-wt; H=/tmp/ev2-$TAG-h
export CARGO_TARGET_DIR=/tmp/ev2-$TAG-target CARGO_NET_OFFLINE=true
case $MODE in
prep)
  BIN="$(echo "$3" | tr A-Z a-z)"
  git -C /repo worktree add -q "$WT" HEAD || exit 2
  rsync -a --exclude 'target*' --exclude 'fuzz' /verif/harness/ "$H/"
  grep -rl '/repo/' "$H" --include=Cargo.toml | xargs sed -i "s#/repo/#$WT/#g"
  SRC=$(ls "$H"/*/src/bin/$BIN.rs | head -1); CRATE=$(echo "$SRC" | sed "s#$H/##" | cut -d/ -f1)
  ( cd "$H" && cargo build --release --offline -p "$CRATE" --bin "$BIN" ) > "$H/build.log" 2>&1 || { echo "BUILD FAILED"; tail -30 "$H/build.log"; exit 2; }
  echo "prepared $TAG";;
run)
  BIN="$(echo "$3" | tr A-Z a-z)"; PATCH="$(readlink -f "$4")"; TIER="${5:-quick}"; SEED="${6:-1}"
  git -C "$WT" apply "$PATCH" || { echo "patch does not apply"; exit 2; }
  SRC=$(ls "$H"/*/src/bin/$BIN.rs | head -1); CRATE=$(echo "$SRC" | sed "s#$H/##" | cut -d/ -f1)
  ( cd "$H" && cargo build --release --offline -p "$CRATE" --bin "$BIN" ) > "$H/build.log" 2>&1 || { echo "BUILD FAILED"; tail -30 "$H/build.log"; exit 2; }
  mkdir -p "$H/vd"; cp /verif/known_findings.json "$H/vd/"
  cd /verif
  VP_VERIF_DIR="$H/vd" VERIF_SEED="$SEED" "$CARGO_TARGET_DIR/release/$BIN" $TIER ${EXTRA:-} 2>&1 | grep -v "^proptest" | cut -c1-600 | grep -E "VIOLATION|KNOWN|signature=|^C[0-9]+ " | head -20
  echo "exit=${PIPESTATUS[0]}";;
clean)
  git -C /repo worktree remove --force "$WT" 2>/dev/null; rm -rf "$H" "$WT" "$CARGO_TARGET_DIR";;
esac
