//! S3 — "wrong output + linear repair" adversary ("S3 proposes, S2 replays").
//!
//! Starting from the honest run of an op, a public *output* is given another
//! value by faulting the assignment that feeds it, and the run is replayed
//! under that plan (the library's own witness generation recomputes everything
//! downstream). If the replay is rejected, the harness computes the
//! *residuals* of the replayed table: the values of the gate polynomials that
//! do not vanish around the cells that changed (evaluated with
//! `Expression::evaluate` over the mock prover's tables) and the differences
//! of cells that a copy constraint ties together. It then looks for another
//! assignment (a hint computed off-circuit by the library: quotient, carry,
//! inverse, bit, ...) in which the first residual is *affine* — established
//! black-box by replaying with the candidate at v+1 and v+2, so that the
//! effect of the candidate is propagated by the library's own witness
//! generation — solves for it, adds it to the plan and replays. Depth-first,
//! bounded. Together with walking the whole range of small outputs this finds
//! "wrap-around" witnesses that satisfy the intended integer relation only
//! modulo p while passing every range check.
//!
//! Every verdict is `MockProver::verify()` on a replayed run; the harness
//! evaluator only guides the search and cannot cause an alarm by itself.

use std::collections::{HashMap, HashSet};

use ff::Field;
use midnight_proofs::{
    dev::{CellValue, MockProver},
    plonk::{Any, Expression},
};
use num_bigint::BigUint;
use rayon::iter::ParallelIterator;
use vpcore::{Failure, SplitMix, Verdict};

use crate::e2::*;

#[derive(Clone, Debug, Default)]
pub struct S3Stats {
    pub searches: usize,
    pub replays: usize,
    pub repairs_found: usize,
    pub dead_ends: usize,
    pub accepted_correct: usize,
}

fn cell(p: &MockProver<F>, col: usize, row: usize) -> F {
    match p.advice()[col][row] {
        CellValue::Assigned(v) => v,
        _ => F::ZERO,
    }
}

fn eval(p: &MockProver<F>, e: &Expression<F>, row: usize) -> F {
    let n = p.advice().first().map(|c| c.len()).unwrap_or(1) as i64;
    let at = |rot: i32| ((row as i64 + rot as i64).rem_euclid(n)) as usize;
    e.evaluate(
        &|c| c,
        &|_| F::ZERO, // selectors are compiled into fixed columns by MockProver
        &|q| match p.fixed()[q.column_index()][at(q.rotation().0)] {
            CellValue::Assigned(v) => v,
            _ => F::ZERO,
        },
        &|q| cell(p, q.column_index(), at(q.rotation().0)),
        &|q| match &p.instance()[q.column_index()][at(q.rotation().0)] {
            midnight_proofs::dev::InstanceValue::Assigned(v) => *v,
            _ => F::ZERO,
        },
        &|_| F::ZERO,
        &|a| -a,
        &|a, b| a + b,
        &|a, b| a * b,
        &|a, s| a * s,
    )
}

/// Identity of a residual: a gate polynomial at a row, or a copy constraint
/// between two cells (permutation column index, row).
#[derive(Clone, Copy, Debug, PartialEq, Eq, Hash)]
enum ResId {
    Gate(usize, usize, usize),
    Copy(usize, usize),
}

struct Tables {
    mapping: Vec<Vec<(usize, usize)>>,
    cols: Vec<midnight_proofs::plonk::Column<Any>>,
}

fn value_at(p: &MockProver<F>, t: &Tables, c: usize, r: usize) -> Option<F> {
    let col = t.cols[c];
    let v = match col.column_type() {
        Any::Advice(_) => p.advice()[col.index()][r],
        Any::Fixed => p.fixed()[col.index()][r],
        Any::Instance => {
            return match &p.instance()[col.index()][r] {
                midnight_proofs::dev::InstanceValue::Assigned(v) => Some(*v),
                _ => Some(F::ZERO),
            }
        }
    };
    match v {
        CellValue::Assigned(v) => Some(v),
        _ => None,
    }
}

fn residual(p: &MockProver<F>, t: &Tables, id: ResId) -> F {
    match id {
        ResId::Gate(g, pi, row) => eval(p, &p.cs().gates()[g].polynomials()[pi], row),
        ResId::Copy(c, r) => {
            let (c2, r2) = t.mapping[c][r];
            match (value_at(p, t, c, r), value_at(p, t, c2, r2)) {
                (Some(a), Some(b)) => a - b,
                _ => F::ZERO,
            }
        }
    }
}

/// Non-zero residuals: gates at the rows around changed cells, and all copy
/// constraints.
fn residuals(honest: &MockProver<F>, now: &MockProver<F>, t: &Tables) -> Vec<ResId> {
    let usable = now.usable_rows().clone();
    let mut rows = HashSet::new();
    for (c, col) in now.advice().iter().enumerate() {
        for r in usable.clone() {
            if col[r] != honest.advice()[c][r] {
                for d in -4i64..=4 {
                    let rr = r as i64 + d;
                    if rr >= 0 && (rr as usize) < usable.end {
                        rows.insert(rr as usize);
                    }
                }
            }
        }
    }
    let mut rows: Vec<usize> = rows.into_iter().collect();
    rows.sort();
    let mut out = vec![];
    for (c, col) in t.mapping.iter().enumerate() {
        for r in usable.clone() {
            if col[r] != (c, r) && residual(now, t, ResId::Copy(c, r)) != F::ZERO {
                out.push(ResId::Copy(c, r));
            }
        }
    }
    for (gi, g) in now.cs().gates().iter().enumerate() {
        for (pi, poly) in g.polynomials().iter().enumerate() {
            for &r in &rows {
                if eval(now, poly, r) != F::ZERO {
                    out.push(ResId::Gate(gi, pi, r));
                }
            }
        }
    }
    out
}

/// Candidate wrong values for an output whose honest value is `y`.
fn wrong_outputs(y: F, rng: &mut SplitMix, walk: u64) -> Vec<F> {
    let yb = f_to_big(&y);
    let mut v = vec![];
    if yb < BigUint::from(1u32 << 12) {
        // small declared range (bit, byte, remainder, comparison result): walk it
        for c in 0..walk {
            v.push(F::from(c));
        }
        v.push(y + F::ONE);
        v.push(y + F::from(2));
        v.push(y + F::from(3));
    } else {
        v.push(y + F::ONE);
        v.push(y - F::ONE);
        v.push(F::ZERO);
        v.push(F::ONE);
    }
    v.push(F::from(rng.next_u64()));
    let mut seen = HashSet::new();
    v.retain(|c| *c != y && seen.insert(f_to_big(c)));
    v
}

struct Ctx<'a, O: Op> {
    op: &'a O,
    x: &'a [BigUint],
    inst: &'a [F],
    honest: &'a MockProver<F>,
    tables: &'a Tables,
    /// assignment index -> absolute advice cell
    assign_cell: &'a HashMap<usize, (usize, usize)>,
    n_assign: usize,
    window: usize,
    max_candidates: usize,
}

fn violation<O: Op>(cx: &Ctx<O>, plan: &HashMap<usize, Fault<F>>, run: &Run) -> Failure {
    let cls = cx.op.classify(&run.public).unwrap_or_else(|| "unclassified".into());
    let mut pl: Vec<_> = plan.iter().map(|(k, v)| format!("{k}:{v:?}")).collect();
    pl.sort();
    Failure::new(
        format!("{}:unsound:S3:{cls}", cx.op.name()),
        format!(
            "MockProver accepts an assignment found by output substitution + linear repair whose public values contradict the reference: inputs x={:?}; plan (assignment index -> value) {pl:?}; exposed {:?}; honest instance {:?}",
            cx.x, run.public, cx.inst
        ),
    )
}

fn search<O: Op>(cx: &Ctx<O>, plan: HashMap<usize, Fault<F>>, anchor: usize, depth: usize, budget: &mut usize, stats: &mut S3Stats) -> Result<(), Failure> {
    if *budget == 0 {
        return Ok(());
    }
    *budget -= 1;
    stats.replays += 1;
    let (run, prover) = run_faulted_with_prover(cx.op, cx.x, cx.inst.len(), plan.clone());
    let Some(prover) = prover else { return Ok(()) }; // aborted witness generation
    if run.outcome.accepted() {
        if run.public == cx.inst {
            return Ok(());
        }
        if cx.op.judge(&run.public) {
            stats.accepted_correct += 1;
            return Ok(());
        }
        return Err(violation(cx, &plan, &run));
    }
    if depth == 0 {
        stats.dead_ends += 1;
        return Ok(());
    }
    let res = residuals(cx.honest, &prover, cx.tables);
    let Some(&target) = res.first() else {
        stats.dead_ends += 1; // only lookups are violated
        return Ok(());
    };
    let rho0 = residual(&prover, cx.tables, target);

    // candidates: assignments around the anchor (hints are assigned close to their use)
    let lo = anchor.saturating_sub(cx.window);
    let hi = (anchor + cx.window).min(cx.n_assign.saturating_sub(1));
    let mut tried = 0;
    // nearest first
    let mut cands: Vec<usize> = (lo..=hi).filter(|i| !plan.contains_key(i)).collect();
    cands.sort_by_key(|i| (*i as i64 - anchor as i64).abs());
    for i in cands {
        if *budget < 3 || tried >= cx.max_candidates {
            break;
        }
        let Some(&(c, r)) = cx.assign_cell.get(&i) else { continue };
        let v0 = cell(&prover, c, r);
        let probe = |delta: F, budget: &mut usize, stats: &mut S3Stats| -> Option<F> {
            *budget = budget.saturating_sub(1);
            stats.replays += 1;
            let mut p = plan.clone();
            p.insert(i, Fault::Set(v0 + delta));
            let (_, pr) = run_faulted_with_prover(cx.op, cx.x, cx.inst.len(), p);
            pr.map(|pr| residual(&pr, cx.tables, target))
        };
        tried += 1;
        let Some(rho1) = probe(F::ONE, budget, stats) else { continue };
        let a = rho1 - rho0;
        if a == F::ZERO {
            continue;
        }
        let Some(rho2) = probe(F::from(2), budget, stats) else { continue };
        if rho2 - rho1 != a {
            continue; // not affine in this assignment
        }
        let v_star = v0 - rho0 * a.invert().unwrap();
        stats.repairs_found += 1;
        let mut p2 = plan.clone();
        p2.insert(i, Fault::Set(v_star));
        search(cx, p2, anchor, depth - 1, budget, stats)?;
    }
    Ok(())
}

/// Runs the S3 adversary on one input tuple.
#[allow(clippy::too_many_arguments)]
pub fn check_s3<O: Op>(op: &O, x: &[BigUint], seed: u64, max_outputs: usize, depth: usize, budget_per_search: usize, walk: u64) -> Result<(S3Stats, Verdict), Failure> {
    let mut stats = S3Stats::default();
    let Some(inst) = op.reference(x) else {
        return Ok((stats, Verdict::trivial("out-of-domain-input-skipped")));
    };
    let (honest_run, honest) = run_faulted_with_prover(op, x, inst.len(), HashMap::new());
    let Some(honest) = honest else {
        return Err(Failure::new(format!("{}:incomplete:{}", op.name(), honest_run.outcome.label()), format!("honest run failed: {:?}", honest_run.outcome)));
    };
    if !honest_run.outcome.accepted() || honest_run.public != inst {
        return Err(Failure::new(format!("{}:readback-mismatch", op.name()), format!("{:?} {:?} vs {:?}", honest_run.outcome, honest_run.public, inst)));
    }
    let mut cell_to_assign = HashMap::new();
    let mut assign_cell = HashMap::new();
    for rec in &honest_run.log {
        if let Some(r) = rec.abs_row {
            cell_to_assign.insert((rec.column, r), rec.index);
            assign_cell.insert(rec.index, (rec.column, r));
        }
    }
    let perm = honest.permutation();
    let tables = Tables { cols: perm.columns().to_vec(), mapping: perm.mapping().map(|c| c.collect::<Vec<_>>()).collect() };
    let ci = tables.cols.iter().position(|c| *c.column_type() == Any::Instance && c.index() == 1);
    let mut out_assign: Vec<(usize, usize)> = vec![]; // (instance position, assignment index)
    if let Some(ci) = ci {
        for pos in op.n_input_scalars().min(inst.len())..inst.len() {
            let start = (ci, pos);
            let mut cur = tables.mapping[start.0][start.1];
            let mut steps = 0;
            // earliest assignment in the copy class: the cell the value was first written to
            let mut best: Option<usize> = None;
            while cur != start && steps < 1 << 16 {
                let col = tables.cols[cur.0];
                if let Any::Advice(_) = col.column_type() {
                    if let Some(&idx) = cell_to_assign.get(&(col.index(), cur.1)) {
                        best = Some(best.map_or(idx, |b: usize| b.min(idx)));
                    }
                }
                cur = tables.mapping[cur.0][cur.1];
                steps += 1;
            }
            if let Some(idx) = best {
                out_assign.push((pos, idx));
            }
        }
    }
    let mut rng = SplitMix(seed);
    let mut chosen = out_assign.clone();
    while chosen.len() > max_outputs {
        let i = rng.below(chosen.len() as u64) as usize;
        chosen.remove(i);
    }
    let cx = Ctx {
        op,
        x,
        inst: &inst,
        honest: &honest,
        tables: &tables,
        assign_cell: &assign_cell,
        n_assign: honest_run.log.len(),
        window: 24,
        max_candidates: 48,
    };
    for (pos, idx) in chosen {
        for y in wrong_outputs(inst[pos], &mut rng, walk) {
            stats.searches += 1;
            let mut budget = budget_per_search;
            search(&cx, HashMap::from([(idx, Fault::Set(y))]), idx, depth, &mut budget, &mut stats)?;
        }
    }
    let nt = stats.repairs_found > 0;
    Ok((stats.clone(), Verdict::of(nt, "S3").with(op.name())))
}
