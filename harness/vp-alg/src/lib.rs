//! Algebra layer checks (C10–C13): shared utilities.

pub mod model;

use ff::PrimeField;
use num_bigint::BigUint;
use num_traits::{One, Zero};
use proptest::prelude::*;
use serde::{Deserialize, Serialize};

pub use model::*;

/// Byte order of `PrimeField::Repr`, detected from the encoding of 1 and
/// cross-checked against `from_u128` / `from_str_vartime` in C10.
#[derive(Clone, Copy, Debug, PartialEq, Eq)]
pub enum Endian {
    Little,
    Big,
}

pub fn repr_endianness<F: PrimeField>() -> Endian {
    let r = F::ONE.to_repr();
    let b = r.as_ref();
    if b[0] == 1 {
        Endian::Little
    } else {
        assert_eq!(b[b.len() - 1], 1, "cannot detect repr endianness");
        Endian::Big
    }
}

pub fn repr_len<F: PrimeField>() -> usize {
    F::ONE.to_repr().as_ref().len()
}

pub fn modulus<F: PrimeField>() -> BigUint {
    let s = F::MODULUS.trim_start_matches("0x");
    BigUint::parse_bytes(s.as_bytes(), 16).expect("MODULUS is hex")
}

/// Field element -> integer in [0, p) through the canonical encoding.
pub fn to_big<F: PrimeField>(x: &F) -> BigUint {
    let r = x.to_repr();
    match repr_endianness::<F>() {
        Endian::Little => BigUint::from_bytes_le(r.as_ref()),
        Endian::Big => BigUint::from_bytes_be(r.as_ref()),
    }
}

/// Bytes of the canonical-encoding shape for an integer (no range check).
pub fn big_to_repr_bytes<F: PrimeField>(v: &BigUint) -> Option<Vec<u8>> {
    let n = repr_len::<F>();
    let mut b = v.to_bytes_le();
    if b.len() > n {
        return None;
    }
    b.resize(n, 0);
    if repr_endianness::<F>() == Endian::Big {
        b.reverse();
    }
    Some(b)
}

/// Integer -> field element through `from_repr` (None if the decoder refuses
/// or the integer does not fit the encoding).
pub fn from_big_checked<F: PrimeField>(v: &BigUint) -> Option<F> {
    let bytes = big_to_repr_bytes::<F>(v)?;
    let mut r = F::Repr::default();
    r.as_mut().copy_from_slice(&bytes);
    Option::from(F::from_repr(r))
}

/// Integer (reduced first) -> field element.
pub fn from_big<F: PrimeField>(v: &BigUint) -> F {
    let p = modulus::<F>();
    from_big_checked::<F>(&(v % &p)).expect("from_repr of a reduced value")
}

/// Serializable operand: little-endian bytes of an integer.
#[derive(Clone, Debug, Serialize, Deserialize, PartialEq, Eq, Hash)]
pub struct Int {
    pub class: String,
    #[serde(with = "hexbytes")]
    pub le: Vec<u8>,
}

impl Int {
    pub fn big(&self) -> BigUint {
        BigUint::from_bytes_le(&self.le)
    }
    pub fn of(class: &str, v: &BigUint) -> Int {
        Int {
            class: class.into(),
            le: v.to_bytes_le(),
        }
    }
}

pub mod hexbytes {
    use serde::{Deserialize, Deserializer, Serializer};
    pub fn serialize<S: Serializer>(v: &Vec<u8>, s: S) -> Result<S::Ok, S::Error> {
        s.serialize_str(&hex::encode(v))
    }
    pub fn deserialize<'de, D: Deserializer<'de>>(d: D) -> Result<Vec<u8>, D::Error> {
        let s = String::deserialize(d)?;
        hex::decode(s).map_err(serde::de::Error::custom)
    }
}

/// Boundary representatives of Z_p (as integers in [0,p)), labelled.
pub fn boundary_values(p: &BigUint, extra: &[(&str, BigUint)]) -> Vec<(String, BigUint)> {
    let one = BigUint::one();
    let mut v: Vec<(String, BigUint)> = vec![
        ("0".into(), BigUint::zero()),
        ("1".into(), one.clone()),
        ("2".into(), BigUint::from(2u32)),
        ("p-1".into(), p - 1u32),
        ("p-2".into(), p - 2u32),
        ("(p-1)/2".into(), (p - 1u32) >> 1),
        ("(p+1)/2".into(), (p + 1u32) >> 1),
    ];
    let bits = p.bits();
    let mut k = 64;
    while k < bits {
        let x = &one << k;
        if &x + 1u32 < *p {
            v.push((format!("2^{k}-1"), &x - 1u32));
            v.push((format!("2^{k}"), x.clone()));
            v.push((format!("2^{k}+1"), &x + 1u32));
        }
        k += 64;
    }
    // all-ones in the low limbs, Montgomery radii
    let nlimbs = bits.div_ceil(64);
    let r = (&one << (64 * nlimbs)) % p;
    v.push(("R".into(), r.clone()));
    v.push(("R^2".into(), (&r * &r) % p));
    v.push(("R^3".into(), (&r * &r * &r) % p));
    v.push(("ones".into(), ((&one << (bits - 1)) - 1u32) % p));
    for (n, x) in extra {
        v.push((n.to_string(), x % p));
    }
    v
}

/// Strategy for an operand of Z_p: a boundary representative (p = 1/2) or
/// a uniform value obtained by reducing 2*len random bytes.
pub fn operand(p: BigUint, extra: Vec<(String, BigUint)>) -> BoxedStrategy<Int> {
    let extra_ref: Vec<(&str, BigUint)> = extra.iter().map(|(a, b)| (a.as_str(), b.clone())).collect();
    let bv = boundary_values(&p, &extra_ref);
    let nbytes = (p.bits() as usize).div_ceil(8) + 8;
    let p2 = p.clone();
    prop_oneof![
        (0..bv.len()).prop_map(move |i| Int::of(&bv[i].0, &bv[i].1)),
        proptest::collection::vec(any::<u8>(), nbytes)
            .prop_map(move |b| Int::of("random", &(BigUint::from_bytes_le(&b) % &p2))),
        // small values
        (0u64..1000).prop_map(|v| Int::of("small", &BigUint::from(v))),
        // p - small
        (1u64..1000).prop_map(move |v| Int::of("p-small", &(&p - v))),
    ]
    .boxed()
}

pub fn is_boundary(i: &Int) -> bool {
    i.class != "random"
}
pub mod curvemodel;

pub mod c12_msm;
pub mod c11core;
