//! C07 — hash gadgets: ops, references, and the engine helpers they need.
//!
//! * byte hashes reachable through `ZkStdLib` are `e2::Op`s ([`ByteHash`]);
//! * chips the standard library does not expose (RIPEMD-160, the
//!   variable-length SHA-256 / Poseidon gadgets, the Poseidon sponge) are
//!   [`ScratchOp`]s: `FromScratch` circuits with the same two instance columns
//!   as the standard library (`[committed, plain]`);
//! * [`Target`] abstracts over both so that the completeness / S1 / S2 helpers
//!   of this module work on either. They mirror `e2` (same oracle: the values
//!   exposed by a run accepted by `MockProver::verify()` must be judged
//!   correct), with two additions needed for hashes:
//!     - S1 is run on ONE synthesised prover: only the instance column changes
//!       between the wrong-claim runs, so the instance cells are overwritten
//!       (`instance_mut`) and the cheap permutation-only check
//!       `verify_at_rows(∅, ∅)` is tried first. Its failures are a subset of
//!       the failures of `verify()`, so a rejection there is a rejection by
//!       `verify()`; an acceptance there is always re-judged by the full
//!       `verify()` before anything is reported.
//!     - a *base plan* of `Set` faults lets an op choose unconstrained witness
//!       cells (the filler of an `AssignedVector`, whose cells are not
//!       reachable through the public API), and an *observed input* side
//!       channel reports the logical content of such a vector
//!       (`InnerValue::value()`) to the judge.
//! * references: `sha2`, `sha3`, `ripemd`, `blake2b_simd`; a textbook Poseidon
//!   over `num-bigint` ([`tb_permutation`]) and the Grain-LFSR parameter
//!   generation of the Poseidon reference scripts ([`grain_parameters`]).

use std::{cell::RefCell, collections::HashMap, sync::{Mutex, OnceLock}};

use ff::Field;
use midnight_circuits::{
    field::{decomposition::chip::P2RDecompositionChip, NativeChip, NativeGadget},
    hash::{
        poseidon::{constants::PoseidonField, PoseidonChip, VarLenPoseidonGadget},
        ripemd160::RipeMD160Chip,
        sha256::VarLenSha256Gadget,
    },
    instructions::{
        hash::VarHashInstructions, AssignmentInstructions, HashInstructions, PublicInputInstructions, SpongeInstructions, VectorInstructions,
    },
    testing_utils::FromScratch,
    types::{AssignedByte, AssignedNative, AssignedVector, InnerValue},
    vec::vector_gadget::VectorGadget,
};
use midnight_proofs::{
    circuit::{verif_hooks, Layouter, SimpleFloorPlanner, Value},
    dev::{CellValue, InstanceValue, MockProver},
    plonk::{k_from_circuit, Any, Circuit, Column, ConstraintSystem, Error, Instance},
};
use midnight_zk_stdlib::{MidnightCircuit, ZkStdLib, ZkStdLibArch};
use num_bigint::BigUint;
use num_traits::{One, ToPrimitive, Zero};
use rayon::iter::ParallelIterator;
use serde::{Deserialize, Serialize};
use sha2::Digest;
use vpcore::{CaseResult, Failure, SplitMix, Verdict};

use crate::e2::{big_to_f, f_to_big, fault_values, modulus, op_k, AssignRecord, Fault, Op, OpRel, Outcome, S2Stats, F};

type NG = NativeGadget<F, P2RDecompositionChip<F>, NativeChip<F>>;

// ===========================================================================
// Reference digests

#[derive(Clone, Copy, Debug, PartialEq, Eq, Hash, Serialize, Deserialize)]
pub enum HashKind {
    Sha256,
    Sha512,
    Sha3_256,
    Keccak256,
    Blake2b256,
    Blake2b512,
    Ripemd160,
}

impl HashKind {
    pub const STD: [HashKind; 6] = [HashKind::Sha256, HashKind::Sha512, HashKind::Sha3_256, HashKind::Keccak256, HashKind::Blake2b256, HashKind::Blake2b512];

    pub fn name(&self) -> &'static str {
        match self {
            HashKind::Sha256 => "sha2_256",
            HashKind::Sha512 => "sha2_512",
            HashKind::Sha3_256 => "sha3_256",
            HashKind::Keccak256 => "keccak_256",
            HashKind::Blake2b256 => "blake2b_256",
            HashKind::Blake2b512 => "blake2b_512",
            HashKind::Ripemd160 => "ripemd160",
        }
    }
    /// Block (or rate) size in bytes.
    pub fn block(&self) -> usize {
        match self {
            HashKind::Sha256 | HashKind::Ripemd160 => 64,
            HashKind::Sha512 | HashKind::Blake2b256 | HashKind::Blake2b512 => 128,
            HashKind::Sha3_256 | HashKind::Keccak256 => 136,
        }
    }
    /// Lengths at which the padding behaviour changes (last length fitting in
    /// the block with its padding, first one that does not, full blocks).
    pub fn boundaries(&self, max_blocks: usize) -> Vec<usize> {
        let b = self.block();
        // bytes of mandatory padding in the last block besides the data
        let tail: usize = match self {
            HashKind::Sha256 | HashKind::Ripemd160 => 9,
            HashKind::Sha512 => 17,
            HashKind::Sha3_256 | HashKind::Keccak256 => 1,
            HashKind::Blake2b256 | HashKind::Blake2b512 => 0,
        };
        let mut v = vec![0usize, 1];
        for m in 1..=max_blocks {
            let full = m * b;
            for d in [tail + 1, tail, tail.saturating_sub(1), 1, 0] {
                if full >= d {
                    v.push(full - d);
                }
            }
            if m < max_blocks {
                v.push(full + 1);
            }
        }
        v.sort();
        v.dedup();
        v
    }
    pub fn digest_len(&self) -> usize {
        match self {
            HashKind::Sha512 | HashKind::Blake2b512 => 64,
            HashKind::Ripemd160 => 20,
            _ => 32,
        }
    }
    pub fn is_padding_boundary(&self, len: usize) -> bool {
        self.boundaries(4).contains(&len) && len > 1
    }
    /// Reference digest (independent crates).
    pub fn digest(&self, msg: &[u8]) -> Vec<u8> {
        match self {
            HashKind::Sha256 => sha2::Sha256::digest(msg).to_vec(),
            HashKind::Sha512 => sha2::Sha512::digest(msg).to_vec(),
            HashKind::Sha3_256 => sha3::Sha3_256::digest(msg).to_vec(),
            HashKind::Keccak256 => sha3::Keccak256::digest(msg).to_vec(),
            HashKind::Blake2b256 => blake2b_simd::Params::new().hash_length(32).hash(msg).as_bytes().to_vec(),
            HashKind::Blake2b512 => blake2b_simd::Params::new().hash_length(64).hash(msg).as_bytes().to_vec(),
            HashKind::Ripemd160 => ripemd::Ripemd160::digest(msg).to_vec(),
        }
    }
}

fn bytes_of(x: &[BigUint]) -> Option<Vec<u8>> {
    x.iter().map(|b| b.to_u64().filter(|v| *v < 256).map(|v| v as u8)).collect()
}

fn bytes_to_f(b: &[u8]) -> Vec<F> {
    b.iter().map(|b| F::from(*b as u64)).collect()
}

fn decode_bytes(public: &[F]) -> Option<Vec<u8>> {
    public.iter().map(|f| f_to_big(f).to_u64().filter(|v| *v < 256).map(|v| v as u8)).collect()
}

fn byte_values(x: &Value<Vec<BigUint>>, n: usize) -> Vec<Value<u8>> {
    (0..n).map(|i| x.as_ref().map(|x| x[i].to_u64().unwrap_or(0) as u8)).collect()
}

// ===========================================================================
// (A) byte hashes through ZkStdLib

/// `digest = H(message)` for a message of `len` bytes: instance =
/// message bytes ‖ digest bytes (one scalar per byte, `AssignedByte`'s
/// public-input encoding).
#[derive(Clone, Debug)]
pub struct ByteHash {
    pub kind: HashKind,
    pub len: usize,
}

impl Op for ByteHash {
    fn name(&self) -> String {
        format!("{}(len={})", self.kind.name(), self.len)
    }
    fn arch(&self) -> ZkStdLibArch {
        let d = ZkStdLibArch::default();
        match self.kind {
            HashKind::Sha256 => ZkStdLibArch { sha2_256: true, ..d },
            HashKind::Sha512 => ZkStdLibArch { sha2_512: true, ..d },
            HashKind::Sha3_256 => ZkStdLibArch { sha3_256: true, ..d },
            HashKind::Keccak256 => ZkStdLibArch { keccak_256: true, ..d },
            HashKind::Blake2b256 | HashKind::Blake2b512 => ZkStdLibArch { blake2b: true, ..d },
            HashKind::Ripemd160 => panic!("RIPEMD-160 is not exposed by ZkStdLib"),
        }
    }
    fn circuit<L: Layouter<F>>(&self, std: &ZkStdLib, l: &mut L, x: Value<Vec<BigUint>>) -> Result<(), Error> {
        let input: Vec<AssignedByte<F>> = std.assign_many(l, &byte_values(&x, self.len))?;
        for b in &input {
            std.constrain_as_public_input(l, b)?;
        }
        let digest: Vec<AssignedByte<F>> = match self.kind {
            HashKind::Sha256 => std.sha2_256(l, &input)?.to_vec(),
            HashKind::Sha512 => std.sha2_512(l, &input)?.to_vec(),
            HashKind::Sha3_256 => std.sha3_256(l, &input)?.to_vec(),
            HashKind::Keccak256 => std.keccak_256(l, &input)?.to_vec(),
            HashKind::Blake2b256 => std.blake2b_256(l, &input)?.to_vec(),
            HashKind::Blake2b512 => std.blake2b_512(l, &input)?.to_vec(),
            HashKind::Ripemd160 => unreachable!(),
        };
        for b in &digest {
            std.constrain_as_public_input(l, b)?;
        }
        Ok(())
    }
    fn reference(&self, x: &[BigUint]) -> Option<Vec<F>> {
        if x.len() != self.len {
            return None;
        }
        let msg = bytes_of(x)?;
        let mut v = bytes_to_f(&msg);
        v.extend(bytes_to_f(&self.kind.digest(&msg)));
        Some(v)
    }
    fn n_input_scalars(&self) -> usize {
        self.len
    }
    fn decode_inputs(&self, public: &[F]) -> Option<Vec<BigUint>> {
        let b = decode_bytes(&public[..self.len.min(public.len())])?;
        Some(b.iter().map(|b| BigUint::from(*b)).collect())
    }
    fn classify(&self, public: &[F]) -> Option<String> {
        let n = self.len.min(public.len());
        match decode_bytes(public) {
            None => Some("non-byte-exposed".into()),
            Some(b) => {
                if b[n..] != self.kind.digest(&b[..n])[..] {
                    Some("wrong-digest".into())
                } else {
                    None
                }
            }
        }
    }
}

/// In-circuit fixed-length Poseidon through `ZkStdLib::poseidon`: instance =
/// inputs ‖ digest. Reference: the textbook sponge of this module.
#[derive(Clone, Debug)]
pub struct PoseidonFixed {
    pub n: usize,
}

impl Op for PoseidonFixed {
    fn name(&self) -> String {
        format!("poseidon(n={})", self.n)
    }
    fn arch(&self) -> ZkStdLibArch {
        ZkStdLibArch { poseidon: true, ..ZkStdLibArch::default() }
    }
    fn circuit<L: Layouter<F>>(&self, std: &ZkStdLib, l: &mut L, x: Value<Vec<BigUint>>) -> Result<(), Error> {
        let vals: Vec<Value<F>> = (0..self.n).map(|i| x.as_ref().map(|x| big_to_f(&x[i]))).collect();
        let input: Vec<AssignedNative<F>> = std.assign_many(l, &vals)?;
        for v in &input {
            std.constrain_as_public_input(l, v)?;
        }
        let h = std.poseidon(l, &input)?;
        std.constrain_as_public_input(l, &h)
    }
    fn reference(&self, x: &[BigUint]) -> Option<Vec<F>> {
        if x.len() != self.n {
            return None;
        }
        let p = modulus();
        let xs: Vec<BigUint> = x.iter().map(|v| v % &p).collect();
        let mut v: Vec<F> = xs.iter().map(big_to_f).collect();
        v.push(big_to_f(&tb_hash_fixed(&xs)));
        Some(v)
    }
    fn n_input_scalars(&self) -> usize {
        self.n
    }
}

// ===========================================================================
// Scratch circuits

/// An operation on a `FromScratch` circuit (two instance columns
/// `[committed, plain]`; the plain one carries the exposed values).
pub trait ScratchOp: Clone + Send + Sync + 'static {
    type Config: Clone + std::fmt::Debug;
    fn name(&self) -> String;
    fn configure(meta: &mut ConstraintSystem<F>, inst: &[Column<Instance>; 2]) -> Self::Config;
    fn synthesize(&self, config: &Self::Config, l: &mut impl Layouter<F>, x: Value<Vec<BigUint>>) -> Result<(), Error>;
    /// `Set` faults that are part of the *honest* witness for `x` (choice of
    /// unconstrained cells).
    fn base_plan(&self, _x: &[BigUint]) -> HashMap<usize, Fault<F>> {
        HashMap::new()
    }
    /// (assignment index, value) pairs the table must contain in a run without
    /// additional faults (harness self-check of `base_plan` indices).
    fn cell_expect(&self, _x: &[BigUint]) -> Vec<(usize, F)> {
        vec![]
    }
    fn reference(&self, x: &[BigUint]) -> Option<Vec<F>>;
    fn n_input_scalars(&self) -> usize;
    /// `observed`: what the circuit reported through [`observe`], if anything.
    fn judge(&self, public: &[F], observed: Option<&[BigUint]>) -> bool;
    fn classify(&self, _x: &[BigUint], _public: &[F], _observed: Option<&[BigUint]>) -> Option<String> {
        None
    }
}

#[derive(Clone)]
pub struct ScratchCircuit<O: ScratchOp> {
    op: O,
    x: Value<Vec<BigUint>>,
}

impl<O: ScratchOp> Circuit<F> for ScratchCircuit<O> {
    type Config = O::Config;
    type FloorPlanner = SimpleFloorPlanner;
    type Params = ();

    fn without_witnesses(&self) -> Self {
        unreachable!()
    }
    fn configure(meta: &mut ConstraintSystem<F>) -> Self::Config {
        let committed = meta.instance_column();
        let plain = meta.instance_column();
        O::configure(meta, &[committed, plain])
    }
    fn synthesize(&self, config: Self::Config, mut layouter: impl Layouter<F>) -> Result<(), Error> {
        self.op.synthesize(&config, &mut layouter, self.x.clone())
    }
}

thread_local! {
    static OBSERVED: RefCell<Option<Vec<BigUint>>> = const { RefCell::new(None) };
}

/// Called from inside a circuit: reports the logical input the circuit's
/// opaque cells hold (values as carried by the `AssignedCell`s, i.e. including
/// any fault applied to them).
pub fn observe(v: Vec<BigUint>) {
    OBSERVED.with(|o| *o.borrow_mut() = Some(v));
}

// ===========================================================================
// Target: what the engine helpers of this module run on

pub enum Built {
    Ok(Box<MockProver<F>>),
    SynthErr(String),
    Panic(String),
}

pub trait Target: Clone + Send + Sync + 'static {
    fn tname(&self) -> String;
    /// Synthesises the circuit for `x` against the plain instance column
    /// `instance` (hooks are managed by the caller).
    fn build(&self, x: &[BigUint], instance: &[F]) -> Built;
    /// Computes (and caches) k; called with the hooks off because the cost
    /// model runs a synthesis pass of its own.
    fn warm_k(&self, x: &[BigUint]) -> Result<u32, String>;
    fn plan0(&self, _x: &[BigUint]) -> HashMap<usize, Fault<F>> {
        HashMap::new()
    }
    fn expect0(&self, _x: &[BigUint]) -> Vec<(usize, F)> {
        vec![]
    }
    fn reference_t(&self, x: &[BigUint]) -> Option<Vec<F>>;
    fn n_in(&self) -> usize;
    fn judge_t(&self, public: &[F], observed: Option<&[BigUint]>) -> bool;
    fn classify_t(&self, _x: &[BigUint], _public: &[F], _observed: Option<&[BigUint]>) -> Option<String> {
        None
    }
}

/// A standard-library op as a target.
#[derive(Clone)]
pub struct StdT<O: Op>(pub O);

impl<O: Op> Target for StdT<O> {
    fn tname(&self) -> String {
        self.0.name()
    }
    fn build(&self, x: &[BigUint], instance: &[F]) -> Built {
        let k = match op_k(&self.0, x) {
            Ok(k) => k,
            Err(e) => return Built::Panic(format!("min_k: {e}")),
        };
        let rel = OpRel { op: self.0.clone() };
        let res = vpcore::catch(|| {
            let c = MidnightCircuit::new(&rel, Value::known(instance.to_vec()), Value::known(x.to_vec()), Some(self.0.max_bit_len()));
            MockProver::run(k, &c, vec![vec![], instance.to_vec()])
        });
        match res {
            Err(p) => Built::Panic(p),
            Ok(Err(e)) => Built::SynthErr(format!("{e:?}")),
            Ok(Ok(p)) => Built::Ok(Box::new(p)),
        }
    }
    fn warm_k(&self, x: &[BigUint]) -> Result<u32, String> {
        op_k(&self.0, x)
    }
    fn reference_t(&self, x: &[BigUint]) -> Option<Vec<F>> {
        self.0.reference(x)
    }
    fn n_in(&self) -> usize {
        self.0.n_input_scalars()
    }
    fn judge_t(&self, public: &[F], _observed: Option<&[BigUint]>) -> bool {
        self.0.judge(public)
    }
    fn classify_t(&self, _x: &[BigUint], public: &[F], _observed: Option<&[BigUint]>) -> Option<String> {
        self.0.classify(public)
    }
}

/// A scratch op as a target.
#[derive(Clone)]
pub struct ScrT<O: ScratchOp>(pub O);

fn scratch_k<O: ScratchOp>(op: &O, x: &[BigUint]) -> Result<u32, String> {
    static CACHE: OnceLock<Mutex<HashMap<String, u32>>> = OnceLock::new();
    let m = CACHE.get_or_init(|| Mutex::new(HashMap::new()));
    if let Some(k) = m.lock().unwrap().get(&op.name()) {
        return Ok(*k);
    }
    // the cost model runs a synthesis pass: keep hooks / observations out of it
    let k = vpcore::catch(|| {
        let c = ScratchCircuit { op: op.clone(), x: Value::known(x.to_vec()) };
        k_from_circuit(&c)
    })?;
    m.lock().unwrap().insert(op.name(), k);
    Ok(k)
}

impl<O: ScratchOp> Target for ScrT<O> {
    fn tname(&self) -> String {
        self.0.name()
    }
    fn build(&self, x: &[BigUint], instance: &[F]) -> Built {
        let k = match scratch_k(&self.0, x) {
            Ok(k) => k,
            Err(e) => return Built::Panic(format!("min_k: {e}")),
        };
        let res = vpcore::catch(|| {
            let c = ScratchCircuit { op: self.0.clone(), x: Value::known(x.to_vec()) };
            MockProver::run(k, &c, vec![vec![], instance.to_vec()])
        });
        match res {
            Err(p) => Built::Panic(p),
            Ok(Err(e)) => Built::SynthErr(format!("{e:?}")),
            Ok(Ok(p)) => Built::Ok(Box::new(p)),
        }
    }
    fn warm_k(&self, x: &[BigUint]) -> Result<u32, String> {
        scratch_k(&self.0, x)
    }
    fn plan0(&self, x: &[BigUint]) -> HashMap<usize, Fault<F>> {
        self.0.base_plan(x)
    }
    fn expect0(&self, x: &[BigUint]) -> Vec<(usize, F)> {
        self.0.cell_expect(x)
    }
    fn reference_t(&self, x: &[BigUint]) -> Option<Vec<F>> {
        self.0.reference(x)
    }
    fn n_in(&self) -> usize {
        self.0.n_input_scalars()
    }
    fn judge_t(&self, public: &[F], observed: Option<&[BigUint]>) -> bool {
        self.0.judge(public, observed)
    }
    fn classify_t(&self, x: &[BigUint], public: &[F], observed: Option<&[BigUint]>) -> Option<String> {
        self.0.classify(x, public, observed)
    }
}


pub struct TRun {
    pub outcome: Outcome,
    pub log: Vec<AssignRecord>,
    pub public: Vec<F>,
    pub observed: Option<Vec<BigUint>>,
    pub prover: Option<Box<MockProver<F>>>,
}

pub enum Inst {
    Given(Vec<F>),
    ReadBack(usize),
}

/// Reads the values exposed in the plain instance column (instance column 1)
/// back from the advice / fixed cells linked to it by copy constraints, and
/// writes them into the instance column (same procedure as `e2`).
fn read_back(prover: &mut MockProver<F>, n_pi: usize) -> Vec<F> {
    let mut public = vec![F::ZERO; n_pi];
    {
        let perm = prover.permutation();
        let cols = perm.columns().to_vec();
        let mapping: Vec<Vec<(usize, usize)>> = perm.mapping().map(|c| c.collect::<Vec<_>>()).collect();
        let ci = cols.iter().position(|c| *c.column_type() == Any::Instance && c.index() == 1);
        if let Some(ci) = ci {
            for (r, slot) in public.iter_mut().enumerate() {
                let start = (ci, r);
                let mut cur = mapping[start.0][start.1];
                let mut steps = 0;
                while cur != start && steps < 1 << 20 {
                    let col = cols[cur.0];
                    let v = match col.column_type() {
                        Any::Advice(_) => Some(prover.advice()[col.index()][cur.1]),
                        Any::Fixed => Some(prover.fixed()[col.index()][cur.1]),
                        Any::Instance => None,
                    };
                    if let Some(CellValue::Assigned(v)) = v {
                        *slot = v;
                        break;
                    }
                    cur = mapping[cur.0][cur.1];
                    steps += 1;
                }
            }
        }
    }
    let inst_col = &mut prover.instance_mut()[1];
    for (r, v) in public.iter().enumerate() {
        if r < inst_col.len() {
            inst_col[r] = InstanceValue::Assigned(*v);
        }
    }
    public
}

fn verdict_of(prover: &MockProver<F>) -> Outcome {
    match vpcore::catch(|| prover.verify()) {
        Err(p) => Outcome::Panic(format!("verify: {p}")),
        Ok(Ok(())) => Outcome::Accept,
        Ok(Err(e)) => Outcome::Reject(format!("{} failures; first: {}", e.len(), e.first().map(|f| format!("{f:?}").chars().take(300).collect::<String>()).unwrap_or_default())),
    }
}

/// One run of a target: base plan ∪ `faults`, instance given or read back;
/// judged by the full `MockProver::verify()`. `Err` only for harness
/// self-check failures.
pub fn run_target<T: Target>(t: &T, x: &[BigUint], inst: Inst, faults: &HashMap<usize, Fault<F>>) -> Result<TRun, Failure> {
    let mut plan = t.plan0(x);
    for (k, v) in faults {
        plan.insert(*k, *v);
    }
    let (given, _n_pi) = match &inst {
        Inst::Given(v) => (v.clone(), v.len()),
        Inst::ReadBack(n) => (vec![F::ZERO; *n], *n),
    };
    if let Err(e) = t.warm_k(x) {
        return Ok(TRun { outcome: Outcome::Panic(format!("min_k: {e}")), log: vec![], public: given, observed: None, prover: None });
    }
    OBSERVED.with(|o| *o.borrow_mut() = None);
    verif_hooks::begin::<F>(plan);
    let built = t.build(x, &given);
    let report = verif_hooks::end();
    let observed = OBSERVED.with(|o| o.borrow_mut().take());
    let mut prover = match built {
        Built::Panic(p) => return Ok(TRun { outcome: Outcome::Panic(p), log: report.log, public: given, observed, prover: None }),
        Built::SynthErr(e) => return Ok(TRun { outcome: Outcome::SynthErr(e), log: report.log, public: given, observed, prover: None }),
        Built::Ok(p) => p,
    };
    // self-check of the base plan: the cells it is meant to set hold the
    // expected values (only checked for cells no extra fault hits)
    for (idx, val) in t.expect0(x) {
        if faults.contains_key(&idx) {
            continue;
        }
        let ok = report
            .log
            .get(idx)
            .and_then(|r| r.abs_row.map(|row| prover.advice()[r.column][row]))
            .map(|c| matches!(c, CellValue::Assigned(v) if v == val))
            .unwrap_or(false);
        if !ok {
            return Err(Failure::new(
                format!("harness:{}:base-plan-cell-mismatch", t.tname()),
                format!("assignment #{idx} does not hold the expected value {val:?} (log entry {:?})", report.log.get(idx)),
            ));
        }
    }
    let public = match inst {
        Inst::Given(_) => given,
        Inst::ReadBack(n) => read_back(&mut prover, n),
    };
    let outcome = verdict_of(&prover);
    Ok(TRun { outcome, log: report.log, public, observed, prover: Some(prover) })
}

/// Which instance positions get a wrong-claim run.
#[derive(Clone, Copy, Debug)]
pub enum S1Mode {
    /// every position
    All,
    /// first and last output position plus random positions, `n` in total
    Sample(usize),
    /// every output position plus `n` random input positions
    OutputsPlus(usize),
}

/// Completeness + S1 for one input tuple: the honest witness with the
/// reference instance must be accepted by `verify()`; the instance positions
/// selected by `positions`, each changed once, must be rejected. Wrong claims are judged on the same synthesised prover (module
/// doc): permutation-only check first, full `verify()` before any report.
pub fn complete_and_s1<T: Target>(t: &T, x: &[BigUint], seed: u64, positions: S1Mode) -> CaseResult {
    let name = t.tname();
    let Some(inst) = t.reference_t(x) else {
        return Ok(Verdict::trivial("out-of-domain-input-skipped"));
    };
    let run = run_target(t, x, Inst::Given(inst.clone()), &HashMap::new())?;
    if !run.outcome.accepted() {
        return Err(Failure::new(
            format!("{name}:incomplete:{}", run.outcome.label()),
            format!("honest witness for x={} with the reference instance {} is not accepted: {:?}", show_x(x), show_f(&inst), run.outcome),
        ));
    }
    let observed = run.observed.clone();
    if !t.judge_t(&inst, observed.as_deref()) {
        return Err(Failure::new(format!("harness:{name}:judge-rejects-reference"), format!("x={} inst={} observed={:?}", show_x(x), show_f(&inst), observed)));
    }
    let mut prover = run.prover.expect("accepted run has a prover");
    let mut rng = SplitMix(seed);
    let n_in = t.n_in();
    let mut sample = |from: std::ops::Range<usize>, n: usize, into: &mut Vec<usize>| {
        let len = from.end - from.start;
        let mut left = n.min(len);
        while left > 0 {
            let p = from.start + rng.below(len as u64) as usize;
            if !into.contains(&p) {
                into.push(p);
                left -= 1;
            }
        }
    };
    let order: Vec<usize> = match positions {
        S1Mode::All => (0..inst.len()).collect(),
        S1Mode::Sample(n) => {
            // always the first and last output position, then random ones
            let mut pick = vec![];
            if inst.len() > n_in {
                pick.push(n_in);
                if inst.len() - 1 != n_in {
                    pick.push(inst.len() - 1);
                }
            }
            let extra = n.saturating_sub(pick.len()).min(inst.len() - pick.len());
            sample(0..inst.len(), extra, &mut pick);
            pick
        }
        S1Mode::OutputsPlus(n) => {
            let mut pick: Vec<usize> = (n_in..inst.len()).collect();
            sample(0..n_in, n, &mut pick);
            pick
        }
    };
    let mut tried = 0usize;
    for pos in order {
        let variants: Vec<F> = vec![inst[pos] + F::from(1), inst[pos] - F::from(1), F::from(0), F::from(1) - inst[pos], F::from(rng.next_u64()), inst[pos] + F::from(256)];
        let v = variants[rng.below(variants.len() as u64) as usize];
        if v == inst[pos] {
            continue;
        }
        let mut wrong = inst.clone();
        wrong[pos] = v;
        if t.judge_t(&wrong, observed.as_deref()) {
            continue;
        }
        tried += 1;
        prover.instance_mut()[1][pos] = InstanceValue::Assigned(v);
        let quick = vpcore::catch(|| prover.verify_at_rows(std::iter::empty::<usize>(), std::iter::empty::<usize>()));
        let rejected = match quick {
            Ok(Err(_)) => true,
            // accepted by the subset of checks (or the subset panicked): ask the real judge
            _ => !verdict_of(&prover).accepted(),
        };
        prover.instance_mut()[1][pos] = InstanceValue::Assigned(inst[pos]);
        if !rejected {
            return Err(Failure::new(
                format!("{name}:unsound:S1:{}", if pos < n_in { "input-position" } else { "output-position" }),
                format!("honest witness for x={} accepted with wrong instance (position {pos}: {:?} instead of {:?})", show_x(x), v, inst[pos]),
            ));
        }
    }
    Ok(Verdict::of(tried > 0, "complete+S1").with(name))
}

/// S2 on a target (as `e2::check_s2`, plus base plan and observed input).
/// `exclude`: assignment indices that are never faulted (cells covered by a
/// separate sub-check of a confirmed defect).
pub fn s2_target<T: Target>(t: &T, x: &[BigUint], seed: u64, n_faults: usize, exclude: &[usize]) -> Result<(S2Stats, Verdict), Failure> {
    let name = t.tname();
    let mut stats = S2Stats::default();
    let Some(inst) = t.reference_t(x) else {
        return Ok((stats, Verdict::trivial("out-of-domain-input-skipped")));
    };
    let honest = run_target(t, x, Inst::ReadBack(inst.len()), &HashMap::new())?;
    if !honest.outcome.accepted() || honest.public != inst {
        return Err(Failure::new(
            format!("{name}:readback-mismatch"),
            format!("honest run with read-back: outcome {:?}, public {} vs reference {}", honest.outcome, show_f(&honest.public), show_f(&inst)),
        ));
    }
    let n = honest.log.len();
    if n == 0 {
        return Ok((stats, Verdict::trivial("no-native-assignments")));
    }
    let mut rng = SplitMix(seed);
    for _ in 0..n_faults {
        let i = rng.below(n as u64) as usize;
        let fault = fault_values(&mut rng);
        if exclude.contains(&i) {
            continue;
        }
        let plan = HashMap::from([(i, fault)]);
        let r = run_target(t, x, Inst::ReadBack(inst.len()), &plan)?;
        stats.runs += 1;
        match &r.outcome {
            Outcome::Accept => {
                if r.public == inst && r.observed == honest.observed && !r.log.iter().any(|l| l.faulted && plan.contains_key(&l.index)) {
                    stats.no_effect += 1;
                } else if t.judge_t(&r.public, r.observed.as_deref()) {
                    stats.accepted_correct += 1;
                } else {
                    let cls = t.classify_t(x, &r.public, r.observed.as_deref()).unwrap_or_else(|| "unclassified".into());
                    let pl: Vec<_> = plan.iter().map(|(k, v)| format!("{k}:{v:?}")).collect();
                    let sites: Vec<String> = r.log.iter().filter(|l| l.faulted && plan.contains_key(&l.index)).map(|l| format!("assign#{} col={} row={:?}", l.index, l.column, l.abs_row)).collect();
                    return Err(Failure::new(
                        format!("{name}:unsound:S2:{cls}"),
                        format!(
                            "MockProver accepts a faulted assignment whose public values contradict the reference: inputs x={}; fault plan {pl:?} at {sites:?}; exposed {}; observed {:?}; honest instance {}",
                            show_x(x),
                            show_f(&r.public),
                            r.observed,
                            show_f(&inst)
                        ),
                    ));
                }
            }
            Outcome::Reject(_) => stats.rejected += 1,
            Outcome::SynthErr(_) | Outcome::Panic(_) => stats.aborted += 1,
        }
    }
    let nt = stats.rejected + stats.accepted_correct > 0;
    Ok((stats.clone(), Verdict::of(nt, "S2").with(name)))
}

pub fn s2_label(st: &S2Stats) -> String {
    format!("rej{} ok{} abort{} noeff{}", st.rejected.min(1), st.accepted_correct.min(1), st.aborted.min(1), st.no_effect.min(1))
}

fn show_x(x: &[BigUint]) -> String {
    if x.iter().all(|v| v.bits() <= 8) {
        format!("bytes:{}", hex::encode(x.iter().map(|v| v.to_u64().unwrap() as u8).collect::<Vec<_>>()))
    } else {
        format!("{:?}", x.iter().map(|v| format!("{v:x}")).collect::<Vec<_>>())
    }
}

fn show_f(v: &[F]) -> String {
    let b: Vec<BigUint> = v.iter().map(f_to_big).collect();
    show_x(&b)
}

// ===========================================================================
// Scratch ops

/// RIPEMD-160 (not exposed by `ZkStdLib`): `RipeMD160Chip` from scratch.
#[derive(Clone, Debug)]
pub struct Ripemd160Op {
    pub len: usize,
}

impl ScratchOp for Ripemd160Op {
    type Config = <RipeMD160Chip<F> as FromScratch<F>>::Config;
    fn name(&self) -> String {
        format!("ripemd160(len={})", self.len)
    }
    fn configure(meta: &mut ConstraintSystem<F>, inst: &[Column<Instance>; 2]) -> Self::Config {
        RipeMD160Chip::<F>::configure_from_scratch(meta, inst)
    }
    fn synthesize(&self, config: &Self::Config, l: &mut impl Layouter<F>, x: Value<Vec<BigUint>>) -> Result<(), Error> {
        let chip = RipeMD160Chip::<F>::new_from_scratch(config);
        // a second handle on the same native gadget configuration (the chip's
        // own one is private); tables are loaded once, by the chip
        let ng = NG::new_from_scratch(&config.1);
        let input: Vec<AssignedByte<F>> = ng.assign_many(l, &byte_values(&x, self.len))?;
        for b in &input {
            ng.constrain_as_public_input(l, b)?;
        }
        let digest: [AssignedByte<F>; 20] = HashInstructions::hash(&chip, l, &input)?;
        for b in digest.iter() {
            ng.constrain_as_public_input(l, b)?;
        }
        chip.load_from_scratch(l)
    }
    fn reference(&self, x: &[BigUint]) -> Option<Vec<F>> {
        if x.len() != self.len {
            return None;
        }
        let msg = bytes_of(x)?;
        let mut v = bytes_to_f(&msg);
        v.extend(bytes_to_f(&HashKind::Ripemd160.digest(&msg)));
        Some(v)
    }
    fn n_input_scalars(&self) -> usize {
        self.len
    }
    fn judge(&self, public: &[F], _observed: Option<&[BigUint]>) -> bool {
        match decode_bytes(public) {
            Some(b) if b.len() == self.len + 20 => b[self.len..] == HashKind::Ripemd160.digest(&b[..self.len])[..],
            _ => false,
        }
    }
    fn classify(&self, _x: &[BigUint], _public: &[F], _observed: Option<&[BigUint]>) -> Option<String> {
        Some("wrong-digest".into())
    }
}

/// How the unused part of a vector buffer is chosen.
#[derive(Clone, Copy, Debug, PartialEq, Eq, Serialize, Deserialize)]
pub enum FillerMode {
    /// `VectorInstructions::assign_with_filler(value, Some(v))` — public API
    /// only, one value for every unused position.
    Api(u64),
    /// arbitrary per-position values, written through the base plan (`Set` on
    /// the buffer cells: they are unconstrained witnesses by documentation).
    Hook,
    /// as `Api`, the value being the one `x` holds in its first filler position
    /// (0 if there is none): lets one op be run with different fillers without
    /// hooks (catalogue visiting, C09).
    ApiFromInput,
}

impl FillerMode {
    fn label(&self) -> &'static str {
        match self {
            FillerMode::Api(_) => "api",
            FillerMode::Hook => "hook",
            FillerMode::ApiFromInput => "api-input",
        }
    }
    /// The constant filler to pass to `assign_with_filler`.
    fn api_value<const M: usize, const A: usize>(&self, x: &Value<Vec<BigUint>>) -> Option<BigUint> {
        match self {
            FillerMode::Api(v) => Some(BigUint::from(*v)),
            FillerMode::Hook => None,
            FillerMode::ApiFromInput => {
                let mut f = None;
                x.as_ref().map(|x| f = first_filler::<M, A>(x));
                f
            }
        }
    }
}

fn first_filler<const M: usize, const A: usize>(x: &[BigUint]) -> Option<BigUint> {
    let (_, r) = varlen_split::<M, A>(x)?;
    (0..M).find(|i| !r.contains(i)).map(|i| x[1 + i].clone())
}

/// Inputs of the variable-length ops: `x = [len] ‖ buffer[0..M]`, the logical
/// content being `buffer[get_lims::<M, A>(len)]` (data end-aligned in chunks
/// of `A`). With `FillerMode::Api(v)` the filler positions of `x` are ignored
/// by the circuit (they hold `v`).
pub fn varlen_split<const M: usize, const A: usize>(x: &[BigUint]) -> Option<(usize, std::ops::Range<usize>)> {
    if x.len() != M + 1 {
        return None;
    }
    let len = x[0].to_usize().filter(|l| *l <= M)?;
    Some((len, midnight_circuits::vec::get_lims::<M, A>(len)))
}

/// `VarLenSha256Gadget::varhash` on an `AssignedVector<_, AssignedByte, M, 64>`.
/// Instance = the 32 digest bytes; the logical input is reported through
/// [`observe`] (the vector's cells are not reachable through the public API).
#[derive(Clone, Debug)]
pub struct VarSha256<const M: usize> {
    pub filler: FillerMode,
}

impl<const M: usize> ScratchOp for VarSha256<M> {
    type Config = <VarLenSha256Gadget<F> as FromScratch<F>>::Config;
    fn name(&self) -> String {
        format!("varlen_sha256(M={M},filler={})", self.filler.label())
    }
    fn configure(meta: &mut ConstraintSystem<F>, inst: &[Column<Instance>; 2]) -> Self::Config {
        VarLenSha256Gadget::<F>::configure_from_scratch(meta, inst)
    }
    fn synthesize(&self, config: &Self::Config, l: &mut impl Layouter<F>, x: Value<Vec<BigUint>>) -> Result<(), Error> {
        let gadget = VarLenSha256Gadget::<F>::new_from_scratch(config);
        let ng = NG::new_from_scratch(&config.1);
        let vg = VectorGadget::new(&ng);
        let data: Value<Vec<u8>> = x.as_ref().map(|x| {
            let (_, r) = varlen_split::<M, 64>(x).expect("well-formed var-len input");
            x[1..][r].iter().map(|b| b.to_u64().unwrap() as u8).collect()
        });
        let filler = self.filler.api_value::<M, 64>(&x).map(|v| v.to_u64().unwrap_or(0) as u8);
        // must stay the first assignment of the circuit: the base plan addresses
        // the buffer cells as assignments 0..M
        let v: AssignedVector<F, AssignedByte<F>, M, 64> = vg.assign_with_filler(l, data, filler)?;
        v.value().map(|d| observe(d.iter().map(|b| BigUint::from(*b)).collect()));
        let digest: [AssignedByte<F>; 32] = VarHashInstructions::<F, M, AssignedByte<F>, [AssignedByte<F>; 32], 64>::varhash(&gadget, l, &v)?;
        for b in digest.iter() {
            ng.constrain_as_public_input(l, b)?;
        }
        gadget.load_from_scratch(l)
    }
    fn base_plan(&self, x: &[BigUint]) -> HashMap<usize, Fault<F>> {
        varlen_base_plan::<M, 64>(self.filler, x)
    }
    fn cell_expect(&self, x: &[BigUint]) -> Vec<(usize, F)> {
        varlen_expect::<M, 64>(self.filler, x)
    }
    fn reference(&self, x: &[BigUint]) -> Option<Vec<F>> {
        let (_, r) = varlen_split::<M, 64>(x)?;
        let data = bytes_of(&x[1..][r])?;
        bytes_of(&x[1..])?; // fillers must be bytes too
        Some(bytes_to_f(&HashKind::Sha256.digest(&data)))
    }
    fn n_input_scalars(&self) -> usize {
        0
    }
    fn judge(&self, public: &[F], observed: Option<&[BigUint]>) -> bool {
        let (Some(obs), Some(d)) = (observed.and_then(bytes_of), decode_bytes(public)) else { return false };
        obs.len() <= M && d == HashKind::Sha256.digest(&obs)
    }
    fn classify(&self, _x: &[BigUint], _public: &[F], _observed: Option<&[BigUint]>) -> Option<String> {
        Some("digest-differs-from-reference-on-logical-content".into())
    }
}

fn varlen_base_plan<const M: usize, const A: usize>(mode: FillerMode, x: &[BigUint]) -> HashMap<usize, Fault<F>> {
    let mut plan = HashMap::new();
    if mode == FillerMode::Hook {
        if let Some((_, r)) = varlen_split::<M, A>(x) {
            for i in (0..M).filter(|i| !r.contains(i)) {
                plan.insert(i, Fault::Set(big_to_f(&x[1 + i])));
            }
        }
    }
    plan
}

fn varlen_expect<const M: usize, const A: usize>(mode: FillerMode, x: &[BigUint]) -> Vec<(usize, F)> {
    let Some((_, r)) = varlen_split::<M, A>(x) else { return vec![] };
    (0..M)
        .map(|i| {
            let v = match mode {
                FillerMode::Api(f) if !r.contains(&i) => F::from(f),
                FillerMode::ApiFromInput if !r.contains(&i) => big_to_f(&first_filler::<M, A>(x).unwrap_or_default()),
                _ => big_to_f(&x[1 + i]),
            };
            (i, v)
        })
        .collect()
}

/// `VarLenPoseidonGadget::varhash` on an `AssignedVector<_, AssignedNative, M, 2>`.
/// Instance = the digest; logical input through [`observe`].
#[derive(Clone, Debug)]
pub struct VarPoseidon<const M: usize> {
    pub filler: FillerMode,
}

impl<const M: usize> ScratchOp for VarPoseidon<M> {
    type Config = <VarLenPoseidonGadget<F> as FromScratch<F>>::Config;
    fn name(&self) -> String {
        format!("varlen_poseidon(M={M},filler={})", self.filler.label())
    }
    fn configure(meta: &mut ConstraintSystem<F>, inst: &[Column<Instance>; 2]) -> Self::Config {
        VarLenPoseidonGadget::<F>::configure_from_scratch(meta, inst)
    }
    fn synthesize(&self, config: &Self::Config, l: &mut impl Layouter<F>, x: Value<Vec<BigUint>>) -> Result<(), Error> {
        let gadget = VarLenPoseidonGadget::<F>::new_from_scratch(config);
        let ng = NG::new_from_scratch(&config.0);
        let vg = VectorGadget::new(&ng);
        let data: Value<Vec<F>> = x.as_ref().map(|x| {
            let (_, r) = varlen_split::<M, 2>(x).expect("well-formed var-len input");
            x[1..][r].iter().map(big_to_f).collect()
        });
        let filler = self.filler.api_value::<M, 2>(&x).map(|v| big_to_f(&v));
        let v: AssignedVector<F, AssignedNative<F>, M, 2> = vg.assign_with_filler(l, data, filler)?;
        v.value().map(|d| observe(d.iter().map(f_to_big).collect()));
        let digest: AssignedNative<F> = VarHashInstructions::<F, M, AssignedNative<F>, AssignedNative<F>, 2>::varhash(&gadget, l, &v)?;
        ng.constrain_as_public_input(l, &digest)?;
        gadget.load_from_scratch(l)
    }
    fn base_plan(&self, x: &[BigUint]) -> HashMap<usize, Fault<F>> {
        varlen_base_plan::<M, 2>(self.filler, x)
    }
    fn cell_expect(&self, x: &[BigUint]) -> Vec<(usize, F)> {
        varlen_expect::<M, 2>(self.filler, x)
    }
    fn reference(&self, x: &[BigUint]) -> Option<Vec<F>> {
        let (_, r) = varlen_split::<M, 2>(x)?;
        let p = modulus();
        let data: Vec<BigUint> = x[1..][r].iter().map(|v| v % &p).collect();
        Some(vec![big_to_f(&tb_hash_fixed(&data))])
    }
    fn n_input_scalars(&self) -> usize {
        0
    }
    fn judge(&self, public: &[F], observed: Option<&[BigUint]>) -> bool {
        let Some(obs) = observed else { return false };
        obs.len() <= M && public.len() == 1 && f_to_big(&public[0]) == tb_hash_fixed(obs)
    }
    fn classify(&self, x: &[BigUint], public: &[F], observed: Option<&[BigUint]>) -> Option<String> {
        // defect D1 (C07): for an odd logical length the cell behind the data
        // (buffer[M-1]) is absorbed with the last chunk
        if let (Some(obs), true) = (observed, x.len() == M + 1 && public.len() == 1) {
            if obs.len() % 2 == 1 {
                let p = modulus();
                let mut padded = obs.to_vec();
                padded.push(&x[M] % &p);
                let mut reg = vec![BigUint::zero(), BigUint::zero(), BigUint::from(obs.len())];
                for ch in padded.chunks(TB_RATE) {
                    for (i, v) in ch.iter().enumerate() {
                        reg[i] = (&reg[i] + v) % &p;
                    }
                    tb_permutation(&mut reg);
                }
                if reg[0] == f_to_big(&public[0]) {
                    return Some("odd-len:trailing-filler-absorbed".into());
                }
            }
        }
        Some("digest-differs-from-reference-on-logical-content".into())
    }
}

/// One step of a sponge sequence.
#[derive(Clone, Copy, Debug, PartialEq, Eq, Serialize, Deserialize)]
pub enum Step {
    Absorb(usize),
    Squeeze,
}

/// In-circuit Poseidon sponge (`PoseidonChip as SpongeInstructions`): instance
/// = absorbed inputs ‖ squeezed outputs in order.
#[derive(Clone, Debug)]
pub struct SpongeOp {
    pub fixed_len: Option<usize>,
    pub steps: Vec<Step>,
}

impl SpongeOp {
    pub fn n_inputs(&self) -> usize {
        self.steps.iter().map(|s| if let Step::Absorb(k) = s { *k } else { 0 }).sum()
    }
    pub fn n_outputs(&self) -> usize {
        self.steps.iter().filter(|s| **s == Step::Squeeze).count()
    }
}

impl ScratchOp for SpongeOp {
    type Config = <PoseidonChip<F> as FromScratch<F>>::Config;
    fn name(&self) -> String {
        let s: Vec<String> = self.steps.iter().map(|s| match s { Step::Absorb(k) => format!("a{k}"), Step::Squeeze => "s".into() }).collect();
        format!("poseidon_sponge({};{})", self.fixed_len.map(|l| format!("len={l}")).unwrap_or("var".into()), s.join(","))
    }
    fn configure(meta: &mut ConstraintSystem<F>, inst: &[Column<Instance>; 2]) -> Self::Config {
        PoseidonChip::<F>::configure_from_scratch(meta, inst)
    }
    fn synthesize(&self, config: &Self::Config, l: &mut impl Layouter<F>, x: Value<Vec<BigUint>>) -> Result<(), Error> {
        let chip = PoseidonChip::<F>::new_from_scratch(config);
        let nat = NativeChip::<F>::new_from_scratch(&config.0);
        let n = self.n_inputs();
        let vals: Vec<Value<F>> = (0..n).map(|i| x.as_ref().map(|x| big_to_f(&x[i]))).collect();
        let inputs: Vec<AssignedNative<F>> = nat.assign_many(l, &vals)?;
        for v in &inputs {
            nat.constrain_as_public_input(l, v)?;
        }
        let mut st = SpongeInstructions::<F, AssignedNative<F>, AssignedNative<F>>::init(&chip, l, self.fixed_len)?;
        let mut pos = 0;
        for s in &self.steps {
            match s {
                Step::Absorb(k) => {
                    SpongeInstructions::<F, AssignedNative<F>, AssignedNative<F>>::absorb(&chip, l, &mut st, &inputs[pos..pos + k])?;
                    pos += k;
                }
                Step::Squeeze => {
                    let out: AssignedNative<F> = SpongeInstructions::<F, AssignedNative<F>, AssignedNative<F>>::squeeze(&chip, l, &mut st)?;
                    nat.constrain_as_public_input(l, &out)?;
                }
            }
        }
        chip.load_from_scratch(l)
    }
    fn reference(&self, x: &[BigUint]) -> Option<Vec<F>> {
        if x.len() != self.n_inputs() {
            return None;
        }
        let p = modulus();
        let xs: Vec<BigUint> = x.iter().map(|v| v % &p).collect();
        let mut out: Vec<F> = xs.iter().map(big_to_f).collect();
        let mut sp = TbSponge::new(self.fixed_len);
        let mut pos = 0;
        for s in &self.steps {
            match s {
                Step::Absorb(k) => {
                    sp.absorb(&xs[pos..pos + k]);
                    pos += k;
                }
                Step::Squeeze => out.push(big_to_f(&sp.squeeze()?)),
            }
        }
        Some(out)
    }
    fn n_input_scalars(&self) -> usize {
        self.n_inputs()
    }
    fn judge(&self, public: &[F], _observed: Option<&[BigUint]>) -> bool {
        let n = self.n_inputs();
        if public.len() != n + self.n_outputs() {
            return false;
        }
        let x: Vec<BigUint> = public[..n].iter().map(f_to_big).collect();
        self.reference(&x).as_deref() == Some(public)
    }
}

// ===========================================================================
// Textbook Poseidon (num-bigint; constants from `PoseidonField`)

pub const TB_WIDTH: usize = 3;
pub const TB_RATE: usize = 2;
pub const TB_RF: usize = 8;
pub const TB_RP: usize = 60;

pub struct TbParams {
    pub p: BigUint,
    pub mds: Vec<Vec<BigUint>>,
    pub rc: Vec<Vec<BigUint>>,
}

/// The published constants of the repository as big integers.
pub fn tb_params() -> &'static TbParams {
    static P: OnceLock<TbParams> = OnceLock::new();
    P.get_or_init(|| TbParams {
        p: modulus(),
        mds: <F as PoseidonField>::MDS.iter().map(|r| r.iter().map(f_to_big).collect()).collect(),
        rc: <F as PoseidonField>::ROUND_CONSTANTS.iter().map(|r| r.iter().map(f_to_big).collect()).collect(),
    })
}

fn pow5(x: &BigUint, p: &BigUint) -> BigUint {
    let x2 = x * x % p;
    let x4 = &x2 * &x2 % p;
    x4 * x % p
}

/// Unshifted rounds: ARK → S-box (x^5; all registers in the `R_F/2` first and
/// last rounds, register `sbox_pos` in the `R_P` middle rounds) → `M · state`.
pub fn tb_permutation_with(par: &TbParams, state: &mut [BigUint], sbox_pos: usize) {
    assert_eq!(state.len(), TB_WIDTH);
    assert_eq!(par.rc.len(), TB_RF + TB_RP);
    for r in 0..TB_RF + TB_RP {
        for i in 0..TB_WIDTH {
            state[i] = (&state[i] + &par.rc[r][i]) % &par.p;
        }
        let full = r < TB_RF / 2 || r >= TB_RF / 2 + TB_RP;
        for i in 0..TB_WIDTH {
            if full || i == sbox_pos {
                state[i] = pow5(&state[i], &par.p);
            }
        }
        let new: Vec<BigUint> = (0..TB_WIDTH).map(|i| (0..TB_WIDTH).fold(BigUint::zero(), |acc, j| (acc + &par.mds[i][j] * &state[j]) % &par.p)).collect();
        state.clone_from_slice(&new);
    }
}

/// The permutation as configured in the repository: the partial-round S-box
/// acts on the last register (documented in `hash/poseidon/mod.rs`:
/// `(x y z^5) · MDS + (a b c)`).
pub fn tb_permutation(state: &mut [BigUint]) {
    tb_permutation_with(tb_params(), state, TB_WIDTH - 1)
}

/// Sponge framing as documented by `poseidon_cpu.rs` / `SpongeCPU`:
/// capacity register `register[2] = input_len` (fixed-length) or `2^64`
/// (variable length, where the number of queued inputs is appended as padding
/// at each squeeze); inputs added rate-wise (rate 2), one permutation per
/// chunk (none for an empty queue); first output `register[0]`, in
/// variable-length mode a second squeeze without absorption returns
/// `register[1]`, the next one pads and permutes again.
pub struct TbSponge {
    reg: Vec<BigUint>,
    queue: Vec<BigUint>,
    pos: usize,
    fixed: Option<usize>,
}

impl TbSponge {
    pub fn new(fixed: Option<usize>) -> Self {
        let cap = match fixed {
            Some(l) => BigUint::from(l),
            None => BigUint::one() << 64,
        };
        TbSponge { reg: vec![BigUint::zero(), BigUint::zero(), cap], queue: vec![], pos: 0, fixed }
    }
    pub fn absorb(&mut self, xs: &[BigUint]) {
        self.queue.extend_from_slice(xs);
        self.pos = 0;
    }
    /// `None`: the documented API forbids this call (second squeeze or length
    /// mismatch in fixed-length mode).
    pub fn squeeze(&mut self) -> Option<BigUint> {
        let p = &tb_params().p;
        if self.pos > 0 {
            if self.fixed.is_some() {
                return None;
            }
            let out = self.reg[self.pos % TB_RATE].clone();
            self.pos = (self.pos + 1) % TB_RATE;
            return Some(out);
        }
        match self.fixed {
            None => self.queue.push(BigUint::from(self.queue.len())),
            Some(l) if l != self.queue.len() => return None,
            _ => {}
        }
        let q = std::mem::take(&mut self.queue);
        for chunk in q.chunks(TB_RATE) {
            for (i, v) in chunk.iter().enumerate() {
                self.reg[i] = (&self.reg[i] + v) % p;
            }
            tb_permutation(&mut self.reg);
        }
        self.pos = 1 % TB_RATE;
        Some(self.reg[0].clone())
    }
}

/// Fixed-length hash `hash(inputs)`.
pub fn tb_hash_fixed(xs: &[BigUint]) -> BigUint {
    let mut s = TbSponge::new(Some(xs.len()));
    s.absorb(xs);
    s.squeeze().expect("one squeeze is allowed")
}

// ===========================================================================
// Grain-LFSR parameter generation (Poseidon reference scripts,
// `generate_parameters_grain.sage <field> <sbox> <n> <t> <R_F> <R_P> <prime>`)

pub struct Grain {
    bits: std::collections::VecDeque<u8>,
}

impl Grain {
    pub fn new(field: u32, sbox: u32, n: u32, t: u32, rf: u32, rp: u32) -> Self {
        let mut bits = std::collections::VecDeque::with_capacity(80);
        let mut push = |v: u32, w: u32| {
            for i in (0..w).rev() {
                bits.push_back(((v >> i) & 1) as u8);
            }
        };
        push(field, 2);
        push(sbox, 4);
        push(n, 12);
        push(t, 12);
        push(rf, 10);
        push(rp, 10);
        push((1 << 30) - 1, 30);
        assert_eq!(bits.len(), 80);
        let mut g = Grain { bits };
        for _ in 0..160 {
            g.step();
        }
        g
    }
    fn step(&mut self) -> u8 {
        let b = &self.bits;
        let new = b[62] ^ b[51] ^ b[38] ^ b[23] ^ b[13] ^ b[0];
        self.bits.pop_front();
        self.bits.push_back(new);
        new
    }
    /// Self-shrinking output: bits are produced in pairs, the second one is
    /// output iff the first one is 1.
    pub fn next_bit(&mut self) -> u8 {
        loop {
            let a = self.step();
            let b = self.step();
            if a == 1 {
                return b;
            }
        }
    }
    pub fn random_bits(&mut self, n: u32) -> BigUint {
        let mut v = BigUint::zero();
        for _ in 0..n {
            v = (v << 1) | BigUint::from(self.next_bit());
        }
        v
    }
}

pub struct GrainParams {
    pub round_constants: Vec<BigUint>,
    /// Successive Cauchy-matrix candidates `M[i][j] = 1/(x_i + y_j)`; the
    /// script keeps the first one that passes its three subspace-trail
    /// algorithms (not re-implemented here).
    pub mds_candidates: Vec<Vec<Vec<BigUint>>>,
}

pub fn grain_parameters(p: &BigUint, n: u32, t: usize, rf: usize, rp: usize, n_candidates: usize) -> GrainParams {
    let mut g = Grain::new(1, 0, n, t as u32, rf as u32, rp as u32);
    let mut round_constants = vec![];
    for _ in 0..(rf + rp) * t {
        let mut v = g.random_bits(n);
        while &v >= p {
            v = g.random_bits(n);
        }
        round_constants.push(v);
    }
    let mut mds_candidates = vec![];
    while mds_candidates.len() < n_candidates {
        let mut list: Vec<BigUint> = (0..2 * t).map(|_| g.random_bits(n) % p).collect();
        loop {
            let mut s = list.clone();
            s.sort();
            s.dedup();
            if s.len() == list.len() {
                break;
            }
            list = (0..2 * t).map(|_| g.random_bits(n) % p).collect();
        }
        let (xs, ys) = list.split_at(t);
        let mut ok = true;
        let mut m = vec![vec![BigUint::zero(); t]; t];
        for i in 0..t {
            for j in 0..t {
                let s = (&xs[i] + &ys[j]) % p;
                if s.is_zero() {
                    ok = false;
                } else {
                    m[i][j] = s.modpow(&(p - BigUint::from(2u32)), p);
                }
            }
        }
        if ok {
            mds_candidates.push(m);
        }
    }
    GrainParams { round_constants, mds_candidates }
}

// ===========================================================================
// Catalogue visiting (C08 / C09)

/// Standard-library ops of this catalogue (the `e2::Op`s): the six byte hashes
/// at a few lengths (three when `quick`: empty, last one-block length, a
/// two-block message) and fixed-length Poseidon at a few input lengths, each
/// with inputs of the classes all-zero, all-0xFF / p-1, 0x80-prefixed / small,
/// random. The chips that `ZkStdLib` does not expose (RIPEMD-160, the
/// variable-length gadgets, the sponge) are not `e2::Op`s: see
/// [`visit_scratch_ops`].
pub fn visit_ops<V: crate::e2::OpVisitor>(v: &mut V, quick: bool, seed: u64) {
    let mut rng = SplitMix(vpcore::derive_seed(&["ops_hash", "visit"], seed));
    for kind in HashKind::STD {
        let b = kind.block();
        let mut lens = vec![0usize, kind.boundaries(1)[2], b + b / 2];
        if !quick {
            lens.extend(kind.boundaries(2).into_iter().filter(|l| *l > 1));
            lens.push(rng.below(2 * b as u64) as usize);
            lens.sort();
            lens.dedup();
        }
        for len in lens {
            v.visit(&ByteHash { kind, len }, &byte_inputs(len, &mut rng));
        }
    }
    for n in if quick { vec![0usize, 1, 2, 3, 5] } else { (0..=12).collect() } {
        v.visit(&PoseidonFixed { n }, &native_inputs(n, &mut rng));
    }
}

fn byte_inputs(len: usize, rng: &mut SplitMix) -> Vec<Vec<BigUint>> {
    let to = |b: Vec<u8>| b.iter().map(|b| BigUint::from(*b)).collect::<Vec<_>>();
    let mut v = vec![to(vec![0u8; len]), to(vec![0xff; len]), to(rng.bytes(len))];
    v.push(to((0..len).map(|i| if i == 0 { 0x80 } else { 0 }).collect()));
    if len == 0 {
        v.truncate(1);
    }
    v
}

fn rand_field(rng: &mut SplitMix) -> BigUint {
    (BigUint::from(rng.next_u64()) << 192 | BigUint::from(rng.next_u64()) << 128 | BigUint::from(rng.next_u64()) << 64 | BigUint::from(rng.next_u64())) % modulus()
}

fn native_inputs(n: usize, rng: &mut SplitMix) -> Vec<Vec<BigUint>> {
    if n == 0 {
        return vec![vec![]];
    }
    vec![vec![BigUint::zero(); n], vec![modulus() - BigUint::one(); n], (0..n).map(|_| rand_field(rng)).collect(), (0..n).map(|i| BigUint::from(i as u64 % 3)).collect()]
}

/// Visitor over the FromScratch ops of this catalogue.
pub trait ScratchVisitor {
    fn visit<O: ScratchOp>(&mut self, op: &O, inputs: &[Vec<BigUint>]);
}

/// RIPEMD-160 at a few lengths; `VarSha256<64>`, `VarSha256<128>`,
/// `VarPoseidon<4>`, `VarPoseidon<8>` each with inputs of different ACTUAL
/// lengths (0, 1, around the padding boundary, MAX) and different filler
/// values for the same MAX (filler mode `ApiFromInput`: no hooks needed);
/// sponge sequences. Use [`scratch_structure_of`] / [`scratch_vk_bytes`] on
/// the visited ops.
pub fn visit_scratch_ops<V: ScratchVisitor>(v: &mut V, quick: bool, seed: u64) {
    let mut rng = SplitMix(vpcore::derive_seed(&["ops_hash", "visit-scratch"], seed));
    for len in if quick { vec![0usize, 55, 96] } else { vec![0, 1, 55, 56, 63, 64, 65, 96, 128] } {
        v.visit(&Ripemd160Op { len }, &byte_inputs(len, &mut rng));
    }
    fn var_bytes<const M: usize>(lens: &[usize], rng: &mut SplitMix) -> Vec<Vec<BigUint>> {
        lens.iter()
            .enumerate()
            .map(|(i, len)| {
                let r = midnight_circuits::vec::get_lims::<M, 64>(*len);
                let filler = [0u8, 0x80, 0xff, 0x01][i % 4];
                let mut x = vec![BigUint::from(*len)];
                x.extend((0..M).map(|j| BigUint::from(if r.contains(&j) { if i % 3 == 0 { 0xffu8 } else { rng.below(256) as u8 } } else { filler })));
                x
            })
            .collect()
    }
    fn var_native<const M: usize>(lens: &[usize], rng: &mut SplitMix) -> Vec<Vec<BigUint>> {
        lens.iter()
            .enumerate()
            .map(|(i, len)| {
                let r = midnight_circuits::vec::get_lims::<M, 2>(*len);
                // D1: a non-zero filler behind an odd-length payload changes the
                // digest; the catalogue keeps to fillers the gadget handles
                let filler = if len % 2 == 1 { BigUint::zero() } else { [BigUint::zero(), BigUint::from(0x80u32), modulus() - BigUint::one(), BigUint::one()][i % 4].clone() };
                let mut x = vec![BigUint::from(*len)];
                x.extend((0..M).map(|j| if r.contains(&j) { if i % 3 == 0 { BigUint::zero() } else { rand_field(rng) } } else { filler.clone() }));
                x
            })
            .collect()
    }
    v.visit(&VarSha256::<64> { filler: FillerMode::ApiFromInput }, &var_bytes::<64>(&[0, 1, 55, 56, 63, 64], &mut rng));
    v.visit(&VarSha256::<128> { filler: FillerMode::ApiFromInput }, &var_bytes::<128>(if quick { &[0, 56, 64, 128] } else { &[0, 1, 55, 56, 64, 65, 119, 120, 128] }, &mut rng));
    v.visit(&VarPoseidon::<4> { filler: FillerMode::ApiFromInput }, &var_native::<4>(&[0, 1, 2, 3, 4], &mut rng));
    v.visit(&VarPoseidon::<8> { filler: FillerMode::ApiFromInput }, &var_native::<8>(&[0, 2, 5, 8], &mut rng));
    let seqs: Vec<(Option<usize>, Vec<Step>)> = vec![
        (None, vec![Step::Absorb(3), Step::Squeeze, Step::Squeeze, Step::Squeeze, Step::Absorb(0), Step::Squeeze, Step::Absorb(2), Step::Absorb(1), Step::Squeeze]),
        (None, vec![Step::Squeeze]),
        (Some(3), vec![Step::Absorb(1), Step::Absorb(2), Step::Squeeze]),
        (Some(0), vec![Step::Squeeze]),
    ];
    for (fixed_len, steps) in seqs {
        let op = SpongeOp { fixed_len, steps };
        v.visit(&op, &native_inputs(op.n_inputs(), &mut rng));
    }
}

/// As `e2::structure_of` for a scratch op (honest synthesis under MockProver,
/// hooks off apart from the op's base plan).
pub fn scratch_structure_of<O: ScratchOp>(op: &O, x: &[BigUint]) -> Result<crate::e2::Structure, String> {
    use std::hash::{Hash, Hasher};
    let inst = op.reference(x).ok_or_else(|| "input outside the domain".to_string())?;
    let k = scratch_k(op, x)?;
    let run = run_target(&ScrT(op.clone()), x, Inst::Given(inst.clone()), &HashMap::new()).map_err(|f| f.signature)?;
    let prover = run.prover.ok_or_else(|| format!("{:?}", run.outcome))?;
    let h = |f: &dyn Fn(&mut std::collections::hash_map::DefaultHasher)| {
        let mut s = std::collections::hash_map::DefaultHasher::new();
        f(&mut s);
        s.finish()
    };
    use ff::PrimeField;
    let fixed = h(&|s| {
        for col in prover.fixed() {
            for c in col {
                match c {
                    CellValue::Assigned(v) => v.to_repr().as_ref().hash(s),
                    CellValue::Unassigned => 0u8.hash(s),
                    CellValue::Poison(_) => 1u8.hash(s),
                }
            }
        }
    });
    let selectors = h(&|s| prover.selectors().hash(s));
    let mapping: Vec<Vec<(usize, usize)>> = prover.permutation().mapping().map(|c| c.collect::<Vec<_>>()).collect();
    let permutation = h(&|s| mapping.hash(s));
    Ok(crate::e2::Structure { k, fixed, selectors, permutation, n_public: inst.len(), regions: 0 })
}

/// As `e2::vk_bytes` for a scratch op.
pub fn scratch_vk_bytes<O: ScratchOp>(op: &O, x: Option<&[BigUint]>, k: u32) -> Result<Vec<u8>, String> {
    use midnight_proofs::{plonk::keygen_vk_with_k, poly::kzg::KZGCommitmentScheme, utils::SerdeFormat};
    let params = vp_plonk::pv::params(k);
    vpcore::catch(|| {
        let c = ScratchCircuit { op: op.clone(), x: x.map(|x| Value::known(x.to_vec())).unwrap_or_else(Value::unknown) };
        keygen_vk_with_k::<F, KZGCommitmentScheme<midnight_curves::Bls12>, _>(&params, &c, k).map(|vk| vk.to_bytes(SerdeFormat::RawBytes))
    })?
    .map_err(|e| format!("{e:?}"))
}

/// k of a scratch op (cost model, cached by name).
pub fn scratch_op_k<O: ScratchOp>(op: &O, x: &[BigUint]) -> Result<u32, String> {
    scratch_k(op, x)
}

// ---------------------------------------------------------------------------
// S5 on a target (see s3.rs)

struct TargetArena<'a, T: Target> {
    t: &'a T,
    x: &'a [BigUint],
    n_pub: usize,
}

impl<T: Target> crate::s3::Arena for TargetArena<'_, T> {
    fn arena_name(&self) -> String {
        self.t.tname()
    }
    fn replay(&self, plan: &HashMap<usize, Fault<F>>) -> (bool, Vec<F>, Option<MockProver<F>>) {
        match run_target(self.t, self.x, Inst::ReadBack(self.n_pub), plan) {
            Ok(r) => (r.outcome.accepted(), r.public, r.prover.map(|b| *b)),
            Err(_) => (false, vec![], None),
        }
    }
    fn judge(&self, public: &[F]) -> bool {
        self.t.judge_t(public, None)
    }
    fn classify(&self, public: &[F]) -> Option<String> {
        self.t.classify_t(self.x, public, None)
    }
}

/// Coherent lookup-tuple substitution + linear repair on one honest run of the target.
pub fn s5_target<T: Target>(t: &T, x: &[BigUint], seed: u64, max_classes: usize, budget_per_tuple: usize) -> Result<(crate::s3::S5Stats, Verdict), Failure> {
    let Some(inst) = t.reference_t(x) else {
        return Ok((Default::default(), Verdict::trivial("out-of-domain-input-skipped")));
    };
    let honest = run_target(t, x, Inst::ReadBack(inst.len()), &HashMap::new())?;
    if !honest.outcome.accepted() || honest.public != inst {
        return Err(Failure::new(format!("{}:readback-mismatch", t.tname()), format!("honest run with read-back: outcome {:?}", honest.outcome)));
    }
    let Some(prover) = honest.prover else { return Ok((Default::default(), Verdict::trivial("no-prover"))) };
    let arena = TargetArena { t, x, n_pub: inst.len() };
    crate::s3::check_lookup_tuples(&arena, &honest.log, &prover, &inst, seed, max_classes, budget_per_tuple)
}
