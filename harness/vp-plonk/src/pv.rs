//! Prove / verify glue for E1 circuits, generic over the transcript hash, and a
//! recording transcript that logs the layout of a proof.

use std::{
    collections::HashMap,
    io,
    sync::{Arc, Mutex, OnceLock},
};

use midnight_curves::{Bls12, G1Projective};
use midnight_proofs::{
    dev::MockProver,
    plonk::{commit_to_instances, create_proof, keygen_pk, keygen_vk_with_k, prepare, ProvingKey, VerifyingKey},
    poly::{
        commitment::Guard,
        kzg::{params::ParamsKZG, KZGCommitmentScheme},
    },
    transcript::{CircuitTranscript, Hashable, Sampleable, Transcript, TranscriptHash},
};
use rand_chacha::ChaCha20Rng;
use rand_core::SeedableRng;

use crate::e1::{GenCircuit, Plan, Spec, F};

pub type CS = KZGCommitmentScheme<Bls12>;
pub type Blake = blake2b_simd::State;
pub type Poseidon = midnight_circuits::hash::poseidon::PoseidonState<F>;

/// One SRS per k (fixed toxic seed: the SRS is not part of any case).
pub fn params(k: u32) -> Arc<ParamsKZG<Bls12>> {
    static CACHE: OnceLock<Mutex<HashMap<u32, Arc<ParamsKZG<Bls12>>>>> = OnceLock::new();
    let m = CACHE.get_or_init(|| Mutex::new(HashMap::new()));
    if let Some(p) = m.lock().unwrap().get(&k) {
        return p.clone();
    }
    let p = Arc::new(ParamsKZG::<Bls12>::unsafe_setup(k, ChaCha20Rng::seed_from_u64(0xC0FFEE ^ k as u64)));
    m.lock().unwrap().entry(k).or_insert(p).clone()
}

pub fn keygen(spec: &Spec) -> Result<(ProvingKey<F, CS>, VerifyingKey<F, CS>), String> {
    let p = params(spec.k);
    let circuit = GenCircuit::new(spec, crate::e1::build_plan(spec, 0).unknown());
    let vk = keygen_vk_with_k::<F, CS, _>(&p, &circuit, spec.k).map_err(|e| format!("keygen_vk: {e:?}"))?;
    let pk = keygen_pk(vk.clone(), &circuit).map_err(|e| format!("keygen_pk: {e:?}"))?;
    Ok((pk, vk))
}

/// MockProver verdict for one plan.
pub fn mock(spec: &Spec, plan: &Plan) -> Result<(), String> {
    let circuit = GenCircuit::new(spec, plan.clone());
    let prover = MockProver::run(spec.k, &circuit, plan.instances.clone()).map_err(|e| format!("MockProver::run: {e:?}"))?;
    prover.verify().map_err(|e| format!("{} failures, first: {:?}", e.len(), e.first()))
}

pub trait HashSel: TranscriptHash + 'static
where
    F: Hashable<Self> + Sampleable<Self>,
    G1Projective: Hashable<Self>,
{
}
impl HashSel for Blake {}
impl HashSel for Poseidon {}

/// Proves `plans.len()` instances of `spec` in one proof; the first
/// `n_committed` instance columns are committed.
pub fn prove<T>(pk: &ProvingKey<F, CS>, spec: &Spec, plans: &[Plan], n_committed: usize, rng_seed: u64, transcript: &mut T) -> Result<(), String>
where
    T: Transcript,
    F: Hashable<T::Hash> + Sampleable<T::Hash>,
    G1Projective: Hashable<T::Hash>,
{
    let p = params(spec.k);
    let circuits: Vec<GenCircuit> = plans.iter().map(|pl| GenCircuit::new(spec, pl.clone())).collect();
    let inst: Vec<Vec<&[F]>> = plans.iter().map(|pl| pl.instances.iter().map(|c| &c[..]).collect()).collect();
    let inst2: Vec<&[&[F]]> = inst.iter().map(|v| &v[..]).collect();
    create_proof::<F, CS, _, _>(&p, pk, &circuits, n_committed, &inst2, ChaCha20Rng::seed_from_u64(rng_seed), transcript)
        .map_err(|e| format!("create_proof: {e:?}"))
}

/// Verifier inputs for one proof of `n` circuit instances.
#[derive(Clone, Debug)]
pub struct Statement {
    /// per circuit instance: commitments of the committed columns
    pub committed: Vec<Vec<G1Projective>>,
    /// per circuit instance: the plain columns
    pub plain: Vec<Vec<Vec<F>>>,
}

pub fn statement(vk: &VerifyingKey<F, CS>, spec: &Spec, instances: &[Vec<Vec<F>>], n_committed: usize) -> Statement {
    let p = params(spec.k);
    let mut committed = vec![];
    let mut plain = vec![];
    for cols in instances {
        committed.push(cols[..n_committed].iter().map(|c| commit_to_instances::<F, CS>(&p, vk.get_domain(), c)).collect());
        plain.push(cols[n_committed..].to_vec());
    }
    Statement { committed, plain }
}

/// Runs the verifier. `Err` carries the stage that refused.
pub fn verify<T>(vk: &VerifyingKey<F, CS>, k: u32, st: &Statement, transcript: &mut T) -> Result<(), String>
where
    T: Transcript,
    F: Hashable<T::Hash> + Sampleable<T::Hash>,
    G1Projective: Hashable<T::Hash>,
{
    let p = params(k);
    let com: Vec<&[G1Projective]> = st.committed.iter().map(|v| &v[..]).collect();
    let plain: Vec<Vec<&[F]>> = st.plain.iter().map(|v| v.iter().map(|c| &c[..]).collect()).collect();
    let plain2: Vec<&[&[F]]> = plain.iter().map(|v| &v[..]).collect();
    let guard = prepare::<F, CS, _>(vk, &com, &plain2, transcript).map_err(|e| format!("prepare: {e:?}"))?;
    transcript.assert_empty().map_err(|e| format!("assert_empty: {e}"))?;
    guard.verify(&p.verifier_params()).map_err(|e| format!("guard.verify: {e:?}"))
}

// ---------------------------------------------------------------------------

/// What kind of element the prover wrote at an offset.
#[derive(Clone, Debug, PartialEq, Eq)]
pub struct Written {
    pub offset: usize,
    pub len: usize,
    pub kind: &'static str, // "point" | "scalar" | "other"
}

/// A transcript that records the layout of what is written through it.
#[derive(Clone)]
pub struct RecordingTranscript<H: TranscriptHash> {
    inner: CircuitTranscript<H>,
    pub log: Vec<Written>,
    pos: usize,
}

impl<H: TranscriptHash> Transcript for RecordingTranscript<H> {
    type Hash = H;
    fn init() -> Self {
        RecordingTranscript { inner: CircuitTranscript::init(), log: vec![], pos: 0 }
    }
    fn init_from_bytes(bytes: &[u8]) -> Self {
        RecordingTranscript { inner: CircuitTranscript::init_from_bytes(bytes), log: vec![], pos: 0 }
    }
    fn squeeze_challenge<T: Sampleable<H>>(&mut self) -> T {
        self.inner.squeeze_challenge()
    }
    fn common<T: Hashable<H>>(&mut self, input: &T) -> io::Result<()> {
        self.inner.common(input)
    }
    fn read<T: Hashable<H>>(&mut self) -> io::Result<T> {
        self.inner.read()
    }
    fn write<T: Hashable<H>>(&mut self, input: &T) -> io::Result<()> {
        let len = input.to_bytes().len();
        let name = core::any::type_name::<T>();
        let kind = if name.contains("G1") {
            "point"
        } else if name.contains("Fq") {
            "scalar"
        } else {
            "other"
        };
        self.log.push(Written { offset: self.pos, len, kind });
        self.pos += len;
        self.inner.write(input)
    }
    fn finalize(self) -> Vec<u8> {
        self.inner.finalize()
    }
    fn assert_empty(&mut self) -> io::Result<()> {
        self.inner.assert_empty()
    }
}
