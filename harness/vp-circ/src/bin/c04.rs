//! C04 — native-field gadgets are complete and sound w.r.t. their
//! mathematical meaning (level: fault_enumeration).
//!
//! The op catalogue, reference models and input generation live in
//! `vp_circ::ops_native`; this binary drives them:
//!
//! * `<family>.complete`  — generated inputs from boundary classes: honest
//!   witness + reference instance accepted, every (sampled for wide ops)
//!   instance position changed once rejected (S1); inputs outside the
//!   documented domain must not be accepted with any outputs the library
//!   computes (plus a few faults).
//! * `<family>.s2`        — assignment-time faults (hook H1) on every op:
//!   quick = sampled faults on one input per op, thorough = every assignment
//!   index x several fault values on several inputs + sampled pairs.
//! * `<family>.flip`      — "flip an output-carrying cell + one repairing
//!   cell" pair plans on small ops (stand-in for the S3 search of the design).
//! * `to_le_chunks(>=64bit)` — F18 parameterisations, kept apart.
//! * `vector.padding_flag(0<len<=A)` — parameterisations of the padding_flag
//!   finding (payload entirely in the last chunk), kept apart; the main vector
//!   sub-checks only generate the other lengths.
//! * `to_le_bits.noncanonical` — rewrites the whole full-width decomposition
//!   to the representation of x + p (multi-fault plan); must be rejected.
//! * `div_rem.wraparound` — F19 targeted pair-fault probe.
//!
//! Development switches: `C04_ONLY=<family>` runs one family (plus the
//! targeted sub-checks); `C04_VISIT=1` self-tests `ops_native::visit_ops`.
//!
//! Findings on the unchanged tree (seeds 1..3, quick): only
//!   to_le_chunks(>=64bit):incomplete:reject                      (F18)
//!   div_rem(d=..,bound=None):unsound:S2:wraparound-mod-p, rem(…)  (F19)
//!   padding_flag(0<len<=A):accepts-wrong-flags                    (new)
//!
//! Sensitivity — mutants applied in a scratch worktree (/tmp/wt-c04), quick
//! tier, VERIF_SEED=1; all five are caught in the quick tier:
//!   M1 native_chip.rs is_equal_to_fixed: `assert_zero(must_be_zero)` of
//!      equation (ii) dropped            -> equality.flip
//!      (is_equal_to_fixed<…>:unsound:S2, plan {res: OneMinus, aux: Set(0)});
//!      single faults (equality.s2) do not find it.
//!   M2 native_gadget.rs lower_than: range check of z dropped
//!                                        -> comparison.s2 and comparison.flip
//!      (lower_than/leq/geq/ZkStdLib::lower_than:unsound:S2, single fault on
//!      the result bit).
//!   M3 native_chip.rs cond_swap: q_12_minus_34 not enabled
//!                                        -> control+conversion.s2 / .flip
//!      (cond_swap<native|bit|byte>:unsound:S2, single fault on `fst`).
//!   M4 native_gadget.rs assigned_to_le_bits: canonicity check of the
//!      full-width decomposition removed -> to_le_bits.noncanonical
//!      (…:unsound:noncanonical-representation, also through
//!      assigned_to_le_bytes(None)); single/pair faults do not find it.
//!   M5 native_gadget.rs assert_lower_than_fixed (non-power-of-two bound):
//!      final range check of the selected value dropped
//!                                        -> range.complete
//!      (assert_lower_than_fixed(b):accepts-out-of-domain-input, shrunk to x = b).

use proptest::prelude::*;
use serde::{Deserialize, Serialize};
use vp_circ::e2::Op;
use vp_circ::ops_native::{p as modulus_p, *};
use vpcore::{CaseResult, Failure, SplitMix};

fn case_strategy(names: Vec<String>) -> BoxedStrategy<Case> {
    let n = names.len();
    ((0..n).no_shrink(), proptest::collection::vec((0u8..N_CLS, any::<u64>()), 4), any::<u64>())
        .prop_map(move |(i, picks, seed)| Case { op: names[i].clone(), picks, seed })
        .boxed()
}

#[derive(Clone, Debug, Serialize, Deserialize)]
struct F19Case {
    idx: usize,
}

/// Harness self-test of `visit_ops` (C04_VISIT=1): every visited tuple must be
/// in-domain and accepted with its reference instance.
struct VisitCheck {
    ops: usize,
    tuples: usize,
    bad: Vec<String>,
}
impl vp_circ::e2::OpVisitor for VisitCheck {
    fn visit<O: Op>(&mut self, op: &O, inputs: &[Vec<num_bigint::BigUint>]) {
        self.ops += 1;
        for x in inputs {
            self.tuples += 1;
            match op.reference(x) {
                None => self.bad.push(format!("{}: out-of-domain {x:?}", op.name())),
                Some(inst) => {
                    let r = vp_circ::e2::run_given(op, x, &inst);
                    if !r.outcome.accepted() {
                        self.bad.push(format!("{}: not accepted {x:?}: {:?}", op.name(), r.outcome));
                    }
                }
            }
        }
    }
}

// ---------------------------------------------------------------------------
// the core decomposition chip called directly (its limb sizes and bit lengths are chosen by
// NativeGadget in multiples only; the chip's own contract also covers the other combinations)

mod core_decomp {
    use std::collections::HashMap;

    use midnight_circuits::{
        field::{
            decomposition::{chip::P2RDecompositionChip, instructions::CoreDecompositionInstructions},
            NativeChip, NativeGadget,
        },
        instructions::*,
        testing_utils::FromScratch,
        types::{AssignedNative, ComposableChip},
    };
    use midnight_proofs::{
        circuit::{Layouter, Value},
        plonk::{Column, ConstraintSystem, Error, Instance},
    };
    use num_bigint::BigUint;
    use num_traits::{One, Zero};
    use serde::{Deserialize, Serialize};
    use vp_circ::{
        e2::{big_to_f, f_to_big, Fault, Outcome, F},
        ops_hash::{complete_and_s1, run_target, Inst, S1Mode, ScrT, ScratchOp},
    };
    use vpcore::{CaseResult, Failure, SplitMix, Verdict};

    type NG = NativeGadget<F, P2RDecompositionChip<F>, NativeChip<F>>;

    #[derive(Clone, Debug, Serialize, Deserialize)]
    pub struct CoreDecomp {
        pub bit_length: usize,
        pub limb_size: usize,
    }

    impl CoreDecomp {
        fn n_limbs(&self) -> usize {
            self.bit_length.div_ceil(self.limb_size)
        }
        /// exclusive bound of limb i
        fn limb_bound(&self, i: usize) -> BigUint {
            let last = self.bit_length % self.limb_size;
            if i + 1 == self.n_limbs() && last != 0 {
                BigUint::one() << last
            } else {
                BigUint::one() << self.limb_size
            }
        }
    }

    impl ScratchOp for CoreDecomp {
        type Config = <NG as FromScratch<F>>::Config;
        fn name(&self) -> String {
            format!("decompose_fixed_limb_size(bit_length={},limb_size={})", self.bit_length, self.limb_size)
        }
        fn configure(meta: &mut ConstraintSystem<F>, inst: &[Column<Instance>; 2]) -> Self::Config {
            NG::configure_from_scratch(meta, inst)
        }
        fn synthesize(&self, config: &Self::Config, l: &mut impl Layouter<F>, x: Value<Vec<BigUint>>) -> Result<(), Error> {
            let ng = NG::new_from_scratch(config);
            // the chip itself (table of 8-bit values, as NativeGadget's FromScratch instance)
            let chip = P2RDecompositionChip::<F>::new(config, &8);
            let xa: AssignedNative<F> = ng.assign(l, x.map(|x| big_to_f(&x[0])))?;
            ng.constrain_as_public_input(l, &xa)?;
            let limbs = chip.decompose_fixed_limb_size(l, &xa, self.bit_length, self.limb_size)?;
            for limb in &limbs {
                ng.constrain_as_public_input(l, limb)?;
            }
            chip.load(l)
        }
        fn reference(&self, x: &[BigUint]) -> Option<Vec<F>> {
            if x[0].bits() as usize > self.bit_length {
                return None;
            }
            let mask = (BigUint::one() << self.limb_size) - 1u32;
            let mut v = vec![big_to_f(&x[0])];
            for i in 0..self.n_limbs() {
                v.push(big_to_f(&((&x[0] >> (i * self.limb_size)) & &mask)));
            }
            Some(v)
        }
        fn n_input_scalars(&self) -> usize {
            1
        }
        fn judge(&self, public: &[F], _observed: Option<&[BigUint]>) -> bool {
            if public.len() != 1 + self.n_limbs() {
                return false;
            }
            let x = f_to_big(&public[0]);
            let mut sum = BigUint::zero();
            for i in 0..self.n_limbs() {
                let limb = f_to_big(&public[1 + i]);
                if limb >= self.limb_bound(i) {
                    return false;
                }
                sum += limb << (i * self.limb_size);
            }
            sum == x && (x.bits() as usize) <= self.bit_length
        }
        fn classify(&self, _x: &[BigUint], public: &[F], _observed: Option<&[BigUint]>) -> Option<String> {
            let last = f_to_big(public.last()?);
            Some(if last >= self.limb_bound(self.n_limbs() - 1) { "most-significant-limb-out-of-range".into() } else { "wrong-decomposition".into() })
        }
    }

    #[derive(Clone, Debug, Serialize, Deserialize)]
    pub struct Item {
        pub op: CoreDecomp,
        pub seed: u64,
    }

    pub fn items(quick: bool, seed: u64) -> Vec<Item> {
        let mut rng = SplitMix(seed ^ 0xc0de);
        let mut v = vec![];
        // limb sizes below, at and above the table width (8); bit lengths that are and are not multiples
        let sizes: &[usize] = if quick { &[3, 8, 13, 16] } else { &[1, 3, 5, 8, 9, 13, 16, 20, 32] };
        for &ls in sizes {
            for bl in [ls, 2 * ls, 2 * ls + 1, 3 * ls - 1, ls + ls / 2 + 1] {
                if bl == 0 || bl > 120 {
                    continue;
                }
                v.push(Item { op: CoreDecomp { bit_length: bl, limb_size: ls }, seed: rng.next_u64() });
            }
        }
        v.dedup_by_key(|i| i.op.name());
        v
    }

    pub fn check(it: &Item) -> CaseResult {
        let op = &it.op;
        let t = ScrT(op.clone());
        let mut rng = SplitMix(it.seed);
        let top = BigUint::one() << op.bit_length;
        let rounded = BigUint::one() << (op.n_limbs() * op.limb_size);
        // in-domain inputs: complete, wrong claims rejected
        for x in [BigUint::zero(), &top - 1u32, &top >> 1, BigUint::from_bytes_le(&rng.bytes(24)) % &top] {
            complete_and_s1(&t, &[x], rng.next_u64(), S1Mode::All)?;
        }
        // inputs outside the domain (up to the bit length rounded up to whole limbs, and beyond):
        // honest synthesis and every single changed assignment must be refused
        let mut outside = vec![top.clone(), &top + 1u32, &rounded + 5u32];
        if rounded > top {
            outside.push(&rounded - 1u32);
            outside.push((&top + &rounded) >> 1);
        }
        let n_pub = 1 + op.n_limbs();
        let mut faults = 0;
        for x in outside {
            let x = [x];
            let honest = run_target(&t, &x, Inst::ReadBack(n_pub), &HashMap::new())?;
            if honest.outcome.accepted() {
                return Err(Failure::new(format!("{}:accepts-out-of-domain-input", op.name()), format!("x = {} (>= 2^{}) is accepted, exposing {:?}", x[0], op.bit_length, honest.public)));
            }
            let n = honest.log.len();
            for i in 0..n {
                for f in [Fault::Add(F::from(1)), Fault::Add(F::from(1u64 << (op.bit_length % op.limb_size).max(1))), Fault::Set(F::from(0)), Fault::Add(-F::from(1))] {
                    let r = run_target(&t, &x, Inst::ReadBack(n_pub), &HashMap::from([(i, f)]))?;
                    faults += 1;
                    if let Outcome::Accept = r.outcome {
                        if !op.judge(&r.public, None) {
                            let cls = op.classify(&x, &r.public, None).unwrap_or_default();
                            return Err(Failure::new(
                                format!("{}:unsound:S2:{cls}", op.name()),
                                format!("x = {} is outside the domain (>= 2^{}); with assignment #{i} changed ({f:?}) the circuit is satisfied, exposing {:?}", x[0], op.bit_length, r.public),
                            ));
                        }
                    }
                }
            }
        }
        Ok(Verdict::nontrivial(if op.limb_size > 8 { "limbs-wider-than-table" } else { "limbs-within-table" }).with(if op.bit_length % op.limb_size == 0 { "whole-limbs" } else { "partial-top-limb" }).with(format!("faults:{}", if faults >= 100 { "100+" } else { "<100" })))
    }
}

fn main() {
    if std::env::var("C04_VISIT").is_ok() {
        let mut v = VisitCheck { ops: 0, tuples: 0, bad: vec![] };
        visit_ops(&mut v, true, 1);
        println!("visit_ops: {} ops, {} tuples, {} bad", v.ops, v.tuples, v.bad.len());
        for b in v.bad.iter().take(20) {
            println!("  {b}");
        }
        return;
    }
    vpcore::main("C04", "fault_enumeration", (1500, 14400), |p| {
        p.assume("MockProver::verify on the real library circuit (MidnightCircuit over ZkStdLib) is the judge of satisfiability");
        p.assume("reference models are num-bigint re-implementations of the documented meaning of each operation");
        p.assume("map ops: the Merkle root is computed with the library's CPU Poseidon (MapMt); key/value semantics are checked against a HashMap model");
        p.assume("vector ops: the buffer of an AssignedVector is not accessible through ZkStdLib; limits/padding flags are checked in-circuit, the logical content only through the honest value()");

        // MockProver::verify panics (dev/util.rs, `Value::Poison => unreachable!()`)
        // while *formatting* a violated gate that queries an unassigned cell; this
        // happens on rayon worker threads under faults and is counted as "aborted"
        // by the engine. Keep those messages (and their backtraces) off stderr.
        let prev = std::panic::take_hook();
        std::panic::set_hook(Box::new(move |info| {
            let noisy = info.location().map(|l| l.file().ends_with("dev/util.rs")).unwrap_or(false);
            if !noisy {
                prev(info);
            }
        }));

        let quick = p.quick();
        let only = std::env::var("C04_ONLY").ok();
        let per_op_complete: u32 = p.tier.pick(16, 360);
        let s2_inputs: usize = p.tier.pick(2, 4);
        let fams = catalogue();

        // families run concurrently (each sub-check has its own streams); most of
        // them are short and dominated by their slowest stream
        let run_family = |fam: &Family| {
            if only.as_deref().is_some_and(|o| o != fam.name) {
                return;
            }
            let expensive = fam.name == "map";
            let config = fam.name == "range-config";
            // families with many cheap parameterisations whose inputs sit around one threshold
            let dense = matches!(fam.name, "bound-bookkeeping" | "constant-operands");
            let names: Vec<String> = fam.ops.iter().map(|o| o.name()).collect();
            let find = |name: &str| fam.ops.iter().find(|o| o.name() == name).unwrap_or_else(|| panic!("harness: unknown op {name}"));

            // (1) completeness + S1 / must-reject
            let cases = fam.ops.len() as u32 * if expensive { p.tier.pick(2, 24) } else if config { p.tier.pick(8, 60) } else if dense { p.tier.pick(8, 120) } else { per_op_complete };
            p.sub(
                &format!("{}.complete", fam.name),
                "non-trivial iff an operand comes from a boundary class (0,1,2,pivot-1,pivot,pivot+1,pivot/2,p-1,p-2,(p-1)/2,(p+1)/2,equal/adjacent operand), a branch of the definition is crossed (zero, equal, wrap, exact division), or the input is outside the documented domain (must be rejected)",
                cases,
                16,
                || case_strategy(names.clone()),
                |c| run_complete(find(&c.op), c),
            );

            // (2) S2: every op gets faults
            let mut rng = SplitMix(vpcore::derive_seed(&["C04", fam.name, "s2"], p.seed));
            let mut items = vec![];
            for op in &fam.ops {
                for _ in 0..s2_inputs {
                    let picks = (0..4).map(|_| ((rng.next_u64() % N_CLS as u64) as u8, rng.next_u64())).collect();
                    items.push(Case { op: op.name(), picks, seed: rng.next_u64() });
                }
            }
            p.enumerate(
                &format!("{}.s2", fam.name),
                "non-trivial iff at least one fault changed a cell and the run was rejected or accepted with correct public values (not only aborted / no-effect)",
                items,
                16,
                false,
                |c| -> CaseResult {
                    let op = find(&c.op);
                    if quick {
                        run_s2(op, c, if expensive { 6 } else if config { 16 } else { 30 }, false, true)
                    } else if op.wide() {
                        // sampled singles + pairs
                        run_s2(op, c, if expensive { 60 } else { 400 }, false, true)
                    } else {
                        // every assignment index x 3 values, then sampled pairs
                        let v1 = run_s2(op, c, 3, true, false)?;
                        let mut c2 = c.clone();
                        c2.seed ^= 0x9e37_79b9;
                        let v2 = run_s2(op, &c2, 200, false, true)?;
                        let mut v = v1;
                        v.nontrivial |= v2.nontrivial;
                        v.classes.extend(v2.classes.into_iter().skip(2));
                        Ok(v)
                    }
                },
            );

            // (2b) flip an output-carrying cell + one repairing cell (small ops)
            if !matches!(fam.name, "vector" | "map" | "range-config" | "decomposition" | "assertions") {
                let mut rng = SplitMix(vpcore::derive_seed(&["C04", fam.name, "flip"], p.seed));
                let mut items = vec![];
                for (oi, op) in fam.ops.iter().enumerate() {
                    if dense && quick && oi % 3 != (p.seed % 3) as usize {
                        continue;
                    }
                    for _ in 0..p.tier.pick(1, 6) {
                        let picks = (0..4).map(|_| ((rng.next_u64() % N_CLS as u64) as u8, rng.next_u64())).collect();
                        items.push(Case { op: op.name(), picks, seed: rng.next_u64() });
                    }
                }
                p.enumerate(
                    &format!("{}.flip", fam.name),
                    "non-trivial iff an output-carrying assignment was found and at least one (flip, repair) pair plan was rejected or accepted with correct public values",
                    items,
                    16,
                    false,
                    |c| run_flip(find(&c.op), c, p.tier.pick(30, 80), p.tier.pick(2, 4)),
                );
            }
        };
        // the family lanes and the targeted sub-checks below run side by side
        let families = || {
            if p.is_replay() {
                fams.iter().for_each(&run_family);
            } else {
                // a few families at a time: each sub-check brings its own 16 streams, and more than
                // ~50 threads synthesising at once spend their time in the allocator and the kernel
                let next = std::sync::atomic::AtomicUsize::new(0);
                let lanes: usize = std::env::var("C04_LANES").ok().and_then(|v| v.parse().ok()).unwrap_or(6);
                std::thread::scope(|sc| {
                    for _ in 0..lanes {
                        let (run_family, next, fams) = (&run_family, &next, &fams);
                        sc.spawn(move || loop {
                            let i = next.fetch_add(1, std::sync::atomic::Ordering::Relaxed);
                            if i >= fams.len() {
                                break;
                            }
                            run_family(&fams[i]);
                        });
                    }
                });
            }
        };
        let targeted = || {
            p.enumerate(
                "core-decomposition",
                "P2RDecompositionChip::decompose_fixed_limb_size called directly, limb sizes below / at / above the table width and bit lengths that are or are not whole numbers of limbs: complete and S1 on in-domain values (0, 2^b-1, 2^(b-1), random); for values >= 2^b (up to and beyond the length rounded up to whole limbs) the honest synthesis and every single changed assignment (+1, +2^(b mod limb), 0, -1) must not yield an accepted run exposing a decomposition outside the contract; every case non-trivial",
                core_decomp::items(quick, p.seed),
                16,
                false,
                core_decomp::check,
            );
            // (3) F18: chunk sizes >= 64 bits, separate so that the main sub-checks keep going
            let ops18 = f18_ops();
            let mut rng = SplitMix(vpcore::derive_seed(&["C04", "f18"], p.seed));
            let mut items = vec![];
            for op in &ops18 {
                for _ in 0..p.tier.pick(3, 24) {
                    let picks = (0..4).map(|_| ((rng.next_u64() % N_CLS as u64) as u8, rng.next_u64())).collect();
                    items.push(Case { op: op.name(), picks, seed: rng.next_u64() });
                }
            }
            p.enumerate(
                "to_le_chunks(>=64bit)",
                "non-trivial iff the honest decomposition with a chunk size >= 64 bits was checked on an in-domain input",
                items,
                16,
                false,
                |c| -> CaseResult {
                    let op = ops18.iter().find(|o| o.name() == c.op).expect("harness: unknown op");
                    match run_complete(op, c) {
                        Ok(v) => Ok(v),
                        Err(f) if f.signature.contains(":incomplete:") => {
                            let kind = f.signature.rsplit(':').next().unwrap_or("").to_string();
                            Err(Failure::new(format!("to_le_chunks(>=64bit):incomplete:{kind}"), format!("{}: {}", op.name(), f.detail)))
                        }
                        Err(f) => Err(f),
                    }
                },
            );

            // (3b) padding_flag finding: payload entirely in the last chunk
            let ops_pf = padflag_ops();
            let mut rng = SplitMix(vpcore::derive_seed(&["C04", "padflag"], p.seed));
            let mut items = vec![];
            for op in &ops_pf {
                for _ in 0..p.tier.pick(2, 12) {
                    let picks = (0..4).map(|_| ((rng.next_u64() % N_CLS as u64) as u8, rng.next_u64())).collect();
                    items.push(Case { op: op.name(), picks, seed: rng.next_u64() });
                }
            }
            p.enumerate(
                "vector.padding_flag(0<len<=A)",
                "non-trivial iff the vector's final length is in 1..=A (payload entirely in the last chunk) and the circuit's accepted flags were compared with the definition",
                items,
                16,
                false,
                |c| -> CaseResult {
                    let op = ops_pf.iter().find(|o| o.name() == c.op).expect("harness: unknown op");
                    padflag_probe(op, c)
                },
            );

            // (3c) canonicity of the full-width bit decomposition: rewrite the whole
            // decomposition to the representation of x + p
            {
                use num_bigint::BigUint;
                let pm = modulus_p();
                let lim = pow2(255) - &pm;
                let mut rng = SplitMix(vpcore::derive_seed(&["C04", "noncanonical"], p.seed));
                let mut xs: Vec<BigUint> = vec![big(0), big(1), big(2), &lim - big(1), &lim - big(2)];
                for _ in 0..p.tier.pick(3, 40) {
                    xs.push(BigUint::from_bytes_le(&rng.bytes(40)) % &lim);
                }
                let ops_nc = vec![
                    NOp::new(K::ToBits { n: None, canon: true, be: false }),
                    NOp::new(K::ToBits { n: Some(255), canon: true, be: true }),
                    NOp::new(K::ToBytes { n: None, be: false }),
                ];
                let items: Vec<(usize, String)> = (0..ops_nc.len()).flat_map(|i| xs.iter().map(move |x| (i, x.to_string()))).collect();
                p.enumerate(
                    "to_le_bits.noncanonical",
                    "non-trivial iff x + p < 2^255 (two 255-bit representations), the decomposition layout was recognised and the rewritten witness was rejected",
                    items,
                    16,
                    false,
                    |c| -> CaseResult {
                        let x: BigUint = c.1.parse().expect("harness: decimal");
                        noncanonical_probe(&ops_nc[c.0], &x)
                    },
                );
            }

            // (4) F19: targeted pair faults on the quotient / remainder hints
            let items19 = f19_items();
            p.enumerate(
                "div_rem.wraparound",
                "non-trivial iff dividend < d - (p mod d) and the pairs (quotient index i < 64, remainder index j < 4) were faulted with (floor(p/d), x + p mod d)",
                (0..items19.len()).map(|idx| F19Case { idx }).collect(),
                16,
                false,
                |c| -> CaseResult {
                    let (op, x) = &items19[c.idx];
                    f19_probe(op, x, 64)
                },
            );

            // (6) S3: wrong public output + black-box linear repair of hints, replayed
            // through the library's own witness generation (vp_circ::s3). Applied to the
            // operations that rely on off-circuit hints (quotients, remainders,
            // comparison / zero-test auxiliaries, sign and canonicity bits).
            {
                use vp_circ::e2::OpVisitor;
                #[derive(Clone, Debug, serde::Serialize, serde::Deserialize)]
                struct S3Item {
                    op: String,
                    input: Vec<vp_alg::Int>,
                }
                struct Collect {
                    items: Vec<S3Item>,
                    per_op: usize,
                }
                const HINTED: [&str; 14] = ["div_rem(", "rem(", "lower_than", "leq", "geq", "greater_than", "is_zero", "is_equal", "is_not_equal", "inv0", "sgn0", "is_canonical", "le_bits_", "div("];
                impl OpVisitor for Collect {
                    fn visit<O: Op>(&mut self, op: &O, inputs: &[Vec<num_bigint::BigUint>]) {
                        let name = op.name();
                        if !HINTED.iter().any(|h| name.starts_with(h)) {
                            return;
                        }
                        for x in inputs.iter().take(self.per_op) {
                            self.items.push(S3Item { op: name.clone(), input: x.iter().map(|v| vp_alg::Int::of("", v)).collect() });
                        }
                    }
                }
                struct Runner<'a> {
                    item: &'a S3Item,
                    seed: u64,
                    quick: bool,
                    result: Option<CaseResult>,
                }
                impl OpVisitor for Runner<'_> {
                    fn visit<O: Op>(&mut self, op: &O, _inputs: &[Vec<num_bigint::BigUint>]) {
                        if self.result.is_some() || op.name() != self.item.op {
                            return;
                        }
                        let x: Vec<num_bigint::BigUint> = self.item.input.iter().map(|v| v.big()).collect();
                        let r = vp_circ::s3::check_s3(op, &x, self.seed, 2, 2, if self.quick { 120 } else { 400 }, if self.quick { 6 } else { 40 });
                        self.result = Some(r.map(|(st, v)| v.with(format!("searches>0:{} repairs>0:{} accepted-correct>0:{}", st.searches > 0, st.repairs_found > 0, st.accepted_correct > 0))));
                    }
                }
                let mut col = Collect { items: vec![], per_op: p.tier.pick(1, 3) };
                visit_ops(&mut col, quick, p.seed);
                let mut items = col.items;
                if quick {
                    // a fixed-size sample, always including the division family
                    let mut rng = SplitMix(vpcore::derive_seed(&["C04", "s3"], p.seed));
                    let (div, mut rest): (Vec<_>, Vec<_>) = items.into_iter().partition(|i| i.op.starts_with("div_rem(") || i.op.starts_with("rem("));
                    let mut keep: Vec<S3Item> = div.into_iter().take(6).collect();
                    while keep.len() < 36 && !rest.is_empty() {
                        let i = (rng.next_u64() % rest.len() as u64) as usize;
                        keep.push(rest.swap_remove(i));
                    }
                    items = keep;
                }
                let seed = p.seed;
                p.enumerate(
                    "hinted.s3",
                    "operations relying on off-circuit hints x representative inputs: each public output replaced by other values (whole small range walked) and the violated constraints repaired by solving, black-box through replays, for another assignment in which the residual is affine (depth 2); any accepted replay must expose correct public values; non-trivial iff at least one affine repair was found",
                    items,
                    16,
                    false,
                    move |item: &S3Item| -> CaseResult {
                        let mut r = Runner { item, seed: seed ^ vpcore::digest(&item.op), quick, result: None };
                        visit_ops(&mut r, quick, seed);
                        r.result.unwrap_or_else(|| Err(Failure::new("harness:op-not-found-in-catalogue", item.op.clone())))
                    },
                );
            }
            // class-representative sweep over a rotating third of the catalogue (all of it in thorough)
            vp_circ::catalogue_sweep!(p, "catalogue.sweep", vp_circ::ops_native::visit_ops, p.tier.pick(4, 1), p.tier.pick(80, 100_000), 16);
        };
        if p.is_replay() {
            families();
            targeted();
        } else {
            std::thread::scope(|sc| {
                sc.spawn(&families);
                targeted();
            });
        }
    });
}
