//! Circuit layer checks (C04–C09, C15, C16, C18–C20): shared engines.
pub mod e2;
pub mod e6;
pub mod ops_hash;
pub mod ops_foreign;
pub mod ops_ecc;
pub mod zkir_gen;
pub mod ops_native;
pub mod regex_ref;
pub mod s3;
pub mod acc_circuit;

/// The minimal JWT payload of the in-repo parser test (accepted by the shipped `Jwt` automaton).
pub const MINIMAL_JWT: &str = r#"{
    "iss" : "",
    "sub" : "",
    "nbf" : 0,
    "exp" : 1,
    "vc" : {
       "credentialSubject" : {
          "nationalId" : "id",
          "familyName" : "fn",
          "givenName" : "gn",
          "publicKeyJwk" : {
             "kty" : "",
             "crv" : "",
             "x" : "x",
             "y" : "y"
          },
          "id" : "",
          "birthDate" : "bd"
       },
       "type" : [],
       "@context" : [],
       "issuer" : "",
       "credentialStatus" : {
          "statusPurpose" : "",
          "statusListIndex" : 3,
          "id" : "",
          "type" : "",
          "statusListCredential" : ""
       }
    }
}"#;
