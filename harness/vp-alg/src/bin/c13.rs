//! C13 — the pairing is bilinear, non-degenerate and consistent across entry
//! points; target-group arithmetic and encoding are those of the order-r
//! subgroup of the degree-12 extension.
//!
//! Engines: `midnight_curves::Bls12` (blst) and `midnight_curves::bn256::Bn256`
//! (dev curve). Entry points: `Engine::pairing`, the free function
//! `bls12_381::pairing`, `PairingCurveAffine::pairing_with` (both directions),
//! `MultiMillerLoop::multi_miller_loop` + `final_exponentiation` with
//! `G2Prepared::from(affine)`, `MillerLoopResult` addition / default,
//! `Gt` group operations, `Gt <-> Fp12`, serde encoding of `Gt`.
//!
//! Oracles (metamorphic; nothing is compared with itself):
//! * points are `a G1`, `b G2` for known scalars, so every pairing value must
//!   be `(sum a_i b_i) * e(G1, G2)` (target-group scalar multiplication), and a
//!   list whose exponents sum to zero must pair to the identity;
//! * bilinearity in each argument, negation, non-degeneracy on prime-order
//!   points, independence of list order and of the entry point;
//! * `Gt` operations against the exponent arithmetic in Fr, and (BLS) against
//!   `Fp12` multiplication / inversion / exponentiation (C10).
//!
//! Known shapes are isolated in their own sub-checks: `ml-empty.*` (empty term
//! list, `Default`), `ml-add.*` (sum of Miller-loop results), `gt.decode`
//! (non-members offered to the `Gt` decoder).
//!
//! Findings (isolated in those sub-checks):
//! * KNOWN, unfixed (dev-only curve) - bn256: `MillerLoopResult` is `Fq12` itself, so `+` is field addition, not
//!   the product of Miller-loop values (`bn256:MillerLoopResult:add`,
//!   `bn256:multi_miller_loop:empty:add`), and `Default` is 0, on which
//!   `final_exponentiation` panics (`bn256:MillerLoopResult:default:panic`);
//! * repaired - bls12_381: the serde decoder of `Gt` accepted any Fp12 element,
//!   including 0 (`bls12_381:Gt:deserialize:accepts-non-member`; `gt.decode`
//!   stays as a regression check).
//!
//! Sensitivity (mutants in a scratch worktree, quick tier, seed 1; all caught):
//! * N1 `Bls12::multi_miller_loop`: identity term resets the accumulator and is
//!   skipped -> `bls12_381:multi_miller_loop`, `:order`, `MillerLoopResult:add`;
//! * N2 bls `Gt * Fq` with a 254-bit scalar loop (`skip(2)`) ->
//!   `bls12_381:Gt:Fp12:mul`, `pairing:bilinear`, `pairing:dlog`, `Gt:random`;
//! * N3 bn256 `multi_miller_loop` without the last (-Q2) addition step ->
//!   `bn256:pairing:additive-G1`, `multi_miller_loop:dlog`, `Gt:add`;
//! * N4 bn256 `Gt * Fr` dropping the two top scalar bits (`skip(3)`) ->
//!   `bn256:pairing:bilinear`, `pairing:dlog`, `Gt:random`.

use ff::{Field, PrimeField};
use group::{prime::PrimeCurveAffine, Curve, Group};
use pairing::{Engine, MillerLoopResult, MultiMillerLoop, PairingCurveAffine};
use proptest::prelude::*;
use serde::{Deserialize, Serialize};
use vp_alg::c12_msm::{from_limbs, random_scalar};
use vpcore::{ensure, CaseResult, Failure, Prop, SplitMix, Verdict};

const SCLASSES: [&str; 7] = ["0", "1", "2", "r-1", "random", "small", "(r-1)/2"];
const PCLASSES: [&str; 5] = ["identity", "generator", "k*G", "Group::random", "-generator"];

fn scalar_of<F: PrimeField>(class: u8, rng: &mut SplitMix) -> F {
    match class % 7 {
        0 => F::ZERO,
        1 => F::ONE,
        2 => F::from(2),
        3 => -F::ONE,
        4 => random_scalar(rng),
        5 => F::from(rng.below(1000)),
        _ => -F::TWO_INV,
    }
}

/// A point of class `class` together with its discrete logarithm when known.
fn g1_of<E: Engine>(class: u8, rng: &mut SplitMix) -> (E::G1Affine, Option<E::Fr>) {
    match class % 5 {
        0 => (E::G1Affine::identity(), Some(E::Fr::ZERO)),
        1 => (E::G1Affine::generator(), Some(E::Fr::ONE)),
        2 => {
            let k: E::Fr = random_scalar(rng);
            ((E::G1::generator() * k).to_affine(), Some(k))
        }
        3 => {
            let mut seed = [0u8; 32];
            seed.copy_from_slice(&rng.bytes(32));
            use rand_core::SeedableRng;
            (E::G1::random(rand_chacha::ChaCha20Rng::from_seed(seed)).to_affine(), None)
        }
        _ => (-E::G1Affine::generator(), Some(-E::Fr::ONE)),
    }
}

fn g2_of<E: Engine>(class: u8, rng: &mut SplitMix) -> (E::G2Affine, Option<E::Fr>) {
    match class % 5 {
        0 => (E::G2Affine::identity(), Some(E::Fr::ZERO)),
        1 => (E::G2Affine::generator(), Some(E::Fr::ONE)),
        2 => {
            let k: E::Fr = random_scalar(rng);
            ((E::G2::generator() * k).to_affine(), Some(k))
        }
        3 => {
            let mut seed = [0u8; 32];
            seed.copy_from_slice(&rng.bytes(32));
            use rand_core::SeedableRng;
            (E::G2::random(rand_chacha::ChaCha20Rng::from_seed(seed)).to_affine(), None)
        }
        _ => (-E::G2Affine::generator(), Some(-E::Fr::ONE)),
    }
}

struct Eng<E: Engine> {
    name: &'static str,
    /// a pairing entry point outside the traits (the free function of bls12_381)
    free_pairing: Option<fn(&E::G1Affine, &E::G2Affine) -> E::Gt>,
    gt_generator: Option<fn() -> E::Gt>,
}

fn is_id<G: Group>(g: &G) -> bool {
    bool::from(g.is_identity())
}

// ---------------------------------------------------------------------------
// bilinearity, non-degeneracy, entry points

#[derive(Clone, Debug, Serialize, Deserialize)]
struct BiCase {
    a: u8,
    b: u8,
    p: u8,
    q: u8,
    seed: u64,
}

fn bi_strategy() -> BoxedStrategy<BiCase> {
    (0u8..7, 0u8..7, 0u8..5, 0u8..5, any::<u64>())
        .prop_map(|(a, b, p, q, seed)| BiCase { a, b, p, q, seed })
        .boxed()
}

fn bilinear_check<E: MultiMillerLoop>(eng: &Eng<E>, case: &BiCase) -> CaseResult {
    let name = eng.name;
    let mut rng = SplitMix(case.seed);
    let a: E::Fr = scalar_of(case.a, &mut rng);
    let b: E::Fr = scalar_of(case.b, &mut rng);
    let (p, kp) = g1_of::<E>(case.p, &mut rng);
    let (q, kq) = g2_of::<E>(case.q, &mut rng);
    let (p2, _) = g1_of::<E>(2, &mut rng);
    let (q2, _) = g2_of::<E>(2, &mut rng);
    let ctx = || {
        format!(
            "{name} a={} b={} P={} Q={} seed={}",
            SCLASSES[case.a as usize % 7],
            SCLASSES[case.b as usize % 7],
            PCLASSES[case.p as usize % 5],
            PCLASSES[case.q as usize % 5],
            case.seed
        )
    };
    let sig = |s: &str| format!("{name}:{s}");
    let gen_pairing = E::pairing(&E::G1Affine::generator(), &E::G2Affine::generator());
    let e0 = E::pairing(&p, &q);
    // known discrete logs: e(k G1, l G2) = (k l) e(G1, G2)
    if let (Some(kp), Some(kq)) = (kp, kq) {
        ensure!(e0 == gen_pairing * (kp * kq), sig("pairing:dlog"), "{}: e(k G1, l G2) != (k l) e(G1, G2)", ctx());
    }
    // non-degeneracy on prime-order points
    let p_id = is_id(&p.to_curve());
    let q_id = is_id(&q.to_curve());
    ensure!(is_id(&e0) == (p_id || q_id), sig("pairing:non-degenerate"), "{}: e(P,Q) identity = {} but P identity = {p_id}, Q identity = {q_id}", ctx(), is_id(&e0));
    ensure!((e0 == E::Gt::identity()) == (p_id || q_id), sig("pairing:non-degenerate"), "{}: == identity disagrees", ctx());
    // e(aP, bQ) = e(P,Q)^(ab), through both affine conversions
    let ap = p * a;
    let bq = q * b;
    let ap_aff: E::G1Affine = ap.to_affine();
    let bq_aff: E::G2Affine = bq.into();
    let lhs = E::pairing(&ap_aff, &bq_aff);
    ensure!(lhs == e0 * (a * b), sig("pairing:bilinear"), "{}: e(aP, bQ) != (ab) e(P,Q)", ctx());
    ensure!(lhs == (e0 * a) * b, sig("pairing:bilinear"), "{}: e(aP, bQ) != b (a e(P,Q))", ctx());
    ensure!(E::pairing(&E::G1Affine::from(ap), &bq.to_affine()) == lhs, sig("pairing:affine-conversion"), "{}: From<projective> vs to_affine", ctx());
    ensure!(E::pairing(&(p * (a * b)).to_affine(), &q) == lhs, sig("pairing:bilinear"), "{}: e(abP, Q) != e(aP, bQ)", ctx());
    ensure!(E::pairing(&p, &(q * (a * b)).to_affine()) == lhs, sig("pairing:bilinear"), "{}: e(P, abQ) != e(aP, bQ)", ctx());
    let ap_id = is_id(&ap);
    let bq_id = is_id(&bq);
    ensure!(is_id(&lhs) == (ap_id || bq_id), sig("pairing:non-degenerate"), "{}: e(aP,bQ) identity = {} but aP identity = {ap_id}, bQ identity = {bq_id}", ctx(), is_id(&lhs));
    // additivity in each argument
    ensure!(E::pairing(&(p.to_curve() + p2.to_curve()).to_affine(), &q) == e0 + E::pairing(&p2, &q), sig("pairing:additive-G1"), "{}: e(P+P',Q) != e(P,Q) e(P',Q)", ctx());
    ensure!(E::pairing(&p, &(q.to_curve() + q2.to_curve()).to_affine()) == e0 + E::pairing(&p, &q2), sig("pairing:additive-G2"), "{}: e(P,Q+Q') != e(P,Q) e(P,Q')", ctx());
    // negation
    ensure!(E::pairing(&-p, &q) == -e0 && E::pairing(&p, &-q) == -e0 && E::pairing(&-p, &-q) == e0, sig("pairing:negation"), "{}", ctx());
    // entry points
    ensure!(p.pairing_with(&q) == e0, sig("G1Affine::pairing_with"), "{}", ctx());
    ensure!(q.pairing_with(&p) == e0, sig("G2Affine::pairing_with"), "{}", ctx());
    let prep = E::G2Prepared::from(q);
    ensure!(E::multi_miller_loop(&[(&p, &prep)]).final_exponentiation() == e0, sig("multi_miller_loop:single"), "{}: FE(ML([(P, prepared Q)])) != pairing(P,Q)", ctx());
    if let Some(f) = eng.free_pairing {
        ensure!(f(&p, &q) == e0, sig("pairing(free fn)"), "{}", ctx());
    }
    let boundary = matches!(case.a % 7, 0 | 1 | 3) || matches!(case.b % 7, 0 | 1 | 3) || case.p % 5 == 0 || case.q % 5 == 0;
    Ok(Verdict::of(boundary, format!("a={}", SCLASSES[case.a as usize % 7]))
        .with(format!("b={}", SCLASSES[case.b as usize % 7]))
        .with(format!("P={}", PCLASSES[case.p as usize % 5]))
        .with(format!("Q={}", PCLASSES[case.q as usize % 5])))
}

// ---------------------------------------------------------------------------
// multi-Miller loop over lists

#[derive(Clone, Debug, Serialize, Deserialize)]
struct MultiCase {
    /// (class of the G1 point, class of the G2 point)
    pairs: Vec<(u8, u8)>,
    /// append a term that makes the exponents sum to zero
    cancel: bool,
    seed: u64,
}

fn multi_strategy() -> BoxedStrategy<MultiCase> {
    (proptest::collection::vec((0u8..5, 0u8..5), 0..=8), any::<bool>(), any::<u64>())
        .prop_map(|(pairs, cancel, seed)| MultiCase { pairs, cancel, seed })
        .boxed()
}

type Terms<E> = (Vec<<E as Engine>::G1Affine>, Vec<<E as Engine>::G2Affine>, Option<<E as Engine>::Fr>);

/// The points of the list and, when every discrete log is known, the exponent
/// sum_i k_i l_i.
fn build_terms<E: MultiMillerLoop>(case: &MultiCase) -> Terms<E> {
    let mut rng = SplitMix(case.seed);
    let mut ps = vec![];
    let mut qs = vec![];
    let mut expo = Some(E::Fr::ZERO);
    for (pc, qc) in case.pairs.iter() {
        let (p, kp) = g1_of::<E>(*pc, &mut rng);
        let (q, kq) = g2_of::<E>(*qc, &mut rng);
        expo = match (expo, kp, kq) {
            (Some(e), Some(a), Some(b)) => Some(e + a * b),
            _ => None,
        };
        ps.push(p);
        qs.push(q);
    }
    if case.cancel && ps.len() < 8 {
        if let Some(e) = expo {
            // (-(sum) G1, G2) or (G1, -(sum) G2)
            if rng.below(2) == 0 {
                ps.push((E::G1::generator() * (-e)).to_affine());
                qs.push(E::G2Affine::generator());
            } else {
                ps.push(E::G1Affine::generator());
                qs.push((E::G2::generator() * (-e)).to_affine());
            }
            expo = Some(E::Fr::ZERO);
        }
    }
    (ps, qs, expo)
}

fn ml<E: MultiMillerLoop>(ps: &[E::G1Affine], prep: &[E::G2Prepared]) -> E::Result {
    let terms: Vec<(&E::G1Affine, &E::G2Prepared)> = ps.iter().zip(prep.iter()).collect();
    E::multi_miller_loop(&terms)
}

fn multi_check<E: MultiMillerLoop>(eng: &Eng<E>, case: &MultiCase) -> CaseResult {
    let name = eng.name;
    let sig = |s: &str| format!("{name}:{s}");
    let (ps, qs, expo) = build_terms::<E>(case);
    let n = ps.len();
    let ctx = || format!("{name} pairs={:?} cancel={} seed={}", case.pairs, case.cancel, case.seed);
    let prep: Vec<E::G2Prepared> = qs.iter().map(|q| E::G2Prepared::from(*q)).collect();
    let individual: Vec<E::Gt> = ps.iter().zip(qs.iter()).map(|(p, q)| E::pairing(p, q)).collect();
    let product = individual.iter().fold(E::Gt::identity(), |acc, g| acc + *g);
    ensure!(individual.iter().sum::<E::Gt>() == product && individual.iter().copied().sum::<E::Gt>() == product, sig("Gt:sum"), "{}", ctx());
    // lists of length >= 1 here; the empty list is in ml-empty
    if n >= 1 {
        let got = ml::<E>(&ps, &prep).final_exponentiation();
        ensure!(got == product, sig("multi_miller_loop"), "{}: FE(ML(list)) != product of the individual pairings", ctx());
        if let Some(e) = expo {
            let gen_pairing = E::pairing(&E::G1Affine::generator(), &E::G2Affine::generator());
            ensure!(got == gen_pairing * e, sig("multi_miller_loop:dlog"), "{}: FE(ML(list)) != (sum k_i l_i) e(G1,G2)", ctx());
            ensure!(is_id(&got) == bool::from(e.is_zero()), sig("multi_miller_loop:identity"), "{}: result identity = {} but exponent zero = {}", ctx(), is_id(&got), bool::from(e.is_zero()));
        }
        // order independence: reversed and rotated lists, a prepared point reused
        let mut rp = ps.clone();
        let mut rq = prep.clone();
        rp.reverse();
        rq.reverse();
        ensure!(ml::<E>(&rp, &rq).final_exponentiation() == got, sig("multi_miller_loop:order"), "{}: reversed list", ctx());
        let r = (case.seed as usize) % n;
        rp.rotate_left(r);
        rq.rotate_left(r);
        ensure!(ml::<E>(&rp, &rq).final_exponentiation() == got, sig("multi_miller_loop:order"), "{}: rotated list", ctx());
        // duplicated list: every term twice = doubling in Gt
        if n <= 4 {
            let mut dp = ps.clone();
            dp.extend(ps.iter().copied());
            let mut dq = prep.clone();
            dq.extend(prep.iter().cloned());
            ensure!(ml::<E>(&dp, &dq).final_exponentiation() == got.double(), sig("multi_miller_loop:duplicate"), "{}", ctx());
        }
    }
    let has_id = case.pairs.iter().any(|(p, q)| p % 5 == 0 || q % 5 == 0);
    let mut v = Verdict::of(n >= 2 || has_id, format!("len={n}"));
    if has_id {
        v = v.with("contains-identity");
    }
    if expo.is_some() {
        v = v.with("dlogs-known");
        if expo == Some(E::Fr::ZERO) && n >= 1 {
            v = v.with("exponent-sum-zero");
        }
    }
    Ok(v)
}

/// Sum of Miller-loop results: ML(l1) + ML(l2) must finalize to the same
/// value as ML(l1 ++ l2) (multi_miller_loop is documented as the sum of the
/// individual Miller loops). Both parts non-empty.
fn ml_add_check<E: MultiMillerLoop>(eng: &Eng<E>, case: &MultiCase) -> CaseResult {
    let name = eng.name;
    let (ps, qs, _) = build_terms::<E>(case);
    let n = ps.len();
    if n < 2 {
        return Ok(Verdict::trivial("len<2"));
    }
    let prep: Vec<E::G2Prepared> = qs.iter().map(|q| E::G2Prepared::from(*q)).collect();
    let whole = ml::<E>(&ps, &prep).final_exponentiation();
    let s = 1 + (case.seed as usize) % (n - 1);
    let a = ml::<E>(&ps[..s], &prep[..s]);
    let b = ml::<E>(&ps[s..], &prep[s..]);
    let sig = format!("{name}:MillerLoopResult:add");
    let ctx = || format!("{name} pairs={:?} split at {s}", case.pairs);
    ensure!((a + b).final_exponentiation() == whole, sig.clone(), "{}: FE(ML(l1) + ML(l2)) != FE(ML(l1 ++ l2))", ctx());
    ensure!((a + &b).final_exponentiation() == whole, sig.clone(), "{}: Add<&Self>", ctx());
    let mut c = a;
    c += b;
    ensure!(c.final_exponentiation() == whole, sig.clone(), "{}: AddAssign", ctx());
    let mut c = a;
    c += &b;
    ensure!(c.final_exponentiation() == whole, sig, "{}: AddAssign<&Self>", ctx());
    Ok(Verdict::nontrivial(format!("len={n}")))
}

/// The empty list and `Default`.
fn ml_empty_check<E: MultiMillerLoop>(eng: &Eng<E>, what: &str) -> CaseResult {
    let name = eng.name;
    let p = (E::G1::generator() * E::Fr::from(5)).to_affine();
    let q = E::G2Prepared::from((E::G2::generator() * E::Fr::from(7)).to_affine());
    let one = E::multi_miller_loop(&[(&p, &q)]);
    let want = one.final_exponentiation();
    let run = |f: &dyn Fn() -> bool| -> Result<bool, String> { vpcore::catch(f) };
    let (sig, r) = match what {
        "FE(ML([])) == identity" => ("multi_miller_loop:empty", run(&|| is_id(&E::multi_miller_loop(&[]).final_exponentiation()))),
        "FE(ML([]) + ML(l)) == FE(ML(l))" => ("multi_miller_loop:empty:add", run(&|| (E::multi_miller_loop(&[]) + one).final_exponentiation() == want)),
        "FE(ML(l) + ML([])) == FE(ML(l))" => ("multi_miller_loop:empty:add", run(&|| (one + E::multi_miller_loop(&[])).final_exponentiation() == want)),
        "FE(default()) == identity" => ("MillerLoopResult:default", run(&|| is_id(&E::Result::default().final_exponentiation()))),
        _ => ("MillerLoopResult:default:add", run(&|| (E::Result::default() + one).final_exponentiation() == want)),
    };
    match r {
        Ok(true) => Ok(Verdict::nontrivial(what.to_string())),
        Ok(false) => Err(Failure::new(format!("{name}:{sig}"), format!("{name}: {what} does not hold"))),
        Err(e) => Err(Failure::new(format!("{name}:{sig}:panic"), format!("{name}: {what} panicked: {e}"))),
    }
}

// ---------------------------------------------------------------------------
// target group

#[derive(Clone, Debug, Serialize, Deserialize)]
struct GtCase {
    x: u8,
    y: u8,
    a: u8,
    seed: u64,
}

fn gt_check<E: MultiMillerLoop>(eng: &Eng<E>, case: &GtCase) -> CaseResult {
    let name = eng.name;
    let sig = |s: &str| format!("{name}:Gt:{s}");
    let mut rng = SplitMix(case.seed);
    let x: E::Fr = scalar_of(case.x, &mut rng);
    let y: E::Fr = scalar_of(case.y, &mut rng);
    let a: E::Fr = scalar_of(case.a, &mut rng);
    let ctx = || format!("{name} x={} y={} a={} seed={}", SCLASSES[case.x as usize % 7], SCLASSES[case.y as usize % 7], SCLASSES[case.a as usize % 7], case.seed);
    // elements with known exponents, obtained through the pairing (not through Gt arithmetic)
    let gen = E::pairing(&E::G1Affine::generator(), &E::G2Affine::generator());
    let g = E::pairing(&(E::G1::generator() * x).to_affine(), &E::G2Affine::generator());
    let h = E::pairing(&E::G1Affine::generator(), &(E::G2::generator() * y).to_affine());
    let of = |k: E::Fr| E::pairing(&(E::G1::generator() * k).to_affine(), &E::G2Affine::generator());
    let id = E::Gt::identity();
    ensure!(!is_id(&gen), sig("generator"), "e(G1,G2) is the identity");
    if let Some(f) = eng.gt_generator {
        ensure!(f() == gen, sig("generator"), "Gt::generator() != e(G1, G2)");
    }
    ensure!(g + h == of(x + y) && h + g == g + h, sig("add"), "{}", ctx());
    ensure!(g - h == of(x - y), sig("sub"), "{}", ctx());
    ensure!(-g == of(-x), sig("neg"), "{}", ctx());
    ensure!(g.double() == of(x.double()), sig("double"), "{}", ctx());
    ensure!(g * a == of(x * a), sig("mul"), "{}: a * g != e((x a) G1, G2)", ctx());
    ensure!(gen * x == g, sig("mul"), "{}: x * e(G1,G2) != e(x G1, G2)", ctx());
    ensure!(g + id == g && id + g == g && g - g == id && g + (-g) == id, sig("identity"), "{}", ctx());
    ensure!(is_id(&g) == bool::from(x.is_zero()) && (g == id) == bool::from(x.is_zero()), sig("is_identity"), "{}", ctx());
    ensure!((g == h) == (x == y), sig("eq"), "{}", ctx());
    // order r: (r-1) g = -g, hence r g = 0; 0 g = 0; 1 g = g
    ensure!(g * (-E::Fr::ONE) == -g && g * (-E::Fr::ONE) + g == id, sig("order-r"), "{}", ctx());
    ensure!(g * E::Fr::ZERO == id && g * E::Fr::ONE == g, sig("mul"), "{}: 0 g / 1 g", ctx());
    ensure!((g + h) * a == g * a + h * a && g * (a + y) == g * a + g * y, sig("mul:distributive"), "{}", ctx());
    ensure!((g + h) + gen == g + (h + gen), sig("add:associative"), "{}", ctx());
    // assign forms
    let mut t = g;
    t += h;
    ensure!(t == g + h, sig("add_assign"), "{}", ctx());
    let mut t = g;
    t -= h;
    ensure!(t == g - h, sig("sub_assign"), "{}", ctx());
    let mut t = g;
    t *= a;
    ensure!(t == g * a, sig("mul_assign"), "{}", ctx());
    ensure!([g, h, g].iter().sum::<E::Gt>() == of(x + y + x), sig("sum"), "{}", ctx());
    ensure!(std::iter::empty::<E::Gt>().sum::<E::Gt>() == id, sig("sum"), "empty sum");
    // Group::random lands in the order-r subgroup
    {
        use rand_core::SeedableRng;
        let r = E::Gt::random(rand_chacha::ChaCha20Rng::seed_from_u64(case.seed));
        ensure!(r * (-E::Fr::ONE) + r == id, sig("random"), "{}: Gt::random is not of order dividing r", ctx());
    }
    let boundary = [case.x, case.y, case.a].iter().any(|c| matches!(c % 7, 0 | 1 | 3));
    Ok(Verdict::of(boundary, format!("x={}", SCLASSES[case.x as usize % 7])).with(format!("a={}", SCLASSES[case.a as usize % 7])))
}

/// BLS12-381: Gt against the degree-12 extension it lives in.
fn gt_fp12_check(case: &GtCase) -> CaseResult {
    use midnight_curves::{bls12_381::Fp12, Bls12, Fq, G1Affine, G1Projective, G2Affine, G2Projective, Gt};
    let mut rng = SplitMix(case.seed);
    let x: Fq = scalar_of(case.x, &mut rng);
    let y: Fq = scalar_of(case.y, &mut rng);
    let a: Fq = scalar_of(case.a, &mut rng);
    let g: Gt = Bls12::pairing(&(G1Projective::generator() * x).to_affine(), &G2Affine::generator());
    let h: Gt = Bls12::pairing(&G1Affine::generator(), &(G2Projective::generator() * y).to_affine());
    let fg = Fp12::from(g);
    let fh = Fp12::from(h);
    let sig = |s: &str| format!("bls12_381:Gt:Fp12:{s}");
    let limbs = |s: &Fq| -> [u64; 4] {
        let b = s.to_bytes_le();
        let mut l = [0u64; 4];
        for (i, c) in b.chunks(8).enumerate() {
            l[i] = u64::from_le_bytes(c.try_into().unwrap());
        }
        l
    };
    ensure!(Gt::from(fg) == g, sig("roundtrip"), "Gt::from(Fp12::from(g)) != g");
    ensure!(Fp12::from(g + h) == fg * fh, sig("add"), "group operation is not multiplication in Fp12");
    ensure!(Fp12::from(-g) == fg.invert().unwrap(), sig("neg"), "negation is not inversion in Fp12");
    ensure!(Fp12::from(g.double()) == fg.square(), sig("double"), "doubling is not squaring in Fp12");
    ensure!(Fp12::from(g * a) == fg.pow_vartime(limbs(&a)), sig("mul"), "scalar multiplication is not exponentiation in Fp12 (a={})", SCLASSES[case.a as usize % 7]);
    ensure!(Fp12::from(Gt::identity()) == Fp12::ONE, sig("identity"), "identity is not 1");
    // order r: g^r = 1 with r = (r-1) + 1
    let rm1 = limbs(&-Fq::ONE);
    ensure!(fg.pow_vartime(rm1) * fg == Fp12::ONE, sig("order-r"), "g^r != 1 in Fp12");
    // serde encoding round trip (the encoding is that of the Fp12 element)
    let js = serde_json::to_string(&g).map_err(|e| Failure::new(sig("serialize"), e.to_string()))?;
    let back: Gt = serde_json::from_str(&js).map_err(|e| Failure::new(sig("deserialize"), format!("own encoding refused: {e}")))?;
    ensure!(back == g, sig("serde-roundtrip"), "decode(encode(g)) != g");
    ensure!(js == serde_json::to_string(&fg).unwrap(), sig("serialize"), "encoding of g differs from the encoding of its Fp12 element");
    let boundary = [case.x, case.y, case.a].iter().any(|c| matches!(c % 7, 0 | 1 | 3));
    Ok(Verdict::of(boundary, format!("x={}", SCLASSES[case.x as usize % 7])).with(format!("a={}", SCLASSES[case.a as usize % 7])))
}

/// Elements of Fp12 outside the order-r subgroup offered to the Gt decoder.
fn gt_decode_check(what: &str) -> CaseResult {
    use midnight_curves::{bls12_381::Fp12, Fp, Gt};
    let mut rng = SplitMix(0xD3C0DE);
    let rand_fp12 = |rng: &mut SplitMix| {
        use rand_core::SeedableRng;
        Fp12::random(rand_chacha::ChaCha20Rng::seed_from_u64(rng.next_u64()))
    };
    let f: Fp12 = match what {
        "zero" => Fp12::ZERO,
        "two" => Fp12::from(Fp::from(2u64)),
        "minus-one" => -Fp12::ONE,
        "random-Fp12" => rand_fp12(&mut rng),
        _ => {
            // easy part of the final exponentiation only: in the cyclotomic
            // subgroup (unitary), of order dividing (p^4-p^2+1) but in general not r
            let x = rand_fp12(&mut rng);
            let mut c = x;
            c.conjugate();
            let t = c * x.invert().unwrap(); // x^(p^6-1)
            let mut u = t;
            u.frobenius_map(2);
            u * t // ^(p^2+1)
        }
    };
    // membership by definition: f != 0 and f^r = 1
    let rm1: [u64; 4] = {
        let b = (-midnight_curves::Fq::ONE).to_bytes_le();
        let mut l = [0u64; 4];
        for (i, c) in b.chunks(8).enumerate() {
            l[i] = u64::from_le_bytes(c.try_into().unwrap());
        }
        l
    };
    let member = !bool::from(f.is_zero()) && f.pow_vartime(rm1) * f == Fp12::ONE;
    if member {
        return Ok(Verdict::trivial(format!("{what}:member")));
    }
    let js = serde_json::to_string(&f).unwrap();
    match serde_json::from_str::<Gt>(&js) {
        Err(_) => Ok(Verdict::nontrivial(format!("{what}:rejected"))),
        Ok(_) => Err(Failure::new(
            "bls12_381:Gt:deserialize:accepts-non-member",
            format!("Gt::deserialize accepted the encoding of an Fp12 element ({what}) that is not in the order-r subgroup"),
        )),
    }
}

// ---------------------------------------------------------------------------

fn engine_suite<E: MultiMillerLoop>(p: &Prop, eng: &Eng<E>, scale: u32) {
    let name = eng.name;
    p.sub(
        &format!("pairing.bilinear.{name}"),
        "scalars a,b in {0,1,2,r-1,(r-1)/2,small,random} x P in G1, Q in G2 from {identity, generator, -generator, k*G with known k, Group::random}: e(kG1,lG2) = (kl) e(G1,G2); e(aP,bQ) = (ab) e(P,Q) = e(abP,Q) = e(P,abQ); identity iff an argument is the identity; additivity in both arguments; negation; every entry point (Engine::pairing, free fn, pairing_with both ways, multi_miller_loop of one prepared term, both affine conversions) agrees; non-trivial = a boundary scalar {0,1,r-1} or an identity point",
        p.tier.pick(9_000, 240_000) / scale,
        16,
        bi_strategy,
        |c| bilinear_check(eng, c),
    );
    p.sub(
        &format!("pairing.multi.{name}"),
        "lists of 0..8 pairs (classes as above, optionally completed by a term that makes the exponents cancel): FE(ML(list)) = product of the individual pairings = (sum k_i l_i) e(G1,G2) when the discrete logs are known (identity iff the sum is 0); independent of order (reversed, rotated); duplicated list doubles; Gt sum; non-trivial = length >= 2 or contains an identity",
        p.tier.pick(6_000, 200_000) / scale,
        16,
        multi_strategy,
        |c| multi_check(eng, c),
    );
    p.sub(
        &format!("pairing.ml-add.{name}"),
        "a list of 2..8 pairs split into two non-empty parts: FE(ML(l1) + ML(l2)) = FE(ML(l1 ++ l2)) for Add, Add<&>, AddAssign, AddAssign<&> (multi_miller_loop is documented as the sum of the Miller loops of its terms)",
        p.tier.pick(800, 30_000) / scale,
        8,
        multi_strategy,
        |c| ml_add_check(eng, c),
    );
    p.enumerate(
        &format!("pairing.ml-empty.{name}"),
        "the empty term list and MillerLoopResult::default() behave as the neutral element: alone and added to a non-trivial Miller-loop result",
        vec![
            "FE(ML([])) == identity".to_string(),
            "FE(ML([]) + ML(l)) == FE(ML(l))".to_string(),
            "FE(ML(l) + ML([])) == FE(ML(l))".to_string(),
            "FE(default()) == identity".to_string(),
            "FE(default() + ML(l)) == FE(ML(l))".to_string(),
        ],
        1,
        true,
        |w| ml_empty_check(eng, w),
    );
    p.sub(
        &format!("gt.group.{name}"),
        "g = e(xG1,G2), h = e(G1,yG2), scalar a, with x,y,a in the scalar classes: +, -, neg, double, scalar multiplication, identity, equality, Sum, assign forms against exponent arithmetic in Fr through fresh pairings; (r-1) g = -g (order r); distributivity, associativity; Gt::generator() = e(G1,G2) where implemented; Gt::random is of order dividing r; non-trivial = a boundary scalar",
        p.tier.pick(2_400, 60_000) / scale,
        16,
        || (0u8..7, 0u8..7, 0u8..7, any::<u64>()).prop_map(|(x, y, a, seed)| GtCase { x, y, a, seed }).boxed(),
        |c| gt_check(eng, c),
    );
}

fn main() {
    vpcore::main("C13", "exploration", (1200, 14400), |p| {
        use midnight_curves::{bn256::Bn256, Bls12, Gt};
        p.assume("G1/G2 scalar multiplication, addition, negation and affine conversion are correct (C11); Fr and Fp12 arithmetic are correct (C10)");
        p.assume("generated points are of prime order r (multiples of the generators, or Group::random which clears the cofactor)");
        let _ = from_limbs::<midnight_curves::Fq>; // shared scalar helpers live in vp_alg::c12_msm
        let bls = Eng::<Bls12> {
            name: "bls12_381",
            free_pairing: Some(midnight_curves::bls12_381::pairing),
            gt_generator: Some(Gt::generator),
        };
        // bn256::Gt::generator() is `unimplemented!()` in the dev curve (not exercised)
        let bn = Eng::<Bn256> { name: "bn256", free_pairing: None, gt_generator: None };
        engine_suite(p, &bls, 1);
        engine_suite(p, &bn, 2);
        p.sub(
            "gt.fp12.bls12_381",
            "Gt <-> Fp12: round trip, group operation = Fp12 multiplication, negation = inversion, doubling = squaring, scalar multiplication = Fp12 exponentiation, g^r = 1, serde encoding round trip and equal to the Fp12 encoding; non-trivial = a boundary scalar",
            p.tier.pick(3_000, 100_000),
            16,
            || (0u8..7, 0u8..7, 0u8..7, any::<u64>()).prop_map(|(x, y, a, seed)| GtCase { x, y, a, seed }).boxed(),
            gt_fp12_check,
        );
        p.enumerate(
            "gt.decode.bls12_381",
            "REGRESSION (fixed: the Gt decoder accepted any Fp12 element): Fp12 elements that are not in the order-r subgroup (0, 2, -1, a random element, a random element of the cyclotomic subgroup) offered to the serde decoder of Gt: the encoding of Gt is that of the order-r subgroup, so they must be refused (membership decided by f != 0 and f^r = 1 in Fp12)",
            ["zero", "two", "minus-one", "random-Fp12", "random-cyclotomic"].iter().map(|s| s.to_string()).collect(),
            1,
            false,
            |w| gt_decode_check(w),
        );
    });
}
