//! E1 — generated PLONK circuit family.
//!
//! A circuit is a value [`Spec`] (used as `Circuit::Params`), expanded from
//! shrinkable [`Knobs`]. The honest witness is a pure function
//! `build_plan(spec, witness_seed) -> Plan`; synthesis executes the plan. A
//! fault is an edit of one plan entry (or instance value) before synthesis, so
//! MockProver and the real prover see exactly the same assignment.

use std::collections::HashMap;

use ff::Field;
use midnight_proofs::{
    circuit::{Layouter, SimpleFloorPlanner, Value},
    plonk::{
        Advice, Challenge, Circuit, Column, ConstraintSystem, Constraints, Error, Expression, FirstPhase, Fixed,
        Instance, SecondPhase, Selector, TableColumn, ThirdPhase,
    },
    poly::Rotation,
};
use proptest::prelude::*;
use serde::{Deserialize, Serialize};
use vpcore::SplitMix;

pub type F = midnight_curves::Fq;

pub const MAX_GATES: usize = 8;
const GATE_NAMES: [&str; MAX_GATES] = ["g0", "g1", "g2", "g3", "g4", "g5", "g6", "g7"];

#[derive(Clone, Debug, Serialize, Deserialize, PartialEq, Eq, Hash)]
pub struct AdvSpec {
    pub phase: u8,
    pub unblinded: bool,
}

#[derive(Clone, Copy, Debug, Serialize, Deserialize, PartialEq, Eq, Hash)]
pub struct CellRef {
    pub col: usize,
    pub rot: i32,
}

#[derive(Clone, Copy, Debug, Serialize, Deserialize, PartialEq, Eq, Hash)]
pub enum SelKind {
    Simple,
    Complex,
    Additive,
    FixedQ,
}

#[derive(Clone, Debug, Serialize, Deserialize, PartialEq, Eq, Hash)]
pub enum Eqn {
    /// sum(c_i * a_i) + k - out
    Lin { terms: Vec<(CellRef, i64)>, konst: i64, out: CellRef },
    /// prod(a_i) - out
    Prod { factors: Vec<CellRef>, out: CellRef },
    /// a - instance(icol, irot)
    Inst { a: CellRef, icol: usize, irot: i32 },
    /// b - a * challenge[ch]
    Chal { a: CellRef, b: CellRef, ch: usize },
}

impl Eqn {
    fn out(&self) -> CellRef {
        match self {
            Eqn::Lin { out, .. } | Eqn::Prod { out, .. } => *out,
            Eqn::Inst { a, .. } => *a,
            Eqn::Chal { b, .. } => *b,
        }
    }
    fn inputs(&self) -> Vec<CellRef> {
        match self {
            Eqn::Lin { terms, .. } => terms.iter().map(|t| t.0).collect(),
            Eqn::Prod { factors, .. } => factors.clone(),
            Eqn::Inst { .. } => vec![],
            Eqn::Chal { a, .. } => vec![*a],
        }
    }
}

#[derive(Clone, Debug, Serialize, Deserialize, PartialEq, Eq, Hash)]
pub struct GateSpec {
    pub sel: SelKind,
    pub eqs: Vec<Eqn>,
}

impl GateSpec {
    pub fn rot_range(&self) -> (i32, i32) {
        let mut lo = 0;
        let mut hi = 0;
        for e in &self.eqs {
            for c in e.inputs().into_iter().chain([e.out()]) {
                lo = lo.min(c.rot);
                hi = hi.max(c.rot);
            }
            if let Eqn::Inst { irot, .. } = e {
                lo = lo.min(*irot);
                hi = hi.max(*irot);
            }
        }
        (lo, hi)
    }
    fn has_inst(&self) -> bool {
        self.eqs.iter().any(|e| matches!(e, Eqn::Inst { .. }))
    }
    fn has_chal(&self) -> bool {
        self.eqs.iter().any(|e| matches!(e, Eqn::Chal { .. }))
    }
}

#[derive(Clone, Debug, Serialize, Deserialize, PartialEq, Eq, Hash)]
pub struct LookupSpec {
    /// `lookup_any` against two plain fixed columns instead of table columns
    pub any: bool,
    /// input expression i = a + m*b (b optional); one per table column used
    pub inputs: Vec<(usize, Option<(usize, i64)>)>, // advice column indices (rotation 0)
}

#[derive(Clone, Debug, Serialize, Deserialize, PartialEq, Eq, Hash)]
pub enum Src {
    Free,
    /// copy of the (first) output cell of an earlier op
    Copy { op: usize },
    FromInstance { icol: usize },
    FromConstant(u64),
    /// free cell additionally pinned with `constrain_constant`
    Pinned(u64),
}

#[derive(Clone, Debug, Serialize, Deserialize, PartialEq, Eq, Hash)]
pub enum Dst {
    None,
    ToInstance { icol: usize },
}

#[derive(Clone, Debug, Serialize, Deserialize, PartialEq, Eq, Hash)]
pub enum OpKind {
    Gate(usize),
    Lookup { idx: usize, row: usize },
}

#[derive(Clone, Debug, Serialize, Deserialize, PartialEq, Eq, Hash)]
pub struct Op {
    pub kind: OpKind,
    pub srcs: Vec<Src>,
    pub dst: Dst,
    /// extra cells assigned in the region that no constraint reads
    pub filler: usize,
}

#[derive(Clone, Debug, Default, Serialize, Deserialize, PartialEq, Eq, Hash)]
pub struct Spec {
    pub k: u32,
    pub advice: Vec<AdvSpec>,
    pub n_instance: usize,
    pub gates: Vec<GateSpec>,
    pub lookups: Vec<LookupSpec>,
    pub table: Vec<[u64; 2]>,
    pub ops: Vec<Op>,
    pub min_degree: Option<usize>,
    /// bit i set = equality enabled on advice column i even if no copy needs it
    pub eq_mask: u32,
    /// order in which the advice columns are allocated in the constraint system (indices
    /// into `advice`; empty = in order). A column of phase p only needs *some* column of
    /// phase p-1 to exist already, so columns need not be grouped by phase.
    #[serde(default)]
    pub alloc_order: Vec<usize>,
    /// seed for redundant copy constraints between cells copied from one source (0 = none)
    #[serde(default)]
    pub redundant: u8,
    /// filler cells (read by no gate) are copies of earlier outputs instead of free values
    #[serde(default)]
    pub filler_copies: bool,
    /// gates with a fixed coefficient column query it at the next row (the coefficient of a gate
    /// enabled at row r is written at row r + 1)
    #[serde(default)]
    pub fixed_rot: bool,
}

impl Spec {
    /// Allocation order of the advice columns (a permutation of their indices).
    pub fn allocation(&self) -> Vec<usize> {
        if self.alloc_order.len() == self.advice.len() {
            self.alloc_order.clone()
        } else {
            (0..self.advice.len()).collect()
        }
    }

    pub fn max_phase(&self) -> u8 {
        self.advice.iter().map(|a| a.phase).max().unwrap_or(0)
    }
    pub fn features(&self) -> Vec<&'static str> {
        let mut f = vec![];
        if !self.lookups.is_empty() && self.ops.iter().any(|o| matches!(o.kind, OpKind::Lookup { .. })) {
            f.push("lookup");
            if self.lookups.iter().any(|l| l.any) {
                f.push("lookup_any");
            }
        }
        let used: Vec<&GateSpec> = self
            .ops
            .iter()
            .filter_map(|o| match o.kind {
                OpKind::Gate(g) => Some(&self.gates[g]),
                _ => None,
            })
            .collect();
        if used.iter().any(|g| g.sel == SelKind::Additive) {
            f.push("additive-selector");
        }
        if used.iter().any(|g| g.sel == SelKind::FixedQ) {
            f.push("fixed-coefficient");
            if self.fixed_rot {
                f.push("fixed-column-queried-at-rotation");
            }
        }
        if used.iter().any(|g| g.sel == SelKind::Complex) {
            f.push("complex-selector");
        }
        if used.iter().any(|g| g.has_chal()) {
            f.push("challenge-gate");
        }
        if used.iter().any(|g| g.has_inst()) {
            f.push("instance-gate");
        }
        if used.iter().any(|g| g.eqs.len() > 1) {
            f.push("multi-constraint-gate");
        }
        if used.iter().any(|g| g.rot_range() != (0, 0)) {
            f.push("rotations");
        }
        if self.max_phase() >= 1 {
            f.push("phase>=2");
        }
        if self.max_phase() >= 2 {
            f.push("phase=3");
        }
        if self.advice.iter().any(|a| a.unblinded) {
            f.push("unblinded");
        }
        {
            let order = self.allocation();
            if order.windows(2).any(|w| self.advice[w[0]].phase > self.advice[w[1]].phase) {
                f.push("phases-interleaved");
            }
        }
        for o in &self.ops {
            for s in &o.srcs {
                match s {
                    Src::Copy { .. } => f.push("copy-advice"),
                    Src::FromInstance { .. } => f.push("copy-from-instance"),
                    Src::FromConstant(_) | Src::Pinned(_) => f.push("copy-constant"),
                    Src::Free => {}
                }
            }
            if matches!(o.dst, Dst::ToInstance { .. }) {
                f.push("copy-to-instance");
            }
        }
        f.sort();
        f.dedup();
        f
    }
}

// ---------------------------------------------------------------------------
// Plan (the assignment, as data)

#[derive(Clone, Debug, Serialize, Deserialize, PartialEq)]
pub enum How {
    Plain,
    FromInstance { icol: usize, row: usize },
    FromConstant(u64),
}

#[derive(Clone, Debug)]
pub struct Assign {
    pub col: usize,
    pub offset: usize,
    pub base: F,
    /// multiply `base` by this challenge at synthesis time
    pub chal: Option<usize>,
    /// fault: added to the final value
    pub delta: F,
    pub how: How,
}

#[derive(Clone, Debug)]
pub enum Check {
    Lin { terms: Vec<(usize, i64)>, konst: i64, out: usize, class: &'static str },
    Prod { factors: Vec<usize>, out: usize, class: &'static str },
    Inst { a: usize, icol: usize, row: usize },
    Chal { a: usize, b: usize },
    Lookup { inputs: Vec<(usize, Option<(usize, i64)>)>, any: bool },
    Copy { here: usize, region: usize, there: usize },
    /// the same equality declared with the operands the other way round
    /// (`constrain_equal(there, here)`); only used for redundant equalities
    CopyRev { here: usize, region: usize, there: usize },
    Pinned { idx: usize, value: u64 },
    ToInstance { idx: usize, icol: usize, row: usize },
}

impl Check {
    pub fn class(&self) -> &'static str {
        match self {
            Check::Lin { class, .. } | Check::Prod { class, .. } => class,
            Check::Inst { .. } => "gate-instance",
            Check::Chal { .. } => "gate-challenge",
            Check::Lookup { .. } => "lookup",
            Check::Copy { .. } | Check::CopyRev { .. } => "copy-advice",
            Check::Pinned { .. } => "copy-constant",
            Check::ToInstance { .. } => "copy-instance",
        }
    }
    fn touches(&self, idx: usize) -> bool {
        match self {
            Check::Lin { terms, out, .. } => *out == idx || terms.iter().any(|t| t.0 == idx),
            Check::Prod { factors, out, .. } => *out == idx || factors.contains(&idx),
            Check::Inst { a, .. } => *a == idx,
            Check::Chal { a, b } => *a == idx || *b == idx,
            Check::Lookup { inputs, .. } => inputs.iter().any(|(a, b)| *a == idx || b.map(|b| b.0) == Some(idx)),
            Check::Copy { here, .. } | Check::CopyRev { here, .. } => *here == idx,
            Check::Pinned { idx: i, .. } | Check::ToInstance { idx: i, .. } => *i == idx,
        }
    }
}

#[derive(Clone, Debug, Default)]
pub struct RegionPlan {
    pub height: usize,
    pub assigns: Vec<Assign>,
    /// (gate index, offset)
    pub enables: Vec<(usize, usize)>,
    /// (lookup index, offset)
    pub lookup_enables: Vec<(usize, usize)>,
    pub checks: Vec<Check>,
    /// index (in `assigns`) of the cell other ops may copy from
    pub out_idx: Option<usize>,
}

#[derive(Clone, Debug, Default)]
pub struct Plan {
    pub regions: Vec<RegionPlan>,
    pub instances: Vec<Vec<F>>,
    pub known: bool,
}

fn f_i64(v: i64) -> F {
    if v >= 0 {
        F::from(v as u64)
    } else {
        -F::from((-v) as u64)
    }
}

fn rand_f(rng: &mut SplitMix) -> F {
    // boundary-heavy values
    match rng.below(8) {
        0 => F::ZERO,
        1 => F::ONE,
        2 => -F::ONE,
        3 => F::from(rng.below(16)),
        _ => {
            let mut b = [0u8; 64];
            b.copy_from_slice(&rng.bytes(64));
            <F as ff::FromUniformBytes<64>>::from_uniform_bytes(&b)
        }
    }
}

/// Builds the honest assignment of `spec` from a witness seed. Structure
/// (everything but `Assign::base`, instance values) depends on `spec` only.
pub fn build_plan(spec: &Spec, wseed: u64) -> Plan {
    let mut rng = SplitMix(wseed ^ 0x5eed_0000);
    let is_inst_op = |i: usize| matches!(spec.ops[i].kind, OpKind::Gate(g) if spec.gates[g].has_inst());
    // region 0: all ops on gates with an instance equation (absolute rows are
    // known there because the first region starts at row 0)
    let mut order: Vec<usize> = (0..spec.ops.len()).collect();
    order.sort_by_key(|i| if is_inst_op(*i) { 0 } else { 1 });
    let n_inst_ops = order.iter().filter(|i| is_inst_op(**i)).count();
    let has_r0 = n_inst_ops > 0;
    let mut plan = Plan {
        regions: if has_r0 { vec![RegionPlan::default()] } else { vec![] },
        instances: vec![vec![]; spec.n_instance],
        known: true,
    };
    let mut region0_rows = 0usize;
    for i in order.iter().take(n_inst_ops) {
        if let OpKind::Gate(g) = spec.ops[*i].kind {
            let (lo, hi) = spec.gates[g].rot_range();
            region0_rows += (hi - lo + 1) as usize;
        }
    }
    for col in plan.instances.iter_mut() {
        for _ in 0..region0_rows {
            col.push(rand_f(&mut rng));
        }
    }
    let mut next_inst_row: Vec<usize> = vec![region0_rows; spec.n_instance];
    // op index -> (region, out assign idx, value)
    let mut outs: HashMap<usize, (usize, usize, F)> = HashMap::new();
    let mut region0 = RegionPlan::default();
    let mut r0_base = 0usize;

    struct Ctx {
        cells: HashMap<(usize, usize), usize>,
        vals: HashMap<usize, F>,
        src_pos: usize,
    }
    #[allow(clippy::too_many_arguments)]
    fn input(
        cx: &mut Ctx,
        rp: &mut RegionPlan,
        op: &Op,
        spec: &Spec,
        outs: &HashMap<usize, (usize, usize, F)>,
        rng: &mut SplitMix,
        instances: &mut [Vec<F>],
        next_inst_row: &mut [usize],
        col: usize,
        offset: usize,
        forced: Option<F>,
    ) -> usize {
        if let Some(i) = cx.cells.get(&(col, offset)) {
            return *i;
        }
        let idx = rp.assigns.len();
        let mut how = How::Plain;
        let value;
        if let Some(v) = forced {
            value = v;
        } else {
            let src = if op.srcs.is_empty() {
                Src::Free
            } else {
                let s = op.srcs[cx.src_pos % op.srcs.len()].clone();
                cx.src_pos += 1;
                s
            };
            match src {
                Src::Free => value = rand_f(rng),
                Src::Copy { op: o } => {
                    if let Some((r, a, v)) = outs.get(&o) {
                        value = *v;
                        rp.checks.push(Check::Copy { here: idx, region: *r, there: *a });
                    } else {
                        value = rand_f(rng);
                    }
                }
                Src::FromInstance { icol } => {
                    let icol = icol % spec.n_instance;
                    let row = next_inst_row[icol];
                    next_inst_row[icol] += 1;
                    let v = rand_f(rng);
                    while instances[icol].len() <= row {
                        instances[icol].push(F::ZERO);
                    }
                    instances[icol][row] = v;
                    value = v;
                    how = How::FromInstance { icol, row };
                }
                Src::FromConstant(c) => {
                    value = F::from(c);
                    how = How::FromConstant(c);
                }
                Src::Pinned(c) => {
                    value = F::from(c);
                    rp.checks.push(Check::Pinned { idx, value: c });
                }
            }
        }
        rp.assigns.push(Assign { col, offset, base: value, chal: None, delta: F::ZERO, how });
        cx.cells.insert((col, offset), idx);
        cx.vals.insert(idx, value);
        idx
    }

    for (pos, &oi) in order.iter().enumerate() {
        let op = &spec.ops[oi];
        let in_region0 = pos < n_inst_ops;
        let region_idx = if in_region0 { 0 } else { plan.regions.len() };
        let mut local = RegionPlan::default();
        let base = if in_region0 { r0_base } else { 0 };
        let mut cx = Ctx { cells: HashMap::new(), vals: HashMap::new(), src_pos: 0 };
        {
            let rp: &mut RegionPlan = if in_region0 { &mut region0 } else { &mut local };
            macro_rules! inp {
                ($col:expr, $off:expr, $forced:expr) => {
                    input(&mut cx, rp, op, spec, &outs, &mut rng, &mut plan.instances, &mut next_inst_row, $col, $off, $forced)
                };
            }
            match &op.kind {
                OpKind::Gate(g) => {
                    let gate = &spec.gates[*g];
                    let (lo, hi) = gate.rot_range();
                    let height = (hi - lo + 1) as usize;
                    let en = base + (-lo) as usize;
                    let off = |c: &CellRef| (en as i32 + c.rot) as usize;
                    rp.enables.push((*g, en));
                    let class: &'static str = match gate.sel {
                        SelKind::Simple => "gate-simple",
                        SelKind::Complex => "gate-complex",
                        SelKind::Additive => "gate-additive",
                        SelKind::FixedQ => "gate-fixedq",
                    };
                    let mut first_out = None;
                    for e in &gate.eqs {
                        match e {
                            Eqn::Lin { terms, konst, out } => {
                                let mut acc = f_i64(*konst);
                                let mut t_idx = vec![];
                                for (c, k) in terms {
                                    let i = inp!(c.col, off(c), None);
                                    acc += f_i64(*k) * cx.vals[&i];
                                    t_idx.push((i, *k));
                                }
                                let o = inp!(out.col, off(out), Some(acc));
                                rp.checks.push(Check::Lin { terms: t_idx, konst: *konst, out: o, class });
                                first_out.get_or_insert(o);
                            }
                            Eqn::Prod { factors, out } => {
                                let mut acc = F::ONE;
                                let mut f_idx = vec![];
                                for c in factors {
                                    let i = inp!(c.col, off(c), None);
                                    acc *= cx.vals[&i];
                                    f_idx.push(i);
                                }
                                let o = inp!(out.col, off(out), Some(acc));
                                rp.checks.push(Check::Prod { factors: f_idx, out: o, class });
                                first_out.get_or_insert(o);
                            }
                            Eqn::Inst { a, icol, irot } => {
                                let icol = icol % spec.n_instance;
                                let irow = (en as i32 + *irot) as usize;
                                let v = plan.instances[icol][irow];
                                let i = inp!(a.col, off(a), Some(v));
                                rp.checks.push(Check::Inst { a: i, icol, row: irow });
                                first_out.get_or_insert(i);
                            }
                            Eqn::Chal { a, b, ch } => {
                                let ia = inp!(a.col, off(a), None);
                                let va = cx.vals[&ia];
                                let ib = inp!(b.col, off(b), Some(va));
                                rp.assigns[ib].chal = Some(*ch);
                                rp.checks.push(Check::Chal { a: ia, b: ib });
                            }
                        }
                    }
                    let mut h = height;
                    if let Some(o) = first_out {
                        if let Dst::ToInstance { icol } = &op.dst {
                            let icol = icol % spec.n_instance;
                            let row = next_inst_row[icol];
                            next_inst_row[icol] += 1;
                            while plan.instances[icol].len() <= row {
                                plan.instances[icol].push(F::ZERO);
                            }
                            plan.instances[icol][row] = cx.vals[&o];
                            rp.checks.push(Check::ToInstance { idx: o, icol, row });
                        }
                        rp.out_idx = Some(o);
                    }
                    // filler cells below the gate rows: assigned, never read
                    if !in_region0 {
                        for fidx in 0..op.filler {
                            let col = (oi + fidx) % spec.advice.len();
                            if spec.advice[col].phase != 0 {
                                continue;
                            }
                            // optionally a copy of an earlier output: a cell that only the
                            // permutation argument constrains
                            let mut value = rand_f(&mut rng);
                            if spec.filler_copies && !outs.is_empty() {
                                let mut keys: Vec<usize> = outs.keys().copied().collect();
                                keys.sort();
                                let (r, a, v) = outs[&keys[(oi + 3 * fidx) % keys.len()]];
                                value = v;
                                let here = rp.assigns.len();
                                rp.checks.push(Check::Copy { here, region: r, there: a });
                            }
                            rp.assigns.push(Assign { col, offset: base + h, base: value, chal: None, delta: F::ZERO, how: How::Plain });
                            h += 1;
                        }
                    }
                    if in_region0 {
                        r0_base += height;
                        rp.height = r0_base;
                    } else {
                        rp.height = h;
                    }
                    if let Some(o) = first_out {
                        outs.insert(oi, (region_idx, o, cx.vals[&o]));
                    }
                }
                OpKind::Lookup { idx, row } => {
                    let l = &spec.lookups[*idx];
                    let trow = spec.table[*row % spec.table.len()];
                    rp.lookup_enables.push((*idx, base));
                    let mut ins = vec![];
                    for (j, (a, mb)) in l.inputs.iter().enumerate() {
                        let target = F::from(trow[j]);
                        match mb {
                            Some((b, m)) => {
                                let ib = inp!(*b, base, None);
                                let va = target - f_i64(*m) * cx.vals[&ib];
                                let ia = inp!(*a, base, Some(va));
                                ins.push((ia, Some((ib, *m))));
                            }
                            None => {
                                let ia = inp!(*a, base, Some(target));
                                ins.push((ia, None));
                            }
                        }
                    }
                    rp.checks.push(Check::Lookup { inputs: ins, any: l.any });
                    rp.height = 1;
                }
            }
        }
        if !in_region0 {
            plan.regions.push(local);
        }
    }
    if has_r0 {
        plan.regions[0] = region0;
    }
    // redundant equalities: cells that are copies of one source are equal already; declaring
    // them equal once more (either way round) must change nothing. A function of the spec only.
    if spec.redundant != 0 {
        let mut groups: HashMap<(usize, usize), Vec<(usize, usize)>> = HashMap::new();
        for (ri, rp) in plan.regions.iter().enumerate() {
            for ch in &rp.checks {
                if let Check::Copy { here, region, there } = ch {
                    groups.entry((*region, *there)).or_default().push((ri, *here));
                }
            }
        }
        let mut keys: Vec<_> = groups.keys().copied().collect();
        keys.sort();
        let mut st = spec.redundant as u64 * 0x9e37_79b9_7f4a_7c15 + 7;
        let mut next = move || {
            st = st.wrapping_mul(6364136223846793005).wrapping_add(1442695040888963407);
            st >> 33
        };
        let mut added = 0;
        for k in keys {
            let g = &groups[&k];
            if g.len() < 2 || added >= 1 + (spec.redundant as usize % 3) {
                continue;
            }
            // a pair of copies, or a copy and the source itself
            let i = next() as usize % g.len();
            let mut j = next() as usize % g.len();
            if j == i {
                j = (i + 1) % g.len();
            }
            let (mut a, mut b) = (g[i], g[j]);
            if a > b {
                std::mem::swap(&mut a, &mut b);
            }
            // declared in the later region; `there` is assigned by then
            let ch = if next() % 2 == 0 { Check::Copy { here: b.1, region: a.0, there: a.1 } } else { Check::CopyRev { here: b.1, region: a.0, there: a.1 } };
            plan.regions[b.0].checks.push(ch);
            added += 1;
        }
    }
    plan
}

impl Plan {
    pub fn unknown(mut self) -> Self {
        self.known = false;
        self
    }

    /// Total number of advice assignments that a fault can target (plain ones).
    pub fn fault_sites(&self) -> Vec<(usize, usize)> {
        let mut v = vec![];
        for (r, rp) in self.regions.iter().enumerate() {
            for (i, a) in rp.assigns.iter().enumerate() {
                if a.how == How::Plain {
                    v.push((r, i));
                }
            }
        }
        v
    }

    /// Constraint classes that read the given advice assignment.
    pub fn classes_of(&self, region: usize, idx: usize) -> Vec<&'static str> {
        let mut c: Vec<&'static str> = self.regions[region]
            .checks
            .iter()
            .filter(|c| c.touches(idx))
            .map(|c| c.class())
            .collect();
        // copies where this cell is the *source*
        for rp in &self.regions {
            for ch in &rp.checks {
                if let Check::Copy { region: r, there, .. } | Check::CopyRev { region: r, there, .. } = ch {
                    if *r == region && *there == idx {
                        c.push("copy-advice");
                    }
                }
            }
        }
        c.sort();
        c.dedup();
        c
    }

    /// Constraint classes that read instance cell (icol, row).
    pub fn classes_of_instance(&self, icol: usize, row: usize) -> Vec<&'static str> {
        let mut c = vec![];
        for rp in &self.regions {
            for ch in &rp.checks {
                match ch {
                    Check::Inst { icol: i, row: r, .. } if *i == icol && *r == row => c.push("gate-instance"),
                    Check::ToInstance { icol: i, row: r, .. } if *i == icol && *r == row => c.push("copy-instance"),
                    _ => {}
                }
            }
            for a in &rp.assigns {
                if a.how == (How::FromInstance { icol, row }) {
                    c.push("copy-instance");
                }
            }
        }
        c.sort();
        c.dedup();
        c
    }

    /// Harness-side evaluation of every constraint of the plan on the current
    /// (possibly faulted) values. Returns the classes of violated constraints.
    /// Challenge equations are judged symbolically (violated iff a non-zero
    /// delta sits on either cell), which is exact up to the negligible event
    /// challenge = delta_b / delta_a.
    pub fn violated(&self, spec: &Spec) -> Vec<&'static str> {
        let mut out = vec![];
        let val = |r: usize, i: usize| -> F {
            let a = &self.regions[r].assigns[i];
            match &a.how {
                // the layouter copies the *current* instance value into the cell
                How::FromInstance { icol, row } => self.instances[*icol][*row],
                _ => a.base + a.delta,
            }
        };
        for (r, rp) in self.regions.iter().enumerate() {
            for ch in &rp.checks {
                let bad = match ch {
                    Check::Lin { terms, konst, out, .. } => {
                        let mut acc = f_i64(*konst);
                        for (i, k) in terms {
                            acc += f_i64(*k) * val(r, *i);
                        }
                        acc != val(r, *out)
                    }
                    Check::Prod { factors, out, .. } => {
                        let mut acc = F::ONE;
                        for i in factors {
                            acc *= val(r, *i);
                        }
                        acc != val(r, *out)
                    }
                    Check::Inst { a, icol, row } => val(r, *a) != self.instances[*icol][*row],
                    Check::Chal { a, b } => val(r, *a) != rp.assigns[*b].base || rp.assigns[*b].delta != F::ZERO,
                    Check::Lookup { inputs, any } => {
                        let tuple: Vec<F> = inputs
                            .iter()
                            .map(|(a, mb)| val(r, *a) + mb.map(|(b, m)| f_i64(m) * val(r, b)).unwrap_or(F::ZERO))
                            .collect();
                        !spec.table.iter().any(|row| tuple.iter().enumerate().all(|(j, v)| *v == F::from(row[j])))
                            // lookup_any tables also contain the all-zero row (unassigned fixed cells)
                            && !(*any && tuple.iter().all(|v| *v == F::ZERO))
                    }
                    Check::Copy { here, region, there } | Check::CopyRev { here, region, there } => val(r, *here) != val(*region, *there),
                    Check::Pinned { idx, value } => val(r, *idx) != F::from(*value),
                    Check::ToInstance { idx, icol, row } => val(r, *idx) != self.instances[*icol][*row],
                };
                if bad {
                    out.push(ch.class());
                }
            }
            for a in &rp.assigns {
                if let How::FromInstance { .. } | How::FromConstant(_) = a.how {
                    // forced copies: the advice value is taken from the source by
                    // the layouter, nothing to violate from the advice side
                }
            }
        }
        // instance cells referenced by FromInstance: the advice cell is assigned the
        // *current* instance value by the layouter, so an instance edit there is
        // followed by the witness; nothing is violated unless the value feeds an equation.
        out.sort();
        out.dedup();
        out
    }
}

// ---------------------------------------------------------------------------
// Circuit

#[derive(Clone, Debug)]
pub struct GenConfig {
    advice: Vec<Column<Advice>>,
    instance: Vec<Column<Instance>>,
    challenges: Vec<Challenge>,
    /// per gate: selector or fixed q column
    gate_sel: Vec<GateSel>,
    lookup_sel: Vec<Selector>,
    table_cols: [TableColumn; 2],
    any_cols: [Column<Fixed>; 2],
}

#[derive(Clone, Debug)]
enum GateSel {
    Sel(Selector),
    Q(Column<Fixed>),
}

#[derive(Clone, Debug, Default)]
pub struct GenCircuit {
    pub spec: Spec,
    pub plan: Plan,
}

impl GenCircuit {
    pub fn new(spec: &Spec, plan: Plan) -> Self {
        GenCircuit { spec: spec.clone(), plan }
    }
}

impl Circuit<F> for GenCircuit {
    type Config = GenConfig;
    type FloorPlanner = SimpleFloorPlanner;
    type Params = Spec;

    fn without_witnesses(&self) -> Self {
        GenCircuit {
            spec: self.spec.clone(),
            plan: self.plan.clone().unknown(),
        }
    }

    fn params(&self) -> Spec {
        self.spec.clone()
    }

    fn configure(_: &mut ConstraintSystem<F>) -> GenConfig {
        unreachable!("configure_with_params is used")
    }

    fn configure_with_params(meta: &mut ConstraintSystem<F>, spec: Spec) -> GenConfig {
        // a constants column (fixed, equality-enabled) only when the circuit pins a cell to a
        // constant: circuits without any copy constraint then have an empty permutation argument
        let plan0 = build_plan(&spec, 0);
        let uses_constants = plan0.regions.iter().any(|rp| rp.checks.iter().any(|c| matches!(c, Check::Pinned { .. })) || rp.assigns.iter().any(|a| matches!(a.how, How::FromConstant(_))));
        if uses_constants {
            let constants = meta.fixed_column();
            meta.enable_constant(constants);
        }
        let mut advice_by_idx: Vec<Option<Column<Advice>>> = vec![None; spec.advice.len()];
        for idx in spec.allocation() {
            let a = &spec.advice[idx];
            let c = match (a.phase, a.unblinded) {
                (0, false) => meta.advice_column(),
                (0, true) => meta.unblinded_advice_column(),
                (1, false) => meta.advice_column_in(SecondPhase),
                (1, true) => meta.unblinded_advice_column_in(SecondPhase),
                (_, false) => meta.advice_column_in(ThirdPhase),
                (_, true) => meta.unblinded_advice_column_in(ThirdPhase),
            };
            advice_by_idx[idx] = Some(c);
        }
        let advice: Vec<Column<Advice>> = advice_by_idx.into_iter().map(|c| c.expect("allocation order is a permutation")).collect();
        // equality: needed wherever a copy touches the column; plus mask
        let mut need_eq = vec![false; advice.len()];
        let plan = plan0;
        for rp in &plan.regions {
            for ch in &rp.checks {
                match ch {
                    Check::Copy { here, region, there } | Check::CopyRev { here, region, there } => {
                        need_eq[rp.assigns[*here].col] = true;
                        need_eq[plan.regions[*region].assigns[*there].col] = true;
                    }
                    Check::Pinned { idx, .. } | Check::ToInstance { idx, .. } => need_eq[rp.assigns[*idx].col] = true,
                    _ => {}
                }
            }
            for a in &rp.assigns {
                if a.how != How::Plain {
                    need_eq[a.col] = true;
                }
            }
        }
        for (i, c) in advice.iter().enumerate() {
            if need_eq[i] || (spec.eq_mask >> i) & 1 == 1 {
                meta.enable_equality(*c);
            }
        }
        // (equality on instance columns is enabled after the gates are created, so
        // that the order of the instance queries is the gates' and not the columns')
        let instance: Vec<Column<Instance>> = (0..spec.n_instance).map(|_| meta.instance_column()).collect();
        let mut challenges = vec![];
        let mp = spec.max_phase();
        if mp >= 1 {
            challenges.push(meta.challenge_usable_after(FirstPhase));
        }
        if mp >= 2 {
            challenges.push(meta.challenge_usable_after(SecondPhase));
        }
        if let Some(d) = spec.min_degree {
            meta.set_minimum_degree(d);
        }
        let mut gate_sel = vec![];
        for (gi, g) in spec.gates.iter().enumerate() {
            let sel = match g.sel {
                SelKind::Simple => GateSel::Sel(meta.selector()),
                SelKind::Complex | SelKind::Additive => GateSel::Sel(meta.complex_selector()),
                SelKind::FixedQ => GateSel::Q(meta.fixed_column()),
            };
            let advice = advice.clone();
            let instance = instance.clone();
            let challenges = challenges.clone();
            let g2 = g.clone();
            let sel2 = sel.clone();
            let spec_fixed_rot = spec.fixed_rot;
            meta.create_gate(GATE_NAMES[gi], move |m| {
                let q = |m: &mut midnight_proofs::plonk::VirtualCells<'_, F>, c: &CellRef| m.query_advice(advice[c.col], Rotation(c.rot));
                let mut polys: Vec<Expression<F>> = vec![];
                for e in &g2.eqs {
                    let p = match e {
                        Eqn::Lin { terms, konst, out } => {
                            let mut acc = Expression::Constant(f_i64(*konst));
                            for (c, k) in terms {
                                acc = acc + Expression::Constant(f_i64(*k)) * q(m, c);
                            }
                            acc - q(m, out)
                        }
                        Eqn::Prod { factors, out } => {
                            let mut acc = Expression::Constant(F::ONE);
                            for c in factors {
                                acc = acc * q(m, c);
                            }
                            acc - q(m, out)
                        }
                        Eqn::Inst { a, icol, irot } => q(m, a) - m.query_instance(instance[icol % instance.len()], Rotation(*irot)),
                        Eqn::Chal { a, b, ch } => q(m, b) - q(m, a) * m.query_challenge(challenges[*ch]),
                    };
                    polys.push(p);
                }
                match (&sel2, g2.sel) {
                    (GateSel::Sel(s), SelKind::Additive) => Constraints::with_additive_selector(*s, polys),
                    (GateSel::Sel(s), _) => Constraints::with_selector(*s, polys),
                    (GateSel::Q(c), _) => {
                        let qe = m.query_fixed(*c, if spec_fixed_rot { Rotation::next() } else { Rotation::cur() });
                        Constraints::without_selector(polys.into_iter().map(|p| qe.clone() * p).collect::<Vec<_>>())
                    }
                }
            });
            gate_sel.push(sel);
        }
        {
            let mut need = vec![false; instance.len()];
            for rp in &plan.regions {
                for ch in &rp.checks {
                    if let Check::ToInstance { icol, .. } = ch {
                        need[*icol] = true;
                    }
                }
                for a in &rp.assigns {
                    if let How::FromInstance { icol, .. } = &a.how {
                        need[*icol] = true;
                    }
                }
            }
            for (i, c) in instance.iter().enumerate() {
                if need[i] || (spec.eq_mask >> (8 + i)) & 1 == 1 {
                    meta.enable_equality(*c);
                }
            }
        }
        let table_cols = [meta.lookup_table_column(), meta.lookup_table_column()];
        let any_cols = [meta.fixed_column(), meta.fixed_column()];
        let mut lookup_sel = vec![];
        for l in &spec.lookups {
            let s = meta.complex_selector();
            lookup_sel.push(s);
            let advice = advice.clone();
            let l2 = l.clone();
            let defaults: Vec<F> = (0..2).map(|j| F::from(spec.table[0][j])).collect();
            if l.any {
                meta.lookup_any("la", move |m| {
                    let se = m.query_selector(s);
                    l2.inputs
                        .iter()
                        .enumerate()
                        .map(|(j, (a, mb))| {
                            let mut e = m.query_advice(advice[*a], Rotation::cur());
                            if let Some((b, mm)) = mb {
                                e = e + Expression::Constant(f_i64(*mm)) * m.query_advice(advice[*b], Rotation::cur());
                            }
                            (se.clone() * e, m.query_fixed(any_cols[j], Rotation::cur()))
                        })
                        .collect()
                });
            } else {
                meta.lookup("lt", move |m| {
                    let se = m.query_selector(s);
                    l2.inputs
                        .iter()
                        .enumerate()
                        .map(|(j, (a, mb))| {
                            let mut e = m.query_advice(advice[*a], Rotation::cur());
                            if let Some((b, mm)) = mb {
                                e = e + Expression::Constant(f_i64(*mm)) * m.query_advice(advice[*b], Rotation::cur());
                            }
                            let one = Expression::Constant(F::ONE);
                            (se.clone() * e + (one - se.clone()) * Expression::Constant(defaults[j]), table_cols[j])
                        })
                        .collect()
                });
            }
        }
        GenConfig { advice, instance, challenges, gate_sel, lookup_sel, table_cols, any_cols }
    }

    fn synthesize(&self, cfg: GenConfig, mut layouter: impl Layouter<F>) -> Result<(), Error> {
        let spec = &self.spec;
        let plan = &self.plan;
        let chals: Vec<Value<F>> = cfg.challenges.iter().map(|c| layouter.get_challenge(*c)).collect();
        let mut cells: Vec<Vec<midnight_proofs::circuit::Cell>> = vec![];
        let mut to_instance = vec![];
        for (ri, rp) in plan.regions.iter().enumerate() {
            let region_cells = layouter.assign_region(
                || "op",
                |mut region| {
                    let mut rc = vec![];
                    for a in &rp.assigns {
                        let col = cfg.advice[a.col];
                        let cell = match &a.how {
                            How::Plain => {
                                let v = if plan.known {
                                    match a.chal {
                                        Some(ch) => chals[ch].map(|c| a.base * c + a.delta),
                                        None => Value::known(a.base + a.delta),
                                    }
                                } else {
                                    Value::unknown()
                                };
                                region.assign_advice(|| "a", col, a.offset, || v)?.cell()
                            }
                            How::FromInstance { icol, row } => region
                                .assign_advice_from_instance(|| "ai", cfg.instance[*icol], *row, col, a.offset)?
                                .cell(),
                            How::FromConstant(c) => region.assign_advice_from_constant(|| "ac", col, a.offset, F::from(*c))?.cell(),
                        };
                        rc.push(cell);
                    }
                    for (g, off) in &rp.enables {
                        match &cfg.gate_sel[*g] {
                            GateSel::Sel(s) => s.enable(&mut region, *off)?,
                            GateSel::Q(c) => {
                                region.assign_fixed(|| "q", *c, if spec.fixed_rot { *off + 1 } else { *off }, || Value::known(F::ONE))?;
                            }
                        }
                    }
                    for (l, off) in &rp.lookup_enables {
                        cfg.lookup_sel[*l].enable(&mut region, *off)?;
                    }
                    for ch in &rp.checks {
                        match ch {
                            Check::Copy { here, region: r, there } => {
                                let other = if *r == ri { rc[*there] } else { cells[*r][*there] };
                                region.constrain_equal(rc[*here], other)?;
                            }
                            Check::CopyRev { here, region: r, there } => {
                                let other = if *r == ri { rc[*there] } else { cells[*r][*there] };
                                region.constrain_equal(other, rc[*here])?;
                            }
                            Check::Pinned { idx, value } => region.constrain_constant(rc[*idx], F::from(*value))?,
                            _ => {}
                        }
                    }
                    Ok(rc)
                },
            )?;
            for ch in &rp.checks {
                if let Check::ToInstance { idx, icol, row } = ch {
                    to_instance.push((region_cells[*idx], *icol, *row));
                }
            }
            cells.push(region_cells);
        }
        for (cell, icol, row) in to_instance {
            layouter.constrain_instance(cell, cfg.instance[icol], row)?;
        }
        // tables (fixed content: depends on spec only)
        if spec.lookups.iter().any(|l| !l.any) {
            layouter.assign_table(
                || "table",
                |mut t| {
                    for (i, row) in spec.table.iter().enumerate() {
                        for j in 0..2 {
                            t.assign_cell(|| "t", cfg.table_cols[j], i, || Value::known(F::from(row[j])))?;
                        }
                    }
                    Ok(())
                },
            )?;
        }
        if spec.lookups.iter().any(|l| l.any) {
            layouter.assign_region(
                || "anytable",
                |mut region| {
                    for (i, row) in spec.table.iter().enumerate() {
                        for j in 0..2 {
                            region.assign_fixed(|| "t", cfg.any_cols[j], i, || Value::known(F::from(row[j])))?;
                        }
                    }
                    Ok(())
                },
            )?;
        }
        Ok(())
    }
}

// ---------------------------------------------------------------------------
// Knobs -> Spec (total expansion, so that proptest can shrink knobs freely)

#[derive(Clone, Debug, Serialize, Deserialize)]
pub struct GateKnob {
    pub kind: u8, // 0 lin, 1 prod, 2 inst, 3 chal, 4 lin+prod (two equations)
    pub sel: u8,
    pub cells: Vec<(u8, i8)>,
    pub coeffs: Vec<i8>,
    pub konst: i8,
}

#[derive(Clone, Debug, Serialize, Deserialize)]
pub struct OpKnob {
    pub target: u8,
    pub srcs: Vec<(u8, u16)>,
    pub dst: u8,
    pub filler: u8,
    pub row: u16,
}

#[derive(Clone, Debug, Serialize, Deserialize)]
pub struct Knobs {
    pub n_advice: u8,
    pub phases: u8,     // 1..=3
    pub unblinded: u8,  // mask
    pub n_instance: u8, // 1..=3
    pub gates: Vec<GateKnob>,
    pub lookups: Vec<(bool, u8, u8, i8, bool)>, // (any, col a, col b, m, two inputs)
    pub table: Vec<(u8, u8)>,
    pub ops: Vec<OpKnob>,
    pub min_degree: u8,
    pub eq_mask: u8,
    pub k_extra: u8,
    /// seed of the allocation order of the advice columns (0 = in order)
    #[serde(default)]
    pub alloc: u16,
    /// seed for redundant copy constraints (0 = none)
    #[serde(default)]
    pub redundant: u8,
    /// fixed coefficient columns queried at the next row
    #[serde(default)]
    pub fixed_rot: bool,
}

pub fn knobs_strategy(max_ops: usize) -> BoxedStrategy<Knobs> {
    let gate = (0u8..5, 0u8..4, proptest::collection::vec((0u8..8, -2i8..=2), 1..5), proptest::collection::vec(-3i8..=3, 0..5), -3i8..=3)
        .prop_map(|(kind, sel, cells, coeffs, konst)| GateKnob { kind, sel, cells, coeffs, konst });
    let op = (0u8..16, proptest::collection::vec((0u8..8, any::<u16>()), 0..4), 0u8..4, 0u8..3, any::<u16>())
        .prop_map(|(target, srcs, dst, filler, row)| OpKnob { target, srcs, dst, filler, row });
    (
        (2u8..=6, 1u8..=3, any::<u8>(), 1u8..=3),
        proptest::collection::vec(gate, 1..6),
        proptest::collection::vec((any::<bool>(), 0u8..8, 0u8..8, -2i8..=2, any::<bool>()), 0..3),
        proptest::collection::vec((0u8..20, 0u8..20), 1..6),
        proptest::collection::vec(op, 1..max_ops),
        (0u8..8, any::<u8>(), 0u8..4, prop_oneof![1 => Just(0u16), 2 => any::<u16>()], prop_oneof![1 => Just(0u8), 2 => any::<u8>()], proptest::bool::weighted(0.3)),
    )
        .prop_map(|((n_advice, phases, unblinded, n_instance), gates, lookups, table, ops, (min_degree, eq_mask, k_extra, alloc, redundant, fixed_rot))| Knobs {
            n_advice,
            phases,
            unblinded,
            n_instance,
            gates,
            lookups,
            table,
            ops,
            min_degree,
            eq_mask,
            k_extra,
            alloc,
            redundant,
            fixed_rot,
        })
        .boxed()
}

pub fn expand(kn: &Knobs) -> Spec {
    let n_adv = (kn.n_advice as usize).clamp(2, 6);
    let phases = (kn.phases as usize).clamp(1, 3).min(n_adv - 1);
    // phases are non-decreasing along the columns; at least one column in each phase < phases
    let mut advice = vec![];
    for i in 0..n_adv {
        let phase = if phases == 1 {
            0
        } else {
            // last columns get the later phases
            let from_end = n_adv - 1 - i;
            if from_end < phases - 1 {
                (phases - 1 - from_end) as u8
            } else {
                0
            }
        };
        advice.push(AdvSpec { phase, unblinded: (kn.unblinded >> i) & 1 == 1 });
    }
    let phase0: Vec<usize> = (0..n_adv).filter(|i| advice[*i].phase == 0).collect();
    let n_instance = (kn.n_instance as usize).clamp(1, 3);
    let col0 = |c: u8| phase0[c as usize % phase0.len()];
    let mut gates = vec![];
    for g in kn.gates.iter().take(MAX_GATES) {
        let sel = match g.sel % 4 {
            0 => SelKind::Simple,
            1 => SelKind::Complex,
            2 => SelKind::Additive,
            _ => SelKind::FixedQ,
        };
        let cellrefs: Vec<CellRef> = g.cells.iter().map(|(c, r)| CellRef { col: col0(*c), rot: *r as i32 }).collect();
        let out = CellRef { col: cellrefs[0].col, rot: cellrefs[0].rot };
        let inputs: Vec<CellRef> = cellrefs.iter().skip(1).copied().filter(|c| *c != out).collect();
        let coeff = |i: usize| -> i64 {
            let c = g.coeffs.get(i).copied().unwrap_or(1) as i64;
            if c == 0 {
                1
            } else {
                c
            }
        };
        let eqs = match g.kind % 5 {
            0 => vec![Eqn::Lin {
                terms: inputs.iter().enumerate().map(|(i, c)| (*c, coeff(i))).collect(),
                konst: g.konst as i64,
                out,
            }],
            1 => {
                if inputs.is_empty() {
                    vec![Eqn::Lin { terms: vec![], konst: g.konst as i64, out }]
                } else {
                    vec![Eqn::Prod { factors: inputs.clone(), out }]
                }
            }
            2 => vec![Eqn::Inst {
                a: out,
                icol: g.konst.unsigned_abs() as usize % n_instance,
                irot: g.coeffs.first().map(|c| (*c as i32).rem_euclid(3) - 1).unwrap_or(0),
            }],
            3 => {
                if phases >= 2 {
                    // b lives in a later-phase column; challenge index = phase(b) - 1
                    let later: Vec<usize> = (0..n_adv).filter(|i| advice[*i].phase >= 1).collect();
                    let bcol = later[g.konst.unsigned_abs() as usize % later.len()];
                    let ch = advice[bcol].phase as usize - 1;
                    let a = inputs.first().copied().unwrap_or(out);
                    vec![Eqn::Chal { a, b: CellRef { col: bcol, rot: 0 }, ch }]
                } else {
                    vec![Eqn::Lin {
                        terms: inputs.iter().enumerate().map(|(i, c)| (*c, coeff(i))).collect(),
                        konst: g.konst as i64,
                        out,
                    }]
                }
            }
            _ => {
                // two equations sharing the selector: out = lin(inputs); out2 = out * first input
                let out2 = CellRef { col: out.col, rot: out.rot + 1 };
                let ins: Vec<CellRef> = inputs.iter().copied().filter(|c| *c != out2).collect();
                let mut v = vec![Eqn::Lin {
                    terms: ins.iter().enumerate().map(|(i, c)| (*c, coeff(i))).collect(),
                    konst: g.konst as i64,
                    out,
                }];
                let f0 = ins.first().copied().unwrap_or(out);
                v.push(Eqn::Prod { factors: vec![out, f0], out: out2 });
                v
            }
        };
        gates.push(GateSpec { sel, eqs });
    }
    let mut table: Vec<[u64; 2]> = kn.table.iter().map(|(a, b)| [*a as u64, *b as u64]).collect();
    if table.is_empty() {
        table.push([0, 0]);
    }
    let mut lookups = vec![];
    for (any, a, b, m, two) in &kn.lookups {
        let ca = col0(*a);
        let mut cb = col0(*b);
        if cb == ca {
            cb = phase0[(phase0.iter().position(|c| *c == ca).unwrap() + 1) % phase0.len()];
        }
        let mut inputs = vec![];
        if cb != ca && *m != 0 {
            inputs.push((ca, Some((cb, *m as i64))));
        } else {
            inputs.push((ca, None));
        }
        if *two && phase0.len() >= 3 {
            // second input on a third column
            let cc = phase0.iter().copied().find(|c| *c != ca && *c != cb).unwrap();
            inputs.push((cc, None));
        }
        lookups.push(LookupSpec { any: *any, inputs });
    }
    let n_targets = gates.len() + lookups.len();
    let mut ops = vec![];
    for (oi, o) in kn.ops.iter().enumerate() {
        let t = o.target as usize % n_targets;
        let kind = if t < gates.len() { OpKind::Gate(t) } else { OpKind::Lookup { idx: t - gates.len(), row: o.row as usize } };
        let srcs = o
            .srcs
            .iter()
            .map(|(k, p)| match k % 8 {
                0 | 1 | 2 => Src::Free,
                3 | 4 => {
                    if oi > 0 {
                        Src::Copy { op: *p as usize % oi }
                    } else {
                        Src::Free
                    }
                }
                5 => Src::FromInstance { icol: *p as usize % n_instance },
                6 => Src::FromConstant(*p as u64 % 7),
                _ => Src::Pinned(*p as u64 % 7),
            })
            .collect();
        let dst = if o.dst % 4 == 1 { Dst::ToInstance { icol: o.row as usize % n_instance } } else { Dst::None };
        ops.push(Op { kind, srcs, dst, filler: o.filler as usize % 3 });
    }
    let alloc_order: Vec<usize> = {
            // a pseudo-random order in which each column's previous phase is already populated
            let n = advice.len();
            let mut order = vec![];
            if kn.alloc != 0 {
                let mut st = kn.alloc as u64 * 0x9e37_79b9_7f4a_7c15 + 1;
                let mut left: Vec<usize> = (0..n).collect();
                let mut have = [false; 4];
                while !left.is_empty() {
                    let ok: Vec<usize> = left.iter().copied().filter(|i| advice[*i].phase == 0 || have[advice[*i].phase as usize - 1]).collect();
                    st = st.wrapping_mul(6364136223846793005).wrapping_add(1442695040888963407);
                    let pick = ok[((st >> 33) % ok.len() as u64) as usize];
                    have[advice[pick].phase as usize] = true;
                    left.retain(|i| *i != pick);
                    order.push(pick);
                }
            }
            order
    };
    let mut spec = Spec {
        k: 0,
        advice,
        n_instance,
        gates,
        lookups,
        table,
        ops,
        min_degree: if kn.min_degree >= 3 && kn.min_degree <= 7 { Some(kn.min_degree as usize) } else { None },
        eq_mask: kn.eq_mask as u32 | ((kn.min_degree as u32 & 7) << 8),
        alloc_order,
        redundant: kn.redundant,
        filler_copies: kn.redundant & 1 == 1,
        fixed_rot: kn.fixed_rot,
    };
    // k_extra 3: the tightest domain the constraint system admits (possibly exactly
    // `minimum_rows` rows, i.e. two usable rows); otherwise a comfortable k plus 0..2
    spec.k = if kn.k_extra == 3 { tight_k(&spec) } else { min_k(&spec) + (kn.k_extra as u32 % 3) };
    spec
}

/// The smallest k for which key generation and honest proving are possible at all: 2^k >=
/// minimum_rows, and regions, tables and instance columns fit the usable rows.
pub fn tight_k(spec: &Spec) -> u32 {
    let mut cs = ConstraintSystem::<F>::default();
    let _ = GenCircuit::configure_with_params(&mut cs, spec.clone());
    let plan = build_plan(spec, 0);
    let table = if spec.lookups.is_empty() { 0 } else { spec.table.len() + 1 };
    let rows: usize = (plan.regions.iter().map(|r| r.height).sum::<usize>() + if spec.fixed_rot { plan.regions.len() } else { 0 }).max(table);
    let inst = plan.instances.iter().map(|c| c.len()).max().unwrap_or(0);
    let mut k = 1;
    while (1usize << k) < cs.minimum_rows() || rows.max(inst) + cs.blinding_factors() + 1 > (1usize << k) {
        k += 1;
    }
    k
}

/// Smallest k such that all regions, tables and instances fit the usable rows.
pub fn min_k(spec: &Spec) -> u32 {
    let mut cs = ConstraintSystem::<F>::default();
    let _ = GenCircuit::configure_with_params(&mut cs, spec.clone());
    let plan = build_plan(spec, 0);
    let rows: usize = plan.regions.iter().map(|r| r.height).sum::<usize>() + spec.table.len() + 2 + if spec.fixed_rot { plan.regions.len() } else { 0 };
    let inst = plan.instances.iter().map(|c| c.len()).max().unwrap_or(0);
    let need = rows.max(inst).max(cs.minimum_rows()) + cs.blinding_factors() + 2;
    let mut k = 3;
    while (1usize << k) < need {
        k += 1;
    }
    k.max(4)
}
