//! Circuit layer checks (C04–C09, C15, C16, C18–C20): shared engines.
pub mod e2;
pub mod e6;
