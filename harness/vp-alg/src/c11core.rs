//! C11 engine: case types, strategies and the checks that are generic over a
//! curve family (projective type `G`, affine type `A`, big-integer model `M`).
//! Family-specific operator forms and codecs live in `bin/c11.rs`.

use std::fmt::Debug;

use ff::PrimeField;
use group::{Curve, Group};
use num_bigint::BigUint;
use num_traits::{One, Zero};
use proptest::prelude::*;
use serde::{Deserialize, Serialize};
use subtle::{Choice, ConditionallySelectable, ConstantTimeEq};
use vpcore::{ensure, CaseResult, Failure, SplitMix, Verdict};

use crate::{curvemodel::*, from_big};

pub type Pt<F> = <<F as Fam>::M as CurveModel>::Pt;
pub type Fe<F> = <<<F as Fam>::M as CurveModel>::FM as FieldModel>::Fe;
pub type Sc<F> = <<F as Fam>::G as Group>::Scalar;

// ---------------------------------------------------------------------------
// Case types

#[derive(Clone, Debug, Serialize, Deserialize, PartialEq)]
pub enum PSpec {
    Identity,
    Generator,
    /// k * (generator of the prime-order subgroup), k small, by the model
    SmallMul(u64),
    /// k * (generator of the prime-order subgroup), k full size, by the library
    RandMul(u64),
    /// pseudo-random point of the whole curve (model square root)
    OnCurve(u64),
    /// point killed by the cofactor (small order on Jubjub / Curve25519)
    Torsion(u16),
    /// torsion point + k * subgroup generator: outside the subgroup
    TorsionPlus(u16, u64),
    /// point whose encoded coordinate is small enough for coordinate + p to fit
    SmallCoord(u64),
}

#[derive(Clone, Debug, Serialize, Deserialize, PartialEq)]
pub enum QRel {
    Indep(PSpec),
    Same,
    Neg,
}

#[derive(Clone, Debug, Serialize, Deserialize, PartialEq)]
pub enum KSpec {
    Zero,
    One,
    Two,
    RMinus1,
    RMinusSmall(u64),
    Small(u64),
    Pow2(u16),
    Rand(u64),
}

#[derive(Clone, Debug, Serialize, Deserialize)]
pub struct OpCase {
    pub p: PSpec,
    pub q: QRel,
    /// how the projective representation of P / Q is produced (0 = Z=1)
    pub rep_p: u8,
    pub rep_q: u8,
    pub aux: u64,
    pub k: KSpec,
}

#[derive(Clone, Debug, Serialize, Deserialize, PartialEq)]
pub enum FlipPos {
    Any(u16),
    First(u8),
    Last(u8),
}

#[derive(Clone, Debug, Serialize, Deserialize, PartialEq)]
pub enum Mutn {
    Valid,
    Flip(Vec<FlipPos>),
    FirstByte(u8),
    LastByte(u8),
    /// add the base-field modulus to coordinate slot i (if it fits)
    AddP(u8),
    Random,
    /// keep the first half, randomise the second half (compressed-in-uncompressed)
    TailNoise,
}

#[derive(Clone, Debug, Serialize, Deserialize)]
pub struct EncCase {
    pub p: PSpec,
    pub m: Mutn,
    pub aux: u64,
}

/// Operand classes. `mode`: 0 = prime-order curve, 1 = cofactor curve (all
/// classes), 2 = cofactor curve, prime-order subgroup only, 3 = cofactor curve,
/// outside-subgroup classes only.
pub fn pspec_mode(mode: u8) -> BoxedStrategy<PSpec> {
    match mode {
        1 => prop_oneof![
            3 => Just(PSpec::Identity),
            2 => Just(PSpec::Generator),
            3 => (1u64..=64).prop_map(PSpec::SmallMul),
            4 => any::<u64>().prop_map(PSpec::RandMul),
            3 => any::<u64>().prop_map(PSpec::OnCurve),
            3 => any::<u16>().prop_map(PSpec::Torsion),
            2 => (any::<u16>(), 1u64..=64).prop_map(|(i, k)| PSpec::TorsionPlus(i, k)),
            1 => any::<u64>().prop_map(PSpec::SmallCoord),
        ]
        .boxed(),
        2 => prop_oneof![
            3 => Just(PSpec::Identity),
            3 => (1u64..=64).prop_map(PSpec::SmallMul),
            6 => any::<u64>().prop_map(PSpec::RandMul),
        ]
        .boxed(),
        3 => prop_oneof![
            4 => any::<u64>().prop_map(PSpec::OnCurve),
            3 => any::<u16>().prop_map(PSpec::Torsion),
            3 => (any::<u16>(), 1u64..=64).prop_map(|(i, k)| PSpec::TorsionPlus(i, k)),
            1 => any::<u64>().prop_map(PSpec::SmallCoord),
        ]
        .boxed(),
        _ => prop_oneof![
            3 => Just(PSpec::Identity),
            2 => Just(PSpec::Generator),
            3 => (1u64..=64).prop_map(PSpec::SmallMul),
            4 => any::<u64>().prop_map(PSpec::RandMul),
            4 => any::<u64>().prop_map(PSpec::OnCurve),
            1 => any::<u64>().prop_map(PSpec::SmallCoord),
        ]
        .boxed(),
    }
}

pub fn pspec(cofactor: bool) -> BoxedStrategy<PSpec> {
    pspec_mode(cofactor as u8)
}

pub fn kspec() -> BoxedStrategy<KSpec> {
    prop_oneof![
        2 => Just(KSpec::Zero),
        2 => Just(KSpec::One),
        1 => Just(KSpec::Two),
        2 => Just(KSpec::RMinus1),
        2 => (1u64..1000).prop_map(KSpec::RMinusSmall),
        2 => (3u64..1000).prop_map(KSpec::Small),
        2 => any::<u16>().prop_map(KSpec::Pow2),
        6 => any::<u64>().prop_map(KSpec::Rand),
    ]
    .boxed()
}

pub fn op_strategy(cofactor: bool) -> BoxedStrategy<OpCase> {
    op_strategy_mode(cofactor as u8)
}

pub fn op_strategy_mode(mode: u8) -> BoxedStrategy<OpCase> {
    let q = prop_oneof![
        5 => pspec_mode(mode).prop_map(QRel::Indep),
        2 => Just(QRel::Same),
        2 => Just(QRel::Neg),
    ];
    (pspec_mode(mode), q, 0u8..4, 0u8..4, any::<u64>(), kspec())
        .prop_map(|(p, q, rep_p, rep_q, aux, k)| OpCase { p, q, rep_p, rep_q, aux, k })
        .boxed()
}

pub fn enc_strategy(cofactor: bool) -> BoxedStrategy<EncCase> {
    let pos = prop_oneof![
        3 => any::<u16>().prop_map(FlipPos::Any),
        2 => (0u8..8).prop_map(FlipPos::First),
        2 => (0u8..8).prop_map(FlipPos::Last),
    ];
    let m = prop_oneof![
        4 => Just(Mutn::Valid),
        6 => proptest::collection::vec(pos, 1..=2).prop_map(Mutn::Flip),
        2 => any::<u8>().prop_map(Mutn::FirstByte),
        2 => any::<u8>().prop_map(Mutn::LastByte),
        2 => (0u8..4).prop_map(Mutn::AddP),
        3 => Just(Mutn::Random),
        1 => Just(Mutn::TailNoise),
    ];
    (pspec(cofactor), m, any::<u64>()).prop_map(|(p, m, aux)| EncCase { p, m, aux }).boxed()
}

// ---------------------------------------------------------------------------
// Family

pub trait Fam: Sized + Send + Sync + 'static {
    type M: CurveModel;
    type G: Curve<AffineRepr = Self::A> + From<Self::A> + ConditionallySelectable + Default;
    type A: Copy + Debug + PartialEq + ConditionallySelectable + Default + From<Self::G> + Send + Sync;
    /// family tag, projective type name, affine type name (signature prefixes)
    const NAME: &'static str;
    const GN: &'static str;
    const AN: &'static str;
    /// cofactor > 1
    const COFACTOR: bool;
    /// bits available to the encoded coordinate in the compressed encoding
    const COORD_BITS: u64;
    fn model() -> &'static Self::M;
    /// order of the prime-order subgroup
    fn order() -> &'static BigUint;
    fn torsion() -> &'static Vec<Pt<Self>>;
    /// generator of the prime-order subgroup
    fn sub_generator() -> Self::G;
    /// library affine point -> model point, through the coordinate accessors
    fn a_to_m(a: &Self::A) -> Pt<Self>;
    /// model point (any point of the curve) -> library affine point
    fn m_to_a(p: &Pt<Self>) -> Self::A;
    fn g_ct_eq(a: &Self::G, b: &Self::G) -> Choice;
    fn a_ct_eq(a: &Self::A, b: &Self::A) -> Choice;
}

/// `a_to_m` with panics turned into failures.
pub fn am<F: Fam>(what: &str, a: &F::A) -> Result<Pt<F>, Failure> {
    vpcore::catch(|| F::a_to_m(a)).map_err(|p| {
        Failure::new(format!("{}:{what}:accessor-panic", F::AN), format!("coordinate accessor panicked: {p}"))
    })
}

pub fn gm<F: Fam>(what: &str, g: &F::G) -> Result<Pt<F>, Failure> {
    let a = vpcore::catch(|| g.to_affine())
        .map_err(|p| Failure::new(format!("{}:{what}:to_affine-panic", F::GN), format!("to_affine panicked: {p}")))?;
    am::<F>(what, &a)
}

pub struct Res<F: Fam> {
    pub m: Pt<F>,
    pub a: F::A,
    pub class: String,
    known_sub: Option<bool>,
}

impl<F: Fam> Res<F> {
    pub fn in_sub(&self) -> bool {
        match self.known_sub {
            Some(b) => b,
            None => in_subgroup::<F>(&self.m),
        }
    }
}

pub fn in_subgroup<F: Fam>(p: &Pt<F>) -> bool {
    if !F::COFACTOR {
        return true;
    }
    let m = F::model();
    m.is_identity(&m.mul(p, F::order()))
}

pub fn small_bound<F: Fam>() -> BigUint {
    let top = BigUint::one() << F::COORD_BITS;
    let p = F::model().fm().prime();
    if top > *p {
        top - p
    } else {
        BigUint::zero()
    }
}

pub fn scalar_of<F: Fam>(k: &KSpec) -> BigUint {
    let r = F::order();
    match k {
        KSpec::Zero => BigUint::zero(),
        KSpec::One => BigUint::one(),
        KSpec::Two => BigUint::from(2u32),
        KSpec::RMinus1 => r - 1u32,
        KSpec::RMinusSmall(d) => r - 1u32 - *d,
        KSpec::Small(v) => BigUint::from(*v),
        KSpec::Pow2(i) => BigUint::one() << ((*i as u64) % (r.bits() - 1)),
        KSpec::Rand(s) => BigUint::from_bytes_le(&SplitMix(*s).bytes(48)) % r,
    }
}

pub fn k_class(k: &KSpec) -> &'static str {
    match k {
        KSpec::Zero => "k=0",
        KSpec::One => "k=1",
        KSpec::Two => "k=2",
        KSpec::RMinus1 => "k=r-1",
        KSpec::RMinusSmall(_) => "k=r-small",
        KSpec::Small(_) => "k=small",
        KSpec::Pow2(_) => "k=2^i",
        KSpec::Rand(_) => "k=random",
    }
}

pub fn resolve<F: Fam>(s: &PSpec) -> Result<Res<F>, Failure> {
    let m = F::model();
    let mk = |pt: Pt<F>, class: &str, known: Option<bool>| -> Res<F> {
        let a = F::m_to_a(&pt);
        Res { m: pt, a, class: class.into(), known_sub: known }
    };
    let subgen = || gm::<F>("generator", &F::sub_generator());
    Ok(match s {
        PSpec::Identity => mk(m.identity(), "identity", Some(true)),
        PSpec::Generator => {
            let a = F::G::generator().to_affine();
            let pt = am::<F>("generator", &a)?;
            ensure!(m.on_curve(&pt) && !m.is_identity(&pt), format!("{}:generator", F::GN), "generator is not a non-trivial curve point: {pt:?}");
            Res { m: pt, a, class: "generator".into(), known_sub: if F::COFACTOR { None } else { Some(true) } }
        }
        PSpec::SmallMul(k) => mk(m.mul(&subgen()?, &BigUint::from(*k)), "k*G small", Some(true)),
        PSpec::RandMul(seed) => {
            let k = BigUint::from_bytes_le(&SplitMix(*seed).bytes(48)) % F::order();
            let g = F::sub_generator() * from_big::<Sc<F>>(&k);
            let a = g.to_affine();
            let pt = am::<F>("mul", &a)?;
            ensure!(m.on_curve(&pt), format!("{}:mul:off-curve", F::GN), "k*G is not on the curve for k={k}: {pt:?}");
            Res { m: pt, a, class: "k*G random".into(), known_sub: Some(true) }
        }
        PSpec::OnCurve(seed) => mk(curve_point(m, *seed), "curve point", if F::COFACTOR { None } else { Some(true) }),
        PSpec::Torsion(i) => {
            let t = F::torsion();
            if t.is_empty() {
                mk(curve_point(m, *i as u64), "curve point", Some(true))
            } else {
                mk(t[*i as usize % t.len()].clone(), "torsion point", Some(false))
            }
        }
        PSpec::TorsionPlus(i, k) => {
            let t = F::torsion();
            let kg = m.mul(&subgen()?, &BigUint::from(*k));
            if t.is_empty() {
                mk(kg, "k*G small", Some(true))
            } else {
                mk(m.add(&t[*i as usize % t.len()], &kg), "torsion + k*G", Some(false))
            }
        }
        PSpec::SmallCoord(seed) => match curve_point_small(m, &small_bound::<F>(), *seed) {
            Some(p) => mk(p, "small coordinate", if F::COFACTOR { None } else { Some(true) }),
            None => mk(curve_point(m, *seed), "curve point", if F::COFACTOR { None } else { Some(true) }),
        },
    })
}

/// Projective representation of the model point `r` built along path `rep`
/// with auxiliary subgroup point `t`.
pub fn build_rep<F: Fam>(r: &Res<F>, rep: u8, t: &Res<F>) -> F::G {
    let m = F::model();
    match rep % 4 {
        0 => F::G::from(r.a),
        1 => F::G::from(F::m_to_a(&m.sub(&r.m, &t.m))) + t.a,
        2 => (F::G::from(r.a) + F::G::from(t.a)) - F::G::from(t.a),
        _ => F::G::from(F::m_to_a(&m.add(&r.m, &t.m))) - t.a,
    }
}

pub struct Ctx<F: Fam> {
    pub mp: Pt<F>,
    pub mq: Pt<F>,
    pub pa: F::A,
    pub qa: F::A,
    pub p: F::G,
    pub q: F::G,
    /// the point P in another representation
    pub p2: F::G,
    pub t: Res<F>,
    pub same_rep: bool,
    pub kb: BigUint,
    pub s: Sc<F>,
    pub classes: Vec<String>,
    pub exceptional: bool,
}

pub fn context<F: Fam>(c: &OpCase) -> Result<Ctx<F>, Failure> {
    let m = F::model();
    let rp = resolve::<F>(&c.p)?;
    let (rq, rel) = match &c.q {
        QRel::Indep(s) => (resolve::<F>(s)?, "indep"),
        QRel::Same => (Res { m: rp.m.clone(), a: rp.a, class: rp.class.clone(), known_sub: rp.known_sub }, "P=Q"),
        QRel::Neg => {
            let n = m.neg(&rp.m);
            (Res { a: F::m_to_a(&n), m: n, class: rp.class.clone(), known_sub: rp.known_sub }, "P=-Q")
        }
    };
    let t = resolve::<F>(&PSpec::SmallMul(3 + c.aux % 60))?;
    let p = build_rep::<F>(&rp, c.rep_p, &t);
    let q = build_rep::<F>(&rq, c.rep_q, &t);
    let alt = (c.rep_p + 1 + (c.aux >> 8) as u8 % 3) % 4;
    let p2 = build_rep::<F>(&rp, alt, &t);
    let kb = scalar_of::<F>(&c.k);
    let s = from_big::<Sc<F>>(&kb);
    let mut classes = vec![format!("P:{}", rp.class), format!("Q:{}", rq.class), rel.to_string()];
    if c.rep_p % 4 != 0 || c.rep_q % 4 != 0 {
        classes.push("diff-representation".into());
    }
    if c.rep_p % 4 != c.rep_q % 4 && rp.m == rq.m {
        classes.push("P=Q diff-representation".into());
    }
    let exceptional = rel != "indep"
        || c.rep_p % 4 != 0
        || c.rep_q % 4 != 0
        || !matches!(c.p, PSpec::RandMul(_) | PSpec::OnCurve(_))
        || rp.m == rq.m
        || rp.m == m.neg(&rq.m);
    Ok(Ctx {
        mp: rp.m,
        mq: rq.m,
        pa: rp.a,
        qa: rq.a,
        p,
        q,
        p2,
        t,
        same_rep: c.rep_p % 4 == c.rep_q % 4,
        kb,
        s,
        classes,
        exceptional,
    })
}

pub fn verdict<F: Fam>(c: &Ctx<F>) -> CaseResult {
    let mut v = Verdict::of(c.exceptional, F::NAME);
    for cl in &c.classes {
        v = v.with(cl.clone());
    }
    Ok(v)
}

#[macro_export]
macro_rules! gchk {
    ($F:ty, $op:expr, $got:expr, $want:expr) => {{
        let got = $crate::c11core::gm::<$F>($op, &$got)?;
        let want = $want;
        vpcore::ensure!(got == want, format!("{}:{}", <$F as $crate::c11core::Fam>::GN, $op), "{} {}: got {:?}, model {:?}", <$F as $crate::c11core::Fam>::GN, $op, got, want);
    }};
}

#[macro_export]
macro_rules! achk {
    ($F:ty, $op:expr, $got:expr, $want:expr) => {{
        let got = $crate::c11core::am::<$F>($op, &$got)?;
        let want = $want;
        vpcore::ensure!(got == want, format!("{}:{}", <$F as $crate::c11core::Fam>::AN, $op), "{} {}: got {:?}, model {:?}", <$F as $crate::c11core::Fam>::AN, $op, got, want);
    }};
}

/// Operator forms guaranteed by `group::Group` / `group::Curve`, equality,
/// selection, summation, batch normalisation.
pub fn ops_generic<F: Fam>(c: &Ctx<F>, computed_identity_in_batch: bool) -> Result<(), Failure> {
    let m = F::model();
    let (p, q, p2, pa, qa) = (c.p, c.q, c.p2, c.pa, c.qa);
    let (mp, mq) = (&c.mp, &c.mq);
    let add = m.add(mp, mq);
    let sub = m.sub(mp, mq);
    let dbl = m.double(mp);
    let id = m.identity();
    ensure!(m.on_curve(mp) && m.on_curve(mq), "harness:operand-off-curve", "operand not on the model curve");
    gchk!(F, "to_affine", p, mp.clone());
    gchk!(F, "to_affine", q, mq.clone());
    gchk!(F, "to_affine", p2, mp.clone());
    achk!(F, "from_projective", F::A::from(p), mp.clone());
    gchk!(F, "from_affine", F::G::from(pa), mp.clone());
    gchk!(F, "add:proj+proj", p + q, add.clone());
    gchk!(F, "add:proj+&proj", p + &q, add.clone());
    gchk!(F, "add:proj+proj", q + p, add.clone());
    gchk!(F, "sub:proj-proj", p - q, sub.clone());
    gchk!(F, "sub:proj-&proj", p - &q, sub.clone());
    let mut t = p;
    t += q;
    gchk!(F, "add_assign:proj", t, add.clone());
    t = p;
    t += &q;
    gchk!(F, "add_assign:&proj", t, add.clone());
    t = p;
    t -= q;
    gchk!(F, "sub_assign:proj", t, sub.clone());
    t = p;
    t -= &q;
    gchk!(F, "sub_assign:&proj", t, sub.clone());
    gchk!(F, "add:proj+affine", p + qa, add.clone());
    gchk!(F, "add:proj+&affine", p + &qa, add.clone());
    gchk!(F, "sub:proj-affine", p - qa, sub.clone());
    gchk!(F, "sub:proj-&affine", p - &qa, sub.clone());
    t = p;
    t += qa;
    gchk!(F, "add_assign:affine", t, add.clone());
    t = p;
    t += &qa;
    gchk!(F, "add_assign:&affine", t, add.clone());
    t = p;
    t -= qa;
    gchk!(F, "sub_assign:affine", t, sub.clone());
    t = p;
    t -= &qa;
    gchk!(F, "sub_assign:&affine", t, sub.clone());
    gchk!(F, "neg", -p, m.neg(mp));
    gchk!(F, "double", p.double(), dbl.clone());
    t = p;
    t += t;
    gchk!(F, "add_assign:self", t, dbl.clone());
    t = p;
    t -= t;
    gchk!(F, "sub_assign:self", t, id.clone());
    gchk!(F, "add:same-point-other-representation", p + p2, dbl.clone());
    gchk!(F, "sub:same-point-other-representation", p - p2, id.clone());
    gchk!(F, "identity", F::G::identity(), id.clone());
    gchk!(F, "default", F::G::default(), id.clone());
    achk!(F, "default", F::A::default(), id.clone());
    // is_identity on inputs and on computed results
    for (what, g, want) in [
        ("operand", p, m.is_identity(mp)),
        ("P-P'", p - p2, true),
        ("P+Q", p + q, m.is_identity(&add)),
        ("P-Q", p - q, m.is_identity(&sub)),
        ("identity()", F::G::identity(), true),
        ("2P", p.double(), m.is_identity(&dbl)),
    ] {
        ensure!(bool::from(g.is_identity()) == want, format!("{}:is_identity", F::GN), "{} is_identity({what}) != {want}; P={mp:?} Q={mq:?}", F::GN);
    }
    // sums
    let s3 = m.add(&add, mp);
    gchk!(F, "sum:refs", [p, q, p2].iter().sum::<F::G>(), s3.clone());
    gchk!(F, "sum:owned", [p, q, p2].into_iter().sum::<F::G>(), s3.clone());
    gchk!(F, "sum:empty", Vec::<F::G>::new().into_iter().sum::<F::G>(), id.clone());
    // batch normalisation, identities (plain and computed) included
    let mut v = [p, q, F::G::identity(), p2, p - p2, p + q, q];
    let want = [mp.clone(), mq.clone(), id.clone(), mp.clone(), id.clone(), add.clone(), mq.clone()];
    if !computed_identity_in_batch {
        for i in 0..7 {
            if m.is_identity(&want[i]) {
                v[i] = F::G::identity();
            }
        }
    }
    let mut out = [F::A::default(); 7];
    vpcore::catch(|| F::G::batch_normalize(&v, &mut out))
        .map_err(|e| Failure::new(format!("{}:batch_normalize:panic", F::GN), format!("batch_normalize panicked: {e}; P={mp:?} Q={mq:?}")))?;
    for i in 0..7 {
        let got = am::<F>("batch_normalize", &out[i])?;
        ensure!(got == want[i], format!("{}:batch_normalize", F::GN), "{} batch_normalize[{i}]: got {got:?}, model {:?}", F::GN, want[i]);
    }
    // PartialEq must be equality of points, whatever the representation
    let eqs: [(&str, F::G, F::G, bool); 7] = [
        ("P,Q", p, q, mp == mq),
        ("P,P'", p, p2, true),
        ("P+Q,Q+P", p + q, q + p2, true),
        ("P,-P'", p, -p2, *mp == m.neg(mp)),
        ("P-Q,identity", p - q, F::G::identity(), m.is_identity(&sub)),
        ("2P,P+P'", p.double(), p + p2, true),
        ("P,P+Q", p, p2 + q, m.is_identity(mq)),
    ];
    for (what, x, y, want) in eqs {
        ensure!((x == y) == want, format!("{}:eq", F::GN), "{} ({what}): == gives {}, model {want}; P={mp:?} Q={mq:?}", F::GN, x == y);
        ensure!((y == x) == want, format!("{}:eq", F::GN), "{} ({what}) reversed: == gives {}, model {want}", F::GN, y == x);
    }
    ensure!((pa == qa) == (mp == mq), format!("{}:eq", F::AN), "{} ==: P={mp:?} Q={mq:?}", F::AN);
    // conditional_select
    gchk!(F, "conditional_select:0", F::G::conditional_select(&p, &q, 0.into()), mp.clone());
    gchk!(F, "conditional_select:1", F::G::conditional_select(&p, &q, 1.into()), mq.clone());
    achk!(F, "conditional_select:0", F::A::conditional_select(&pa, &qa, 0.into()), mp.clone());
    achk!(F, "conditional_select:1", F::A::conditional_select(&pa, &qa, 1.into()), mq.clone());
    Ok(())
}

/// ConstantTimeEq must be equality of points, whatever the representation.
pub fn ct_generic<F: Fam>(c: &Ctx<F>) -> Result<(), Failure> {
    let m = F::model();
    let (p, q, p2) = (c.p, c.q, c.p2);
    let (mp, mq) = (&c.mp, &c.mq);
    let sub = m.sub(mp, mq);
    let pairs: [(&str, F::G, F::G, bool, bool); 8] = [
        ("P,Q", p, q, mp == mq, c.same_rep),
        ("P,P", p, p, true, true),
        ("P,P'", p, p2, true, false),
        ("P+Q,Q+P'", p + q, q + p2, true, false),
        ("P,-P'", p, -p2, *mp == m.neg(mp), false),
        ("P-Q,identity", p - q, F::G::identity(), m.is_identity(&sub), false),
        ("2P,P+P'", p.double(), p + p2, true, false),
        ("P-P',Q-Q", p - p2, q - q, true, false),
    ];
    for (what, x, y, want, same) in pairs {
        let tag = if same { "same-representation" } else { "diff-z" };
        let got = bool::from(F::g_ct_eq(&x, &y));
        ensure!(got == want, format!("{}:ct_eq:{tag}", F::GN), "{} ct_eq({what}) = {got}, model equality {want} (PartialEq gives {}); P={mp:?} Q={mq:?}", F::GN, x == y);
        let got = bool::from(F::g_ct_eq(&y, &x));
        ensure!(got == want, format!("{}:ct_eq:{tag}", F::GN), "{} ct_eq({what}) reversed = {got}, model equality {want}", F::GN);
    }
    let got = bool::from(F::a_ct_eq(&c.pa, &c.qa));
    ensure!(got == (mp == mq), format!("{}:ct_eq", F::AN), "{} ct_eq = {got}; P={mp:?} Q={mq:?}", F::AN);
    ensure!(bool::from(F::a_ct_eq(&c.pa, &p2.to_affine())), format!("{}:ct_eq", F::AN), "{} ct_eq(P, to_affine(P')) false; P={mp:?}", F::AN);
    Ok(())
}

/// Scalar multiplication forms guaranteed by `group::Group`.
pub fn scalar_generic<F: Fam>(c: &Ctx<F>) -> Result<Pt<F>, Failure> {
    let m = F::model();
    let kp = m.mul(&c.mp, &c.kb);
    let (p, s) = (c.p, c.s);
    gchk!(F, "mul:proj*scalar", p * s, kp.clone());
    gchk!(F, "mul:proj*&scalar", p * &s, kp.clone());
    let mut t = p;
    t *= s;
    gchk!(F, "mul_assign:scalar", t, kp.clone());
    t = p;
    t *= &s;
    gchk!(F, "mul_assign:&scalar", t, kp.clone());
    gchk!(F, "mul:other-representation", c.p2 * s, kp.clone());
    Ok(kp)
}

// ---------------------------------------------------------------------------
// Encodings

pub struct Codec<F: Fam> {
    /// "<Type>:<decoder>" — prefix of failure signatures
    pub name: &'static str,
    pub len: usize,
    pub big_endian: bool,
    /// flag bits at the most significant end of the whole encoding
    pub flag_bits: u64,
    /// byte size of one coordinate slot
    pub slot: usize,
    pub enc: fn(&F::A) -> Vec<u8>,
    pub dec: fn(&[u8]) -> Option<F::A>,
    /// compared with `dec` on valid encodings only
    pub dec_unchecked: Option<fn(&[u8]) -> Option<F::A>>,
    /// the decoder promises membership in the prime-order subgroup
    pub subgroup: bool,
    /// a panic of this decoder is a finding that a dedicated sub-check reports
    /// (signature `<name>:panic`); the exploring sub-checks count it as a
    /// rejection so that they keep running
    pub tolerate_panic: bool,
    /// inputs on which this decoder has a recorded defect that a dedicated
    /// sub-check reports; the exploring sub-checks skip them
    pub exclude: Option<fn(&[u8]) -> bool>,
    /// `subgroup` is promised but the missing check is a recorded defect that
    /// a dedicated sub-check reports: accept either outcome on points outside
    /// the subgroup
    pub lenient_subgroup: bool,
}

impl<F: Fam> Codec<F> {
    /// The same codec with panics reported as failures.
    pub fn strict(&self) -> Codec<F> {
        Codec {
            name: self.name,
            len: self.len,
            big_endian: self.big_endian,
            flag_bits: self.flag_bits,
            slot: self.slot,
            enc: self.enc,
            dec: self.dec,
            dec_unchecked: self.dec_unchecked,
            subgroup: self.subgroup,
            tolerate_panic: false,
            exclude: None,
            lenient_subgroup: false,
        }
    }
}

/// `batch_normalize` on empty slices (equal lengths: the documented
/// precondition holds) and on a single identity.
pub fn batch_edge<F: Fam>() -> CaseResult {
    vpcore::catch(|| F::G::batch_normalize(&[], &mut []))
        .map_err(|e| Failure::new(format!("{}:batch_normalize:empty-panic", F::GN), format!("batch_normalize(&[], &mut []) panicked: {e}")))?;
    let mut out = [F::A::default(); 1];
    vpcore::catch(|| F::G::batch_normalize(&[F::G::identity()], &mut out))
        .map_err(|e| Failure::new(format!("{}:batch_normalize:panic", F::GN), format!("batch_normalize(&[identity]) panicked: {e}")))?;
    ensure!(am::<F>("batch_normalize", &out[0])? == F::model().identity(), format!("{}:batch_normalize", F::GN), "batch_normalize([identity])");
    Ok(Verdict::nontrivial(format!("{}:batch_normalize-edge", F::NAME)))
}

fn flip(b: &mut [u8], pos: &FlipPos) {
    let n = b.len();
    match pos {
        FlipPos::Any(i) => {
            let bit = vpcore::idx(*i, 8 * n);
            b[bit / 8] ^= 1 << (bit % 8);
        }
        FlipPos::First(i) => b[0] ^= 1 << (i % 8),
        FlipPos::Last(i) => b[n - 1] ^= 1 << (i % 8),
    }
}

/// Adds the base-field modulus to coordinate slot `slot` if the result fits.
fn add_p<F: Fam>(cd: &Codec<F>, b: &[u8], slot: usize) -> Option<Vec<u8>> {
    let off0 = cd.len % cd.slot;
    let nslots = cd.len / cd.slot;
    let i = slot % nslots;
    let (lo, hi) = (off0 + i * cd.slot, off0 + (i + 1) * cd.slot);
    let has_flags = cd.flag_bits > 0 && off0 == 0 && if cd.big_endian { i == 0 } else { i == nslots - 1 };
    let bits = 8 * cd.slot as u64 - if has_flags { cd.flag_bits } else { 0 };
    let v = if cd.big_endian { BigUint::from_bytes_be(&b[lo..hi]) } else { BigUint::from_bytes_le(&b[lo..hi]) };
    let mask = (BigUint::one() << bits) - 1u32;
    let flags = &v - (&v & &mask);
    let nv = (&v & &mask) + F::model().fm().prime();
    if nv > mask {
        return None;
    }
    let nv = nv + flags;
    let mut bytes = nv.to_bytes_le();
    bytes.resize(cd.slot, 0);
    if cd.big_endian {
        bytes.reverse();
    }
    let mut out = b.to_vec();
    out[lo..hi].copy_from_slice(&bytes);
    Some(out)
}

/// The universal decoder oracle: a checked decoder either rejects, or returns
/// a point of the curve (of the subgroup where promised) whose encoding is
/// exactly the input.
pub fn decode_oracle<F: Fam>(cd: &Codec<F>, bytes: &[u8], what: &str, known: Option<(&Pt<F>, bool)>) -> Result<Option<Pt<F>>, Failure> {
    let m = F::model();
    let hexb = hex::encode(bytes);
    let got = match vpcore::catch(|| (cd.dec)(bytes)) {
        Ok(g) => g,
        Err(_) if cd.tolerate_panic => None,
        Err(p) => return Err(Failure::new(format!("{}:panic", cd.name), format!("{} panicked on {what} {hexb}: {p}", cd.name))),
    };
    let Some(a) = got else { return Ok(None) };
    let pt = vpcore::catch(|| F::a_to_m(&a))
        .map_err(|p| Failure::new(format!("{}:accessor-panic", cd.name), format!("accessor panicked on the point decoded from {hexb}: {p}")))?;
    ensure!(m.on_curve(&pt), format!("{}:off-curve", cd.name), "{} accepted {what} {hexb} and returned {pt:?}, which is not on the curve", cd.name);
    let re = (cd.enc)(&a);
    ensure!(re == bytes, format!("{}:noncanonical", cd.name), "{} accepted {what} {hexb} (point {pt:?}) whose canonical encoding is {}", cd.name, hex::encode(&re));
    if cd.subgroup && !cd.lenient_subgroup {
        let insub = match known {
            Some((k, b)) if *k == pt => b,
            _ => in_subgroup::<F>(&pt),
        };
        ensure!(insub, format!("{}:non-subgroup", cd.name), "{} accepted {what} {hexb}: point {pt:?} is outside the prime-order subgroup", cd.name);
    }
    Ok(Some(pt))
}

pub fn enc_check<F: Fam>(codecs: &[Codec<F>], c: &EncCase) -> CaseResult {
    let r = resolve::<F>(&c.p)?;
    let mut rng = SplitMix(c.aux);
    let mut v = Verdict::of(!matches!(c.m, Mutn::Valid | Mutn::AddP(_)) || !matches!(c.p, PSpec::RandMul(_)), F::NAME).with(format!("P:{}", r.class));
    let mut accepted = 0;
    let mut rejected = 0;
    let mut insub_cache: Option<bool> = None;
    let mut fitted = false;
    for cd in codecs {
        let valid = vpcore::catch(|| (cd.enc)(&r.a))
            .map_err(|p| Failure::new(format!("{}:encode-panic", cd.name), format!("encoder panicked on {:?}: {p}", r.m)))?;
        ensure!(valid.len() == cd.len, format!("{}:length", cd.name), "encoding has {} bytes", valid.len());
        let (bytes, what): (Vec<u8>, &str) = match &c.m {
            Mutn::Valid => (valid.clone(), "valid encoding"),
            Mutn::Flip(ps) => {
                let mut b = valid.clone();
                for p in ps {
                    flip(&mut b, p);
                }
                (b, "bit-flipped encoding")
            }
            Mutn::FirstByte(x) => {
                let mut b = valid.clone();
                b[0] = *x;
                (b, "encoding with first byte replaced")
            }
            Mutn::LastByte(x) => {
                let mut b = valid.clone();
                b[cd.len - 1] = *x;
                (b, "encoding with last byte replaced")
            }
            Mutn::AddP(slot) => match add_p(cd, &valid, *slot as usize) {
                Some(b) => {
                    fitted = true;
                    (b, "encoding with coordinate + p")
                }
                None => continue,
            },
            Mutn::Random => (rng.bytes(cd.len), "random bytes"),
            Mutn::TailNoise => {
                let mut b = valid.clone();
                let h = cd.len / 2;
                let noise = rng.bytes(cd.len - h);
                b[h..].copy_from_slice(&noise);
                (b, "encoding with randomised second half")
            }
        };
        if cd.exclude.map(|f| f(&bytes)).unwrap_or(false) {
            v = v.with(format!("{}: input class reported by a dedicated sub-check", cd.name));
            continue;
        }
        if bytes == valid {
            // must-accept direction (unless the point is outside a promised subgroup)
            let insub = *insub_cache.get_or_insert_with(|| r.in_sub());
            let must = !cd.subgroup || insub;
            let got = decode_oracle(cd, &bytes, what, Some((&r.m, insub)))?;
            if must {
                ensure!(got.as_ref() == Some(&r.m), format!("{}:roundtrip", cd.name), "{} on the encoding {} of {:?} returned {got:?}", cd.name, hex::encode(&bytes), r.m);
                if let Some(du) = cd.dec_unchecked {
                    let gu = vpcore::catch(|| du(&bytes))
                        .map_err(|p| Failure::new(format!("{}:unchecked-panic", cd.name), format!("unchecked decoder panicked on valid {}: {p}", hex::encode(&bytes))))?;
                    let gu = match gu {
                        Some(a) => Some(am::<F>("unchecked", &a)?),
                        None => None,
                    };
                    ensure!(gu.as_ref() == Some(&r.m), format!("{}:unchecked-mismatch", cd.name), "unchecked counterpart of {} on valid {} returned {gu:?}, expected {:?}", cd.name, hex::encode(&bytes), r.m);
                }
                accepted += 1;
            } else if cd.lenient_subgroup {
                if got.is_some() {
                    accepted += 1;
                } else {
                    rejected += 1;
                }
            } else {
                ensure!(got.is_none(), format!("{}:non-subgroup", cd.name), "{} accepted the encoding of {:?} (outside the subgroup)", cd.name, r.m);
                rejected += 1;
            }
        } else {
            match decode_oracle(cd, &bytes, what, None)? {
                Some(_) => accepted += 1,
                None => rejected += 1,
            }
        }
    }
    let mc = match &c.m {
        Mutn::Valid => {
            if insub_cache.unwrap_or_else(|| r.in_sub()) {
                "valid"
            } else {
                "valid-but-outside-subgroup"
            }
        }
        Mutn::Flip(p) if p.len() == 1 => "1-bit flip",
        Mutn::Flip(_) => "2-bit flip",
        Mutn::FirstByte(_) => "first byte",
        Mutn::LastByte(_) => "last byte",
        Mutn::AddP(_) if fitted => "coordinate+p",
        Mutn::AddP(_) => "coordinate+p does not fit",
        Mutn::Random => "random bytes",
        Mutn::TailNoise => "second half randomised",
    };
    v = v.with(mc);
    if fitted {
        v.nontrivial = true;
    }
    if accepted > 0 && !matches!(c.m, Mutn::Valid) {
        v = v.with(format!("{mc}: some decoder accepted"));
    }
    if rejected > 0 {
        v = v.with("some decoder rejected");
    }
    Ok(v)
}

/// Field helper used by the Jacobian checks: Y^2 == X^3 + b Z^6 (a = 0).
pub fn jacobian_eq<FM: FieldModel>(f: &FM, b: &FM::Fe, x: &FM::Fe, y: &FM::Fe, z: &FM::Fe) -> bool {
    let z2 = f.square(z);
    let z6 = f.mul(&f.square(&z2), &z2);
    let x3 = f.mul(&f.square(x), x);
    f.square(y) == f.add(&x3, &f.mul(b, &z6))
}

pub fn is_zero_scalar<S: PrimeField>(s: &S) -> bool {
    bool::from(s.is_zero())
}

/// Trait-bound helper: ct_eq through `ConstantTimeEq`.
pub fn cte<T: ConstantTimeEq>(a: &T, b: &T) -> Choice {
    a.ct_eq(b)
}
