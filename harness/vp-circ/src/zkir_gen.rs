//! C18 support: harness-side ZKIR programs (serde), JSON rendering in the
//! documented syntax, an independent interpreter of the DOCUMENTED semantics
//! of the 17 operations (num-bigint, sha2, own twisted-Edwards arithmetic
//! cross-checked against `vp_alg::model::Edwards`), and a typed "concolic"
//! program + witness generator exposed as a proptest strategy (shrinking =
//! deletion of steps whose outputs are unused).
//!
//! Nothing in this file calls into `midnight-zkir`; Poseidon is injected by the
//! caller (function pointer) because it is checked elsewhere.

use std::collections::{BTreeMap, BTreeSet};
use std::sync::OnceLock;

use num_bigint::BigUint;
use num_traits::{One, Zero};
use proptest::{
    strategy::{NewTree, Strategy, ValueTree},
    test_runner::TestRunner,
};
use serde::{Deserialize, Serialize};
use serde_json::{json, Value as Json};
use sha2::Digest;
use vp_alg::model::{EPoint, Edwards, Zp};
use vpcore::SplitMix;

// ---------------------------------------------------------------------------
// Constants of the two fields and of Jubjub

pub const P_HEX: &str = "73eda753299d7d483339d80809a1d80553bda402fffe5bfeffffffff00000001";
pub const R_HEX: &str = "0e7db4ea6533afa906673b0101343b00a6682093ccc81082d0970e5ed6f72cb7";
/// repr_J of the documented generator (constants.rs doc test vector).
pub const GEN_HEX: &str = "cb550cd538ea0cc1138480408e6eaab9b36c613f0dd3f7784fdb6eea837b13d7";

pub fn p_native() -> &'static BigUint {
    static P: OnceLock<BigUint> = OnceLock::new();
    P.get_or_init(|| BigUint::parse_bytes(P_HEX.as_bytes(), 16).unwrap())
}
pub fn r_jubjub() -> &'static BigUint {
    static R: OnceLock<BigUint> = OnceLock::new();
    R.get_or_init(|| BigUint::parse_bytes(R_HEX.as_bytes(), 16).unwrap())
}

pub struct Jub {
    pub e: Edwards,
    pub g: EPoint,
}

/// Jubjub: -u^2 + v^2 = 1 + d u^2 v^2 with d = -(10240/10241) over F_p.
pub fn jub() -> &'static Jub {
    static J: OnceLock<Jub> = OnceLock::new();
    J.get_or_init(|| {
        let f = Zp::new(p_native().clone());
        let d = f.neg(&f.mul(&BigUint::from(10240u32), &f.inv(&BigUint::from(10241u32)).unwrap()));
        let a = f.neg(&BigUint::one());
        let e = Edwards { f, a, d };
        let gb = hex::decode(GEN_HEX).unwrap();
        let g = decompress_with(&e, &gb).expect("generator decodes");
        assert!(e.on_curve(&g), "harness: generator not on the model curve");
        let j = Jub { e, g };
        // self-checks of the fast projective arithmetic against the affine model
        let k = BigUint::from(0xdead_beef_u64);
        let a1 = pmul_with(&j.e, &j.g, &k);
        assert_eq!(a1, j.e.mul(&j.g, &k), "harness: projective mul != affine model");
        assert_eq!(pmul_with(&j.e, &j.g, r_jubjub()), j.e.identity(), "harness: generator order");
        j
    })
}

fn sqrt_mod_p(a: &BigUint) -> Option<BigUint> {
    vp_alg::curvemodel::sqrt_mod(p_native(), a)
}

/// repr_J (Zcash 5.4.9.3): 255 bits of v little-endian, top bit = parity of u.
pub fn compress(pt: &EPoint) -> Vec<u8> {
    let mut b = pt.1.to_bytes_le();
    b.resize(32, 0);
    if pt.0.bit(0) {
        b[31] |= 0x80;
    }
    b
}

fn decompress_with(e: &Edwards, b: &[u8]) -> Option<EPoint> {
    if b.len() != 32 {
        return None;
    }
    let sign = b[31] >> 7 == 1;
    let mut vb = b.to_vec();
    vb[31] &= 0x7f;
    let v = BigUint::from_bytes_le(&vb);
    if &v >= p_native() {
        return None;
    }
    let f = &e.f;
    let v2 = f.mul(&v, &v);
    // u^2 = (v^2 - 1) / (1 + d v^2)     (a = -1)
    let num = f.sub(&v2, &BigUint::one());
    let den = f.add(&BigUint::one(), &f.mul(&e.d, &v2));
    let u2 = f.mul(&num, &f.inv(&den)?);
    let mut u = sqrt_mod_p(&u2)?;
    if u.is_zero() && sign {
        return None; // non-canonical (ZIP 216)
    }
    if u.bit(0) != sign {
        u = f.neg(&u);
    }
    Some((u, v))
}

/// Decoding of a point of the curve (no subgroup check).
pub fn decompress_curve(b: &[u8]) -> Option<EPoint> {
    decompress_with(&jub().e, b)
}

/// Decoding with the prime-order subgroup check ([r]P = O).
pub fn decompress_subgroup(b: &[u8]) -> Option<EPoint> {
    let p = decompress_curve(b)?;
    if pmul(&p, r_jubjub()) == jub().e.identity() {
        Some(p)
    } else {
        None
    }
}

/// Scalar multiplication in projective coordinates (add-2008-bbjlp, unified),
/// one inversion at the end.
fn pmul_with(e: &Edwards, p: &EPoint, k: &BigUint) -> EPoint {
    let f = &e.f;
    let one = BigUint::one();
    let padd = |p1: &(BigUint, BigUint, BigUint), p2: &(BigUint, BigUint, BigUint)| {
        let (x1, y1, z1) = p1;
        let (x2, y2, z2) = p2;
        let a = f.mul(z1, z2);
        let b = f.mul(&a, &a);
        let c = f.mul(x1, x2);
        let d = f.mul(y1, y2);
        let ee = f.mul(&e.d, &f.mul(&c, &d));
        let ff = f.sub(&b, &ee);
        let g = f.add(&b, &ee);
        let t = f.sub(&f.sub(&f.mul(&f.add(x1, y1), &f.add(x2, y2)), &c), &d);
        let x3 = f.mul(&a, &f.mul(&ff, &t));
        let y3 = f.mul(&a, &f.mul(&g, &f.sub(&d, &f.mul(&e.a, &c))));
        let z3 = f.mul(&ff, &g);
        (x3, y3, z3)
    };
    let base = (p.0.clone(), p.1.clone(), one.clone());
    let mut r = (BigUint::zero(), one.clone(), one.clone());
    for i in (0..k.bits()).rev() {
        r = padd(&r, &r);
        if k.bit(i) {
            r = padd(&r, &base);
        }
    }
    let zi = f.inv(&r.2).expect("complete law: Z != 0");
    (f.mul(&r.0, &zi), f.mul(&r.1, &zi))
}

pub fn pmul(p: &EPoint, k: &BigUint) -> EPoint {
    pmul_with(&jub().e, p, k)
}
pub fn padd(p: &EPoint, q: &EPoint) -> EPoint {
    jub().e.add(p, q)
}
pub fn pneg(p: &EPoint) -> EPoint {
    jub().e.neg(p)
}
pub fn pid() -> EPoint {
    jub().e.identity()
}

// ---------------------------------------------------------------------------
// Harness programs

#[derive(Clone, Copy, Debug, PartialEq, Eq, Hash, PartialOrd, Ord, Serialize, Deserialize)]
pub enum HType {
    Bool,
    Bytes(usize),
    Native,
    BigUint(u32),
    JubjubPoint,
    JubjubScalar,
}

impl HType {
    pub fn kind(&self) -> &'static str {
        match self {
            HType::Bool => "Bool",
            HType::Bytes(_) => "Bytes",
            HType::Native => "Native",
            HType::BigUint(_) => "BigUint",
            HType::JubjubPoint => "JubjubPoint",
            HType::JubjubScalar => "JubjubScalar",
        }
    }
    pub fn json(&self) -> Json {
        match self {
            HType::Bool => json!("Bool"),
            HType::Bytes(n) => json!({ "Bytes": n }),
            HType::Native => json!("Native"),
            HType::BigUint(n) => json!({ "BigUint": n }),
            HType::JubjubPoint => json!("JubjubPoint"),
            HType::JubjubScalar => json!("JubjubScalar"),
        }
    }
    pub fn is_jubjub(&self) -> bool {
        matches!(self, HType::JubjubPoint | HType::JubjubScalar)
    }
}

#[derive(Clone, Copy, Debug, PartialEq, Eq, Hash, Serialize, Deserialize)]
pub enum HOp {
    Load(HType),
    Publish,
    AssertEqual,
    AssertNotEqual,
    IsEqual,
    Add,
    Sub,
    Mul,
    Neg,
    ModExp(u64),
    InnerProduct,
    AffineCoordinates,
    IntoBytes(usize),
    FromBytes(HType),
    Poseidon,
    Sha256,
    Sha512,
}

pub const OP_NAMES: [&str; 17] = [
    "load", "publish", "assert_equal", "assert_not_equal", "is_equal", "add", "sub", "mul", "neg", "mod_exp",
    "inner_product", "affine_coordinates", "into_bytes", "from_bytes", "poseidon", "sha256", "sha512",
];

impl HOp {
    pub fn name(&self) -> &'static str {
        match self {
            HOp::Load(_) => "load",
            HOp::Publish => "publish",
            HOp::AssertEqual => "assert_equal",
            HOp::AssertNotEqual => "assert_not_equal",
            HOp::IsEqual => "is_equal",
            HOp::Add => "add",
            HOp::Sub => "sub",
            HOp::Mul => "mul",
            HOp::Neg => "neg",
            HOp::ModExp(_) => "mod_exp",
            HOp::InnerProduct => "inner_product",
            HOp::AffineCoordinates => "affine_coordinates",
            HOp::IntoBytes(_) => "into_bytes",
            HOp::FromBytes(_) => "from_bytes",
            HOp::Poseidon => "poseidon",
            HOp::Sha256 => "sha256",
            HOp::Sha512 => "sha512",
        }
    }
    pub fn json(&self) -> Json {
        match self {
            HOp::Load(t) => json!({ "load": t.json() }),
            HOp::ModExp(n) => json!({ "mod_exp": n }),
            HOp::IntoBytes(n) => json!({ "into_bytes": n }),
            HOp::FromBytes(t) => json!({ "from_bytes": t.json() }),
            o => json!(o.name()),
        }
    }
    /// Documented arities: (inputs, outputs); None = variadic (>= 1);
    /// Some(usize::MAX) = even and >= 2.
    pub fn arity(&self) -> (Option<usize>, Option<usize>) {
        match self {
            HOp::Load(_) => (Some(0), None),
            HOp::Publish => (None, Some(0)),
            HOp::AssertEqual | HOp::AssertNotEqual => (Some(2), Some(0)),
            HOp::IsEqual | HOp::Add | HOp::Sub | HOp::Mul | HOp::ModExp(_) => (Some(2), Some(1)),
            HOp::Neg | HOp::IntoBytes(_) | HOp::FromBytes(_) | HOp::Sha256 | HOp::Sha512 => (Some(1), Some(1)),
            HOp::InnerProduct => (Some(usize::MAX), Some(1)),
            HOp::AffineCoordinates => (Some(1), Some(2)),
            HOp::Poseidon => (None, Some(1)),
        }
    }
}

#[derive(Clone, Debug, PartialEq, Eq, Serialize, Deserialize)]
pub struct HStep {
    pub op: HOp,
    pub inputs: Vec<String>,
    pub outputs: Vec<String>,
}

#[derive(Clone, Debug, PartialEq, Eq, Serialize, Deserialize, Default)]
pub struct HProgram {
    pub steps: Vec<HStep>,
}

impl HProgram {
    /// The JSON syntax read by `ZkirRelation::read` (DESIGN A.4).
    pub fn render(&self) -> String {
        let ins: Vec<Json> = self
            .steps
            .iter()
            .map(|s| json!({ "op": s.op.json(), "inputs": s.inputs, "outputs": s.outputs }))
            .collect();
        json!({ "instructions": ins }).to_string()
    }
}

/// Serializable witness value (hex strings).
#[derive(Clone, Debug, PartialEq, Eq, Serialize, Deserialize)]
pub enum HValue {
    Bool(bool),
    Bytes(String),
    /// big-endian hex of the integer in [0, p)
    Native(String),
    BigUint(String),
    /// repr_J, 32 bytes
    Point(String),
    /// big-endian hex of the integer in [0, r)
    Scalar(String),
}

/// Model value.
#[derive(Clone, Debug, PartialEq, Eq)]
pub enum MVal {
    Bool(bool),
    Bytes(Vec<u8>),
    Native(BigUint),
    Big(BigUint),
    Point(EPoint),
    Scalar(BigUint),
}

impl MVal {
    pub fn kind(&self) -> &'static str {
        match self {
            MVal::Bool(_) => "Bool",
            MVal::Bytes(_) => "Bytes",
            MVal::Native(_) => "Native",
            MVal::Big(_) => "BigUint",
            MVal::Point(_) => "JubjubPoint",
            MVal::Scalar(_) => "JubjubScalar",
        }
    }
    pub fn tyname(&self) -> String {
        match self {
            MVal::Bytes(b) => format!("Bytes({})", b.len()),
            v => v.kind().to_string(),
        }
    }
    pub fn to_h(&self) -> HValue {
        match self {
            MVal::Bool(b) => HValue::Bool(*b),
            MVal::Bytes(b) => HValue::Bytes(hex::encode(b)),
            MVal::Native(x) => HValue::Native(x.to_str_radix(16)),
            MVal::Big(x) => HValue::BigUint(x.to_str_radix(16)),
            MVal::Point(p) => HValue::Point(hex::encode(compress(p))),
            MVal::Scalar(x) => HValue::Scalar(x.to_str_radix(16)),
        }
    }
}

impl HValue {
    pub fn to_m(&self) -> Option<MVal> {
        let big = |s: &str| BigUint::parse_bytes(s.as_bytes(), 16);
        Some(match self {
            HValue::Bool(b) => MVal::Bool(*b),
            HValue::Bytes(s) => MVal::Bytes(hex::decode(s).ok()?),
            HValue::Native(s) => MVal::Native(big(s)?),
            HValue::BigUint(s) => MVal::Big(big(s)?),
            HValue::Point(s) => MVal::Point(decompress_curve(&hex::decode(s).ok()?)?),
            HValue::Scalar(s) => MVal::Scalar(big(s)?),
        })
    }
}

pub type Witness = BTreeMap<String, HValue>;

// ---------------------------------------------------------------------------
// Constants (utils/constants.rs module doc)

fn unhex(s: &str) -> Option<Vec<u8>> {
    let s = s.strip_prefix("0x").unwrap_or(s);
    if s.len() % 2 != 0 {
        return None;
    }
    hex::decode(s).ok()
}

/// Parses a constant literal by the documented syntax. `None` = not a constant.
pub fn parse_const(s: &str) -> Option<MVal> {
    let parts: Vec<&str> = s.split(':').collect();
    match parts.as_slice() {
        [b] if b.len() == 1 => match *b {
            "0" => Some(MVal::Bool(false)),
            "1" => Some(MVal::Bool(true)),
            _ => None,
        },
        [h] => unhex(h).map(MVal::Bytes),
        ["Native", pl] => {
            let (neg, body) = match pl.strip_prefix('-') {
                Some(b) => (true, b),
                None => (false, *pl),
            };
            let bytes = unhex(body)?;
            if bytes.len() > 32 {
                return None;
            }
            let v = BigUint::from_bytes_be(&bytes);
            if &v >= p_native() {
                return None;
            }
            Some(MVal::Native(if neg { (p_native() - &v) % p_native() } else { v }))
        }
        ["BigUint", pl] => {
            let pl = pl.strip_prefix("0x").unwrap_or(pl);
            if pl.is_empty() || !pl.chars().all(|c| c.is_ascii_hexdigit()) {
                return None;
            }
            BigUint::parse_bytes(pl.as_bytes(), 16).map(MVal::Big)
        }
        ["Jubjub", "GENERATOR"] => Some(MVal::Point(jub().g.clone())),
        ["Jubjub", "IDENTITY"] => Some(MVal::Point(pid())),
        ["Jubjub", pl] => decompress_subgroup(&unhex(pl)?).map(MVal::Point),
        ["JubjubScalar", pl] => {
            let bytes = unhex(pl)?;
            if bytes.len() > 32 {
                return None;
            }
            let v = BigUint::from_bytes_be(&bytes);
            if &v >= r_jubjub() {
                return None;
            }
            Some(MVal::Scalar(v))
        }
        _ => None,
    }
}

// ---------------------------------------------------------------------------
// Independent interpreter of the documented semantics

#[derive(Clone, Copy, Debug, PartialEq, Eq, Serialize, Deserialize)]
pub enum ErrKind {
    // value-dependent failures of a well-typed program
    Assertion,
    Range,
    Underflow,
    Encoding,
    DivByZero,
    /// BigUint witness wider than the declared width
    WitnessRange,
    // ill-formed witness
    WitnessMissing,
    WitnessType,
    // ill-formed / ill-typed program
    Arity,
    NotFound,
    Duplicate,
    IllTyped,
}

impl ErrKind {
    pub fn is_value_error(&self) -> bool {
        matches!(
            self,
            ErrKind::Assertion | ErrKind::Range | ErrKind::Underflow | ErrKind::Encoding | ErrKind::DivByZero | ErrKind::WitnessRange
        )
    }
    pub fn label(&self) -> &'static str {
        match self {
            ErrKind::Assertion => "assertion",
            ErrKind::Range => "range",
            ErrKind::Underflow => "underflow",
            ErrKind::Encoding => "encoding",
            ErrKind::DivByZero => "div-by-zero",
            ErrKind::WitnessRange => "witness-range",
            ErrKind::WitnessMissing => "witness-missing",
            ErrKind::WitnessType => "witness-type",
            ErrKind::Arity => "arity",
            ErrKind::NotFound => "not-found",
            ErrKind::Duplicate => "duplicate",
            ErrKind::IllTyped => "ill-typed",
        }
    }
}

#[derive(Clone, Debug, PartialEq, Eq)]
pub struct EvalFail {
    pub kind: ErrKind,
    pub step: usize,
    pub msg: String,
}

#[derive(Clone, Debug)]
pub struct Interp {
    /// published values (lenient: computed past value errors with placeholders)
    pub published: Vec<MVal>,
    /// for each published value the index of the step that produced it (None: constant)
    pub producers: Vec<Option<usize>>,
    /// first value-dependent failure, if any
    pub value_error: Option<EvalFail>,
    /// first static failure (evaluation stops there), if any
    pub static_error: Option<EvalFail>,
}

impl Interp {
    pub fn ok(&self) -> bool {
        self.value_error.is_none() && self.static_error.is_none()
    }
    /// The first error in evaluation order.
    pub fn first_error(&self) -> Option<&EvalFail> {
        match (&self.value_error, &self.static_error) {
            (Some(v), Some(s)) => Some(if s.kind == ErrKind::Arity || s.step < v.step { s } else { v }),
            (Some(v), None) => Some(v),
            (None, Some(s)) => Some(s),
            (None, None) => None,
        }
    }
}

pub type PoseidonFn = fn(&[BigUint]) -> BigUint;

fn le_padded(v: &BigUint, n: usize) -> Option<Vec<u8>> {
    let mut b = if v.is_zero() { vec![] } else { v.to_bytes_le() };
    if b.len() > n {
        return None;
    }
    b.resize(n, 0);
    Some(b)
}

enum OpErr {
    Value(ErrKind, String, Vec<MVal>), // placeholder outputs to continue with
    Static(ErrKind, String),
}

fn ill(op: &HOp, ins: &[MVal]) -> OpErr {
    OpErr::Static(
        ErrKind::IllTyped,
        format!("{} is not documented on ({})", op.name(), ins.iter().map(|v| v.tyname()).collect::<Vec<_>>().join(", ")),
    )
}

/// One operation on model values (not load / publish).
fn apply(op: &HOp, ins: &[MVal], poseidon: PoseidonFn) -> Result<Vec<MVal>, OpErr> {
    use MVal::*;
    let p = p_native();
    let r = r_jubjub();
    let same_cmp_type = |a: &MVal, b: &MVal| -> bool {
        match (a, b) {
            (Bool(_), Bool(_)) | (Native(_), Native(_)) | (Big(_), Big(_)) | (Point(_), Point(_)) => true,
            (Bytes(x), Bytes(y)) => x.len() == y.len(),
            _ => false, // JubjubScalar: documented unsupported
        }
    };
    let mul2 = |a: &MVal, b: &MVal| -> Option<MVal> {
        match (a, b) {
            (Native(x), Native(y)) => Some(Native((x * y) % p)),
            (Big(x), Big(y)) => Some(Big(x * y)),
            (Scalar(s), Point(q)) => Some(Point(pmul(q, s))),
            _ => None,
        }
    };
    let add2 = |a: &MVal, b: &MVal| -> Option<MVal> {
        match (a, b) {
            (Native(x), Native(y)) => Some(Native((x + y) % p)),
            (Big(x), Big(y)) => Some(Big(x + y)),
            (Point(x), Point(y)) => Some(Point(padd(x, y))),
            _ => None,
        }
    };
    match op {
        HOp::AssertEqual | HOp::AssertNotEqual => {
            if !same_cmp_type(&ins[0], &ins[1]) {
                return Err(ill(op, ins));
            }
            let eq = ins[0] == ins[1];
            if eq == matches!(op, HOp::AssertEqual) {
                Ok(vec![])
            } else {
                Err(OpErr::Value(ErrKind::Assertion, format!("{}({:?}, {:?})", op.name(), ins[0], ins[1]), vec![]))
            }
        }
        HOp::IsEqual => {
            if !same_cmp_type(&ins[0], &ins[1]) {
                return Err(ill(op, ins));
            }
            Ok(vec![Bool(ins[0] == ins[1])])
        }
        HOp::Add => add2(&ins[0], &ins[1]).map(|v| vec![v]).ok_or_else(|| ill(op, ins)),
        HOp::Sub => match (&ins[0], &ins[1]) {
            (Native(x), Native(y)) => Ok(vec![Native(((x + p) - y) % p)]),
            (Big(x), Big(y)) => {
                if x >= y {
                    Ok(vec![Big(x - y)])
                } else {
                    Err(OpErr::Value(ErrKind::Underflow, format!("{x} - {y}"), vec![Big(BigUint::zero())]))
                }
            }
            (Point(x), Point(y)) => Ok(vec![Point(padd(x, &pneg(y)))]),
            _ => Err(ill(op, ins)),
        },
        HOp::Mul => mul2(&ins[0], &ins[1]).map(|v| vec![v]).ok_or_else(|| ill(op, ins)),
        HOp::Neg => match &ins[0] {
            Native(x) => Ok(vec![Native((p - x) % p)]),
            Point(q) => Ok(vec![Point(pneg(q))]),
            _ => Err(ill(op, ins)),
        },
        HOp::ModExp(n) => match (&ins[0], &ins[1]) {
            (Big(x), Big(m)) => {
                if m.is_zero() {
                    return Err(OpErr::Value(ErrKind::DivByZero, "mod_exp with modulus 0".into(), vec![Big(BigUint::zero())]));
                }
                // x^n % m by the definition (n = 0: 1 % m)
                let mut acc = BigUint::one() % m;
                let xr = x % m;
                for i in (0..64).rev() {
                    acc = (&acc * &acc) % m;
                    if (n >> i) & 1 == 1 {
                        acc = (&acc * &xr) % m;
                    }
                }
                Ok(vec![Big(acc)])
            }
            _ => Err(ill(op, ins)),
        },
        HOp::InnerProduct => {
            let h = ins.len() / 2;
            let (v, w) = ins.split_at(h);
            let k0 = (v[0].kind(), w[0].kind());
            if !matches!(k0, ("Native", "Native") | ("BigUint", "BigUint") | ("JubjubScalar", "JubjubPoint")) {
                return Err(ill(op, ins));
            }
            if v.iter().any(|x| x.kind() != k0.0) || w.iter().any(|x| x.kind() != k0.1) {
                return Err(ill(op, ins));
            }
            let mut acc = mul2(&v[0], &w[0]).unwrap();
            for i in 1..h {
                acc = add2(&acc, &mul2(&v[i], &w[i]).unwrap()).unwrap();
            }
            Ok(vec![acc])
        }
        HOp::AffineCoordinates => match &ins[0] {
            Point(q) => Ok(vec![Native(q.0.clone()), Native(q.1.clone())]),
            _ => Err(ill(op, ins)),
        },
        HOp::IntoBytes(n) => match &ins[0] {
            Native(x) | Big(x) => match le_padded(x, *n) {
                Some(b) => Ok(vec![Bytes(b)]),
                None => {
                    let mut b = x.to_bytes_le();
                    b.resize(*n, 0);
                    b.truncate(*n);
                    Err(OpErr::Value(ErrKind::Range, format!("{x} >= 2^(8*{n})"), vec![Bytes(b)]))
                }
            },
            Point(q) if *n == 32 => Ok(vec![Bytes(compress(q))]),
            _ => Err(ill(op, ins)),
        },
        HOp::FromBytes(t) => {
            let Bytes(b) = &ins[0] else { return Err(ill(op, ins)) };
            let int = BigUint::from_bytes_le(b);
            match t {
                HType::Native => Ok(vec![Native(int % p)]),
                HType::BigUint(n) if (*n as u64) >= 8 * b.len() as u64 => Ok(vec![Big(int)]),
                HType::JubjubPoint if b.len() == 32 => match decompress_subgroup(b) {
                    Some(q) => Ok(vec![Point(q)]),
                    None => Err(OpErr::Value(ErrKind::Encoding, format!("{} is not repr_J of a subgroup point", hex::encode(b)), vec![Point(pid())])),
                },
                HType::JubjubScalar => Ok(vec![Scalar(int % r)]),
                _ => Err(ill(op, ins)),
            }
        }
        HOp::Poseidon => {
            let mut xs = vec![];
            for v in ins {
                match v {
                    Native(x) => xs.push(x.clone()),
                    _ => return Err(ill(op, ins)),
                }
            }
            Ok(vec![Native(poseidon(&xs))])
        }
        HOp::Sha256 => match &ins[0] {
            Bytes(b) => Ok(vec![Bytes(sha2::Sha256::digest(b).to_vec())]),
            _ => Err(ill(op, ins)),
        },
        HOp::Sha512 => match &ins[0] {
            Bytes(b) => Ok(vec![Bytes(sha2::Sha512::digest(b).to_vec())]),
            _ => Err(ill(op, ins)),
        },
        HOp::Load(_) | HOp::Publish => unreachable!(),
    }
}

/// Does the witness value have the declared type? Err(kind) otherwise.
pub fn witness_fits(t: &HType, v: &MVal) -> Result<(), ErrKind> {
    match (t, v) {
        (HType::Bool, MVal::Bool(_)) | (HType::Native, MVal::Native(_)) | (HType::JubjubPoint, MVal::Point(_)) | (HType::JubjubScalar, MVal::Scalar(_)) => Ok(()),
        (HType::Bytes(n), MVal::Bytes(b)) if b.len() == *n => Ok(()),
        (HType::BigUint(n), MVal::Big(x)) => {
            if x.bits() <= *n as u64 {
                Ok(())
            } else {
                Err(ErrKind::WitnessRange)
            }
        }
        _ => Err(ErrKind::WitnessType),
    }
}

pub fn arity_ok(s: &HStep) -> bool {
    let (i, o) = s.op.arity();
    let chk = |a: Option<usize>, n: usize| match a {
        None => n >= 1,
        Some(usize::MAX) => n >= 2 && n % 2 == 0,
        Some(k) => n == k,
    };
    chk(i, s.inputs.len()) && chk(o, s.outputs.len())
}

pub fn interpret(prog: &HProgram, witness: &Witness, poseidon: PoseidonFn) -> Interp {
    let mut out = Interp { published: vec![], producers: vec![], value_error: None, static_error: None };
    for (i, s) in prog.steps.iter().enumerate() {
        if !arity_ok(s) {
            out.static_error = Some(EvalFail { kind: ErrKind::Arity, step: i, msg: format!("arity of {}", s.op.name()) });
            return out;
        }
    }
    let mut mem: BTreeMap<String, (MVal, Option<usize>)> = BTreeMap::new();
    for (i, s) in prog.steps.iter().enumerate() {
        let stat = |kind: ErrKind, msg: String| Some(EvalFail { kind, step: i, msg });
        let mut ins = vec![];
        let mut prods = vec![];
        for name in &s.inputs {
            match mem.get(name) {
                Some((v, pr)) => {
                    ins.push(v.clone());
                    prods.push(*pr);
                }
                None => match parse_const(name) {
                    Some(v) => {
                        ins.push(v);
                        prods.push(None);
                    }
                    None => {
                        out.static_error = stat(ErrKind::NotFound, format!("'{name}' is neither a value nor a constant"));
                        return out;
                    }
                },
            }
        }
        let outs: Vec<MVal> = match &s.op {
            HOp::Load(t) => {
                let mut vs = vec![];
                for name in &s.outputs {
                    let Some(h) = witness.get(name) else {
                        out.static_error = stat(ErrKind::WitnessMissing, format!("no witness for '{name}'"));
                        return out;
                    };
                    let Some(v) = h.to_m() else {
                        out.static_error = stat(ErrKind::WitnessType, format!("witness '{name}' undecodable"));
                        return out;
                    };
                    match witness_fits(t, &v) {
                        Ok(()) => {}
                        Err(ErrKind::WitnessRange) => {
                            if out.value_error.is_none() {
                                out.value_error = Some(EvalFail { kind: ErrKind::WitnessRange, step: i, msg: format!("'{name}' wider than {t:?}") });
                            }
                        }
                        Err(k) => {
                            out.static_error = stat(k, format!("witness '{name}' is a {} but {t:?} is declared", v.tyname()));
                            return out;
                        }
                    }
                    vs.push(v);
                }
                vs
            }
            HOp::Publish => {
                for (v, pr) in ins.iter().zip(prods.iter()) {
                    out.published.push(v.clone());
                    out.producers.push(*pr);
                }
                vec![]
            }
            op => match apply(op, &ins, poseidon) {
                Ok(v) => v,
                Err(OpErr::Value(kind, msg, placeholder)) => {
                    if out.value_error.is_none() {
                        out.value_error = Some(EvalFail { kind, step: i, msg });
                    }
                    placeholder
                }
                Err(OpErr::Static(kind, msg)) => {
                    out.static_error = stat(kind, msg);
                    return out;
                }
            },
        };
        debug_assert_eq!(outs.len(), s.outputs.len());
        for (name, v) in s.outputs.iter().zip(outs) {
            if mem.insert(name.clone(), (v, Some(i))).is_some() {
                out.static_error = stat(ErrKind::Duplicate, format!("'{name}' defined twice"));
                return out;
            }
        }
    }
    out
}

// ---------------------------------------------------------------------------
// Generator-side model of the limb bounds the BigUint gadget tracks (only used
// to keep the main generator away from F13 and from gadget size limits, and as
// a generator-health label; never as an oracle).

const LB: u32 = 96;

#[derive(Clone, Debug, PartialEq, Eq)]
pub struct BigTy(pub Vec<u32>);

fn boa(a: u32, b: u32) -> u32 {
    if a == 0 {
        b
    } else if b == 0 {
        a
    } else {
        1 + a.max(b)
    }
}

impl BigTy {
    pub fn bounded(nb_bits: u32) -> BigTy {
        let nl = nb_bits.max(1).div_ceil(LB) as usize;
        let mut b = vec![LB; nl];
        *b.last_mut().unwrap() = nb_bits.wrapping_sub(1) % LB + 1;
        BigTy(b)
    }
    pub fn constant(v: &BigUint) -> BigTy {
        BigTy::bounded((v.bits() as u32).max(1))
    }
    pub fn nb_bits(&self) -> u32 {
        let mut acc = BigUint::zero();
        for b in self.0.iter().rev() {
            acc = (acc << LB) + (BigUint::one() << *b) - BigUint::one();
        }
        acc.bits() as u32
    }
    pub fn is_normalized(&self) -> bool {
        self.0.iter().all(|b| *b <= LB)
    }
    pub fn normalize(&self) -> BigTy {
        if self.is_normalized() {
            self.clone()
        } else {
            BigTy(vec![LB; self.nb_bits().div_ceil(LB) as usize])
        }
    }
    pub fn add(&self, o: &BigTy) -> BigTy {
        let n = self.0.len().min(o.0.len());
        let mut b: Vec<u32> = (0..n).map(|i| boa(self.0[i], o.0[i])).collect();
        b.extend_from_slice(&self.0[n..]);
        b.extend_from_slice(&o.0[n..]);
        BigTy(b).normalize()
    }
    pub fn mul(&self, o: &BigTy) -> Option<BigTy> {
        let (x, y) = (self.normalize(), o.normalize());
        if x.0.is_empty() || y.0.is_empty() {
            return None;
        }
        let mut b = vec![0u32; x.0.len() + y.0.len() - 1];
        for i in 0..x.0.len() {
            for j in 0..y.0.len() {
                b[i + j] = boa(b[i + j], x.0[i] + y.0[j]);
            }
        }
        Some(BigTy(b).normalize())
    }
    pub fn from_bytes(len: usize) -> BigTy {
        if len == 0 {
            return BigTy::constant(&BigUint::zero());
        }
        let mut b = vec![];
        let mut rest = len;
        while rest > 0 {
            let c = rest.min(12);
            b.push(8 * c as u32);
            rest -= c;
        }
        BigTy(b)
    }
    pub fn limb_bytes(&self) -> usize {
        12 * self.0.len()
    }
}

// ---------------------------------------------------------------------------
// Cases

#[derive(Clone, Debug, PartialEq, Eq, Serialize, Deserialize)]
pub struct Case {
    pub program: HProgram,
    pub witness: Witness,
    /// what the generator intended ("ok", "err:<kind>", "mut:<kind>", free text for fixed cases)
    pub intent: String,
    pub max_bit_len: u8,
    pub seed: u64,
    /// exclusions applied by construction while generating (F-ids), for the evidence histogram
    #[serde(default)]
    pub excl: Vec<String>,
}

impl Case {
    pub fn fixed(intent: &str, steps: Vec<(HOp, Vec<&str>, Vec<&str>)>, witness: Vec<(&str, MVal)>) -> Case {
        Case {
            program: HProgram {
                steps: steps
                    .into_iter()
                    .map(|(op, i, o)| HStep { op, inputs: i.into_iter().map(String::from).collect(), outputs: o.into_iter().map(String::from).collect() })
                    .collect(),
            },
            witness: witness.into_iter().map(|(k, v)| (k.to_string(), v.to_h())).collect(),
            intent: intent.into(),
            max_bit_len: 8,
            seed: 0,
            excl: vec![],
        }
    }
    pub fn ops_used(&self) -> BTreeSet<&'static str> {
        self.program.steps.iter().map(|s| s.op.name()).collect()
    }
}

// ---------------------------------------------------------------------------
// Concolic typed generator

#[derive(Clone, Debug)]
struct Var {
    name: String,
    val: MVal,
    big: Option<BigTy>,
    /// JubjubScalar obtained from bytes: the circuit keeps 8*len unreduced bits
    scalar_bytes: Option<usize>,
}

#[derive(Clone, Debug)]
pub struct GenCfg {
    pub max_len: usize,
    /// probability (in 1/256) of injecting an evaluation failure
    pub err_rate: u32,
    /// exclude constructions that hit confirmed defects (see c18.rs header)
    pub avoid_scalar_publish_from_bytes: bool,
    pub avoid_bytes0: bool,
}

impl Default for GenCfg {
    fn default() -> Self {
        GenCfg { max_len: 25, err_rate: 64, avoid_scalar_publish_from_bytes: true, avoid_bytes0: false }
    }
}

const BIG_WIDTHS: [u32; 9] = [1, 8, 64, 95, 96, 97, 128, 256, 300];
const BIG_CAP_BITS: u32 = 1400;
const EXPONENTS: [u64; 10] = [0, 1, 2, 3, 4, 5, 7, 16, 17, 65537];

pub struct Builder {
    rng: SplitMix,
    cfg: GenCfg,
    vars: Vec<Var>,
    steps: Vec<HStep>,
    witness: Witness,
    counter: usize,
    excl: BTreeSet<String>,
    #[allow(dead_code)]
    has_jubjub: bool,
    n_sha: usize,
    n_modexp: usize,
    n_ecmul: usize,
    poseidon: PoseidonFn,
}

impl Builder {
    pub fn new(seed: u64, cfg: GenCfg, poseidon: PoseidonFn) -> Builder {
        Builder {
            rng: SplitMix(seed),
            cfg,
            vars: vec![],
            steps: vec![],
            witness: BTreeMap::new(),
            counter: 0,
            excl: BTreeSet::new(),
            has_jubjub: false,
            n_sha: 0,
            n_modexp: 0,
            n_ecmul: 0,
            poseidon,
        }
    }

    fn below(&mut self, n: usize) -> usize {
        self.rng.below(n as u64) as usize
    }
    fn chance(&mut self, num: u32, den: u32) -> bool {
        self.rng.below(den as u64) < num as u64
    }
    fn fresh(&mut self) -> String {
        self.counter += 1;
        format!("v{}", self.counter)
    }
    fn rand_below(&mut self, m: &BigUint) -> BigUint {
        let nbytes = (m.bits() as usize).div_ceil(8) + 8;
        BigUint::from_bytes_le(&self.rng.bytes(nbytes)) % m
    }

    // ---- witness values -------------------------------------------------

    fn gen_native(&mut self) -> BigUint {
        let p = p_native().clone();
        match self.below(10) {
            0 => BigUint::zero(),
            1 => BigUint::one(),
            2 => &p - 1u32,
            3 => {
                let k = 1 + self.below(32);
                ((BigUint::one() << (8 * k)) - 1u32) % &p
            }
            4 => {
                let k = 1 + self.below(31);
                BigUint::one() << (8 * k)
            }
            5 | 6 => BigUint::from(self.rng.next_u64() >> self.below(60)),
            _ => self.rand_below(&p),
        }
    }
    fn gen_big(&mut self, n: u32) -> BigUint {
        let top = BigUint::one() << n;
        match self.below(8) {
            0 => BigUint::zero(),
            1 => BigUint::one() % &top,
            2 | 3 => &top - 1u32,
            4 => BigUint::one() << (n - 1),
            _ => self.rand_below(&top),
        }
    }
    fn gen_point(&mut self) -> EPoint {
        match self.below(8) {
            0 => pid(),
            1 => jub().g.clone(),
            2 | 3 => {
                let k = BigUint::from(self.rng.below(1 << 16));
                pmul(&jub().g, &k)
            }
            4 => pneg(&jub().g),
            _ => {
                let k = self.rand_below(r_jubjub());
                pmul(&jub().g, &k)
            }
        }
    }
    fn gen_scalar(&mut self) -> BigUint {
        match self.below(8) {
            0 => BigUint::zero(),
            1 => BigUint::one(),
            2 | 3 => r_jubjub() - 1u32,
            4 => BigUint::from(self.rng.below(1 << 20)),
            _ => self.rand_below(r_jubjub()),
        }
    }
    fn gen_bytes(&mut self, n: usize) -> Vec<u8> {
        let fit = |v: &BigUint, n: usize| -> Option<Vec<u8>> { le_padded(v, n) };
        match self.below(12) {
            0 => vec![0; n],
            1 => vec![0xff; n],
            // integers around the group order / the field modulus (n >= 32)
            2 if n >= 32 => fit(&(r_jubjub() + BigUint::from(self.rng.below(3))), n).unwrap(),
            3 if n >= 32 => fit(&(p_native() + BigUint::from(self.rng.below(3))), n).unwrap(),
            4 if n >= 32 => {
                let k = BigUint::from(1 + self.rng.below(15));
                fit(&(r_jubjub() * k + BigUint::from(self.rng.below(1000))), n).unwrap()
            }
            5 | 6 | 7 if n == 32 => compress(&self.gen_point()),
            _ => self.rng.bytes(n),
        }
    }
    fn gen_bytes_len(&mut self) -> usize {
        const L: [usize; 11] = [0, 1, 2, 4, 12, 13, 31, 32, 33, 64, 70];
        let n = match self.below(10) {
            0..=4 => L[self.below(L.len())],
            5 | 6 => 32,
            _ => self.below(71),
        };
        if n == 0 && self.cfg.avoid_bytes0 {
            self.excl.insert("bytes0".into());
            1
        } else {
            n
        }
    }

    fn gen_type(&mut self) -> HType {
        match self.below(12) {
            0 => HType::Bool,
            1 | 2 => HType::Bytes(self.gen_bytes_len()),
            3 | 4 | 5 => HType::Native,
            6 | 7 | 8 => HType::BigUint(BIG_WIDTHS[self.below(BIG_WIDTHS.len())]),
            9 | 10 => HType::JubjubPoint,
            _ => HType::JubjubScalar,
        }
    }

    fn gen_value(&mut self, t: &HType) -> MVal {
        match t {
            HType::Bool => MVal::Bool(self.chance(1, 2)),
            HType::Bytes(n) => MVal::Bytes(self.gen_bytes(*n)),
            HType::Native => MVal::Native(self.gen_native()),
            HType::BigUint(n) => MVal::Big(self.gen_big(*n)),
            HType::JubjubPoint => MVal::Point(self.gen_point()),
            HType::JubjubScalar => MVal::Scalar(self.gen_scalar()),
        }
    }

    // ---- steps -----------------------------------------------------------

    fn push_step(&mut self, op: HOp, inputs: Vec<String>, outs: Vec<(MVal, Option<BigTy>, Option<usize>)>) -> Vec<String> {
        let mut names = vec![];
        for (val, big, sb) in outs {
            let name = self.fresh();
            self.vars.push(Var { name: name.clone(), val, big, scalar_bytes: sb });
            names.push(name);
        }
        self.steps.push(HStep { op, inputs, outputs: names.clone() });
        names
    }

    pub fn load(&mut self, t: HType, count: usize) -> Vec<usize> {
        let mut outs = vec![];
        for _ in 0..count {
            let v = self.gen_value(&t);
            let big = if let HType::BigUint(n) = t { Some(BigTy::bounded(n)) } else { None };
            outs.push((v, big, None));
        }
        if t.is_jubjub() {
            self.has_jubjub = true;
        }
        let first = self.vars.len();
        let names = self.push_step(HOp::Load(t), vec![], outs);
        for (i, n) in names.iter().enumerate() {
            self.witness.insert(n.clone(), self.vars[first + i].val.to_h());
        }
        (first..first + count).collect()
    }

    fn vars_of(&self, kind: &str) -> Vec<usize> {
        (0..self.vars.len()).filter(|i| self.vars[*i].val.kind() == kind).collect()
    }

    fn kind_type(&mut self, kind: &str) -> HType {
        match kind {
            "Bool" => HType::Bool,
            "Bytes" => HType::Bytes(self.gen_bytes_len()),
            "Native" => HType::Native,
            "BigUint" => HType::BigUint(BIG_WIDTHS[self.below(BIG_WIDTHS.len())]),
            "JubjubPoint" => HType::JubjubPoint,
            _ => HType::JubjubScalar,
        }
    }

    /// A constant literal of the given kind in a random documented syntax.
    fn constant(&mut self, kind: &str) -> Option<Var> {
        let pre = if self.chance(1, 3) { "0x" } else { "" };
        let upper = self.chance(1, 4);
        let cs = |s: String| if upper { s.to_uppercase() } else { s };
        let (text, val, big) = match kind {
            "Bool" => {
                let b = self.chance(1, 2);
                ((if b { "1" } else { "0" }).to_string(), MVal::Bool(b), None)
            }
            "Bytes" => {
                // (the empty string is the empty byte array; "0x" alone is not generated)
                let n = if self.cfg.avoid_bytes0 { 1 + self.below(8) } else { self.below(9) };
                let b = self.rng.bytes(n);
                let pre = if n == 0 { "" } else { pre };
                (format!("{pre}{}", cs(hex::encode(&b))), MVal::Bytes(b), None)
            }
            "Native" => {
                let v = self.gen_native();
                let neg = self.chance(1, 3);
                let mag = if neg { (p_native() - &v) % p_native() } else { v.clone() };
                let mut h = mag.to_str_radix(16);
                if h.len() % 2 == 1 {
                    h.insert(0, '0');
                }
                (format!("Native:{}{pre}{}", if neg { "-" } else { "" }, cs(h)), MVal::Native(v), None)
            }
            "BigUint" => {
                let w = [1u32, 8, 64, 96, 97, 200][self.below(6)];
                let v = self.gen_big(w);
                let ty = BigTy::constant(&v);
                (format!("BigUint:{pre}{}", cs(v.to_str_radix(16))), MVal::Big(v), Some(ty))
            }
            "JubjubPoint" => match self.below(3) {
                0 => ("Jubjub:GENERATOR".to_string(), MVal::Point(jub().g.clone()), None),
                1 => ("Jubjub:IDENTITY".to_string(), MVal::Point(pid()), None),
                _ => {
                    let q = self.gen_point();
                    (format!("Jubjub:{pre}{}", cs(hex::encode(compress(&q)))), MVal::Point(q), None)
                }
            },
            _ => {
                let v = self.gen_scalar();
                let mut h = v.to_str_radix(16);
                if h.len() % 2 == 1 {
                    h.insert(0, '0');
                }
                (format!("JubjubScalar:{}", cs(h)), MVal::Scalar(v), None)
            }
        };
        // the literal must mean what we think it means (harness self-check)
        assert_eq!(parse_const(&text).as_ref(), Some(&val), "harness: constant {text}");
        Some(Var { name: text, val, big, scalar_bytes: None })
    }

    /// Picks an operand of a kind: an existing value (recent ones preferred), a
    /// constant, or a fresh load.
    fn pick(&mut self, kind: &str, allow_const: bool) -> Var {
        let cands = self.vars_of(kind);
        if allow_const && self.chance(if cands.is_empty() { 2 } else { 1 }, 6) {
            if let Some(c) = self.constant(kind) {
                return c;
            }
        }
        if cands.is_empty() || self.chance(1, 10) {
            let t = self.kind_type(kind);
            let i = self.load(t, 1)[0];
            return self.vars[i].clone();
        }
        let i = if self.chance(1, 2) { cands[cands.len() - 1 - self.below(cands.len().min(3))] } else { cands[self.below(cands.len())] };
        self.vars[i].clone()
    }

    fn big_of(v: &Var) -> BigTy {
        v.big.clone().expect("BigUint operand carries its bounds")
    }

    fn run1(&self, op: &HOp, ins: &[&Var]) -> Option<Vec<MVal>> {
        if *op == HOp::Publish {
            return Some(vec![]);
        }
        let vals: Vec<MVal> = ins.iter().map(|v| v.val.clone()).collect();
        apply(op, &vals, self.poseidon).ok()
    }

    fn emit(&mut self, op: HOp, ins: Vec<Var>, bigs: Vec<Option<BigTy>>, sb: Option<usize>) -> bool {
        let refs: Vec<&Var> = ins.iter().collect();
        let Some(outs) = self.run1(&op, &refs) else { return false };
        let names = ins.iter().map(|v| v.name.clone()).collect();
        let outs = outs.into_iter().enumerate().map(|(i, v)| (v, bigs.get(i).cloned().flatten(), sb)).collect();
        self.push_step(op, names, outs);
        true
    }

    fn arith_kind(&mut self, with_scalar: bool) -> &'static str {
        // kinds that exist are preferred
        let opts: &[&'static str] = if with_scalar { &["Native", "BigUint", "JubjubPoint", "Native", "BigUint"] } else { &["Native", "JubjubPoint", "Native"] };
        opts[self.below(opts.len())]
    }

    /// One random well-typed, succeeding step. Returns false if nothing was emitted.
    pub fn step(&mut self) -> bool {
        let choice = self.below(100);
        match choice {
            0..=9 => {
                let t = self.gen_type();
                let c = 1 + self.below(3).saturating_sub(1);
                self.load(t, c);
                true
            }
            10..=19 => self.publish(),
            20..=24 => self.cmp(HOp::AssertEqual),
            25..=28 => self.cmp(HOp::AssertNotEqual),
            29..=34 => self.cmp(HOp::IsEqual),
            35..=42 => self.addsub(HOp::Add),
            43..=49 => self.addsub(HOp::Sub),
            50..=57 => self.mul(),
            58..=61 => {
                let k = if self.chance(1, 2) { "Native" } else { "JubjubPoint" };
                let x = self.pick(k, true);
                self.emit(HOp::Neg, vec![x], vec![None], None)
            }
            62..=65 => self.modexp(),
            66..=70 => self.inner_product(),
            71..=74 => {
                let x = self.pick("JubjubPoint", true);
                self.emit(HOp::AffineCoordinates, vec![x], vec![None, None], None)
            }
            75..=82 => self.into_bytes(),
            83..=90 => self.from_bytes(),
            91..=94 => {
                let n = 1 + self.below(4);
                let xs: Vec<Var> = (0..n).map(|_| self.pick("Native", true)).collect();
                self.emit(HOp::Poseidon, xs, vec![None], None)
            }
            95..=97 => self.sha(HOp::Sha256),
            _ => self.sha(HOp::Sha512),
        }
    }

    fn publishable(&mut self, v: &Var) -> bool {
        if self.cfg.avoid_scalar_publish_from_bytes && v.scalar_bytes.is_some() {
            self.excl.insert("scalar-from-bytes-publish".into());
            return false;
        }
        true
    }

    pub fn publish(&mut self) -> bool {
        let n = 1 + self.below(3);
        let mut xs = vec![];
        for _ in 0..n {
            let kinds = ["Bool", "Bytes", "Native", "BigUint", "JubjubPoint", "JubjubScalar"];
            let v = if self.vars.is_empty() || self.chance(1, 4) {
                let k = kinds[self.below(6)];
                self.pick(k, true)
            } else {
                let i = self.vars.len() - 1 - self.below(self.vars.len().min(6));
                self.vars[i].clone()
            };
            if self.publishable(&v) {
                xs.push(v);
            }
        }
        if xs.is_empty() {
            return false;
        }
        self.emit(HOp::Publish, xs, vec![], None)
    }

    fn cmp(&mut self, op: HOp) -> bool {
        let kinds = ["Bool", "Bytes", "Native", "BigUint", "JubjubPoint"];
        let k = kinds[self.below(5)];
        let x = self.pick(k, false);
        // a partner of the same comparison type
        let want_equal = match op {
            HOp::AssertEqual => true,
            HOp::AssertNotEqual => false,
            _ => self.chance(1, 2),
        };
        let same_ty = |a: &MVal, b: &MVal| a.tyname() == b.tyname();
        let cands: Vec<usize> = (0..self.vars.len())
            .filter(|i| same_ty(&self.vars[*i].val, &x.val) && (self.vars[*i].val == x.val) == want_equal)
            .collect();
        let y = if !cands.is_empty() {
            { let j = self.below(cands.len()); self.vars[cands[j]].clone() }
        } else if want_equal {
            x.clone()
        } else {
            // a fresh different value of the same type
            let t = match &x.val {
                MVal::Bool(_) => HType::Bool,
                MVal::Bytes(b) => HType::Bytes(b.len()),
                MVal::Native(_) => HType::Native,
                MVal::Big(_) => HType::BigUint(BIG_WIDTHS[self.below(BIG_WIDTHS.len())]),
                _ => HType::JubjubPoint,
            };
            let i = self.load(t, 1)[0];
            if self.vars[i].val == x.val {
                return false;
            }
            self.vars[i].clone()
        };
        let (a, b) = if self.chance(1, 2) { (x, y) } else { (y, x) };
        self.emit(op, vec![a, b], vec![None], None)
    }

    fn addsub(&mut self, op: HOp) -> bool {
        let k = self.arith_kind(true);
        let mut x = self.pick(k, true);
        let mut y = self.pick(k, true);
        let mut big = None;
        if k == "BigUint" {
            if op == HOp::Sub {
                if let (MVal::Big(a), MVal::Big(b)) = (&x.val, &y.val) {
                    if a < b {
                        std::mem::swap(&mut x, &mut y);
                    }
                }
                big = Some(BigTy::bounded(Self::big_of(&x).nb_bits()));
            } else {
                big = Some(Self::big_of(&x).add(&Self::big_of(&y)));
            }
            if Self::big_of(&x).nb_bits() == 0 || big.as_ref().unwrap().nb_bits() > BIG_CAP_BITS {
                return false;
            }
        }
        self.emit(op, vec![x, y], vec![big], None)
    }

    fn mul(&mut self) -> bool {
        match self.below(5) {
            0 | 1 => {
                let (x, y) = (self.pick("Native", true), self.pick("Native", true));
                self.emit(HOp::Mul, vec![x, y], vec![None], None)
            }
            2 | 3 => {
                let (x, y) = (self.pick("BigUint", true), self.pick("BigUint", true));
                let Some(b) = Self::big_of(&x).mul(&Self::big_of(&y)) else { return false };
                if b.nb_bits() > BIG_CAP_BITS {
                    return false;
                }
                self.emit(HOp::Mul, vec![x, y], vec![Some(b)], None)
            }
            _ => {
                if self.n_ecmul >= 3 {
                    return false;
                }
                self.n_ecmul += 1;
                // loads first: Jubjub constants need the chip (F12)
                let q = self.pick("JubjubPoint", true);
                let s = self.pick("JubjubScalar", true);
                self.emit(HOp::Mul, vec![s, q], vec![None], None)
            }
        }
    }

    fn modexp(&mut self) -> bool {
        if self.n_modexp >= 2 {
            return false;
        }
        let x = self.pick("BigUint", true);
        let m = self.pick("BigUint", true);
        let MVal::Big(mv) = &m.val else { return false };
        if mv.is_zero() {
            return false; // modulus 0 is an evaluation failure: see inject_failure
        }
        let (bx, bm) = (Self::big_of(&x), Self::big_of(&m));
        if bx.0.is_empty() || bm.0.is_empty() || bx.nb_bits() > 700 || bm.nb_bits() > 700 {
            return false;
        }
        let mut e = EXPONENTS[self.below(EXPONENTS.len())];
        if e == 65537 && (self.n_modexp > 0 || bm.nb_bits() > 400) {
            e = 3;
        }
        self.n_modexp += 1;
        let out = BigTy::bounded(bm.nb_bits());
        self.emit(HOp::ModExp(e), vec![x, m], vec![Some(out)], None)
    }

    fn inner_product(&mut self) -> bool {
        let n = 1 + self.below(3);
        match self.below(3) {
            0 => {
                let mut xs: Vec<Var> = (0..2 * n).map(|_| self.pick("Native", true)).collect();
                xs.truncate(2 * n);
                self.emit(HOp::InnerProduct, xs, vec![None], None)
            }
            1 => {
                let xs: Vec<Var> = (0..2 * n).map(|_| self.pick("BigUint", true)).collect();
                let mut acc: Option<BigTy> = None;
                for i in 0..n {
                    let Some(pr) = Self::big_of(&xs[i]).mul(&Self::big_of(&xs[n + i])) else { return false };
                    acc = Some(match acc {
                        None => pr,
                        Some(a) => a.add(&pr),
                    });
                }
                if acc.as_ref().unwrap().nb_bits() > BIG_CAP_BITS {
                    return false;
                }
                self.emit(HOp::InnerProduct, xs, vec![acc], None)
            }
            _ => {
                if self.n_ecmul >= 3 {
                    return false;
                }
                self.n_ecmul += n;
                let ps: Vec<Var> = (0..n).map(|_| self.pick("JubjubPoint", true)).collect();
                let mut ss: Vec<Var> = (0..n).map(|_| self.pick("JubjubScalar", true)).collect();
                ss.extend(ps);
                self.emit(HOp::InnerProduct, ss, vec![None], None)
            }
        }
    }

    fn into_bytes(&mut self) -> bool {
        match self.below(5) {
            0 | 1 => {
                let x = self.pick("Native", true);
                let MVal::Native(v) = &x.val else { return false };
                let need = (v.bits() as usize).div_ceil(8);
                let mut n = need + self.below(33 - need);
                if self.chance(1, 3) {
                    n = need;
                }
                if self.chance(1, 4) {
                    n = 32;
                }
                if self.chance(1, 6) {
                    n = 33 + self.below(38); // "for any n": zero-padded beyond 32 bytes
                }
                if n == 0 {
                    if self.cfg.avoid_bytes0 {
                        self.excl.insert("bytes0".into());
                        n = 1;
                    }
                }
                self.emit(HOp::IntoBytes(n), vec![x], vec![None], None)
            }
            2 | 3 => {
                let x = self.pick("BigUint", true);
                let MVal::Big(v) = &x.val else { return false };
                let need = (v.bits() as usize).div_ceil(8);
                // "for any n": also beyond the bytes of the limbs
                let limb = Self::big_of(&x).limb_bytes();
                let cap = if self.chance(1, 2) { limb.min(70) } else { 70 };
                if cap < need {
                    return false;
                }
                let mut n = need + self.below(cap - need + 1);
                if self.chance(1, 3) {
                    n = need;
                }
                if self.chance(1, 8) && limb < 70 {
                    n = limb + 1 + self.below(70 - limb);
                }
                if n == 0 {
                    if self.cfg.avoid_bytes0 {
                        self.excl.insert("bytes0".into());
                        n = 1;
                    }
                }
                self.emit(HOp::IntoBytes(n), vec![x], vec![None], None)
            }
            _ => {
                let x = self.pick("JubjubPoint", true);
                self.emit(HOp::IntoBytes(32), vec![x], vec![None], None)
            }
        }
    }

    fn from_bytes(&mut self) -> bool {
        match self.below(7) {
            0 | 1 => {
                let b = self.pick("Bytes", true);
                self.emit(HOp::FromBytes(HType::Native), vec![b], vec![None], None)
            }
            2 | 3 => {
                let b = self.pick("Bytes", true);
                let MVal::Bytes(bb) = &b.val else { return false };
                let len = bb.len();
                let n = 8 * len as u32 + if self.chance(1, 2) { 0 } else { self.below(40) as u32 };
                self.emit(HOp::FromBytes(HType::BigUint(n)), vec![b], vec![Some(BigTy::from_bytes(len))], None)
            }
            4 | 5 => {
                let b = self.pick("Bytes", true);
                let MVal::Bytes(bb) = &b.val else { return false };
                let len = bb.len();
                self.has_jubjub = true;
                self.emit(HOp::FromBytes(HType::JubjubScalar), vec![b], vec![None], Some(len))
            }
            _ => {
                // needs a valid encoding: an existing Bytes(32) that decodes, or encode a point first
                let cands: Vec<usize> = (0..self.vars.len())
                    .filter(|i| matches!(&self.vars[*i].val, MVal::Bytes(b) if b.len() == 32 && decompress_subgroup(b).is_some()))
                    .collect();
                let b = if !cands.is_empty() {
                    { let j = self.below(cands.len()); self.vars[cands[j]].clone() }
                } else {
                    let q = self.pick("JubjubPoint", true);
                    if !self.emit(HOp::IntoBytes(32), vec![q], vec![None], None) {
                        return false;
                    }
                    self.vars.last().unwrap().clone()
                };
                self.has_jubjub = true;
                self.emit(HOp::FromBytes(HType::JubjubPoint), vec![b], vec![None], None)
            }
        }
    }

    fn sha(&mut self, op: HOp) -> bool {
        if self.n_sha >= 1 {
            return false;
        }
        self.n_sha += 1;
        let b = self.pick("Bytes", true);
        self.emit(op, vec![b], vec![None], None)
    }
}

// ---------------------------------------------------------------------------
// Failure injection (well-typed program, evaluation must fail)

/// Encodings that `from_bytes(JubjubPoint)` must refuse.
pub fn bad_point_encodings(rng: &mut SplitMix) -> Vec<(&'static str, Vec<u8>)> {
    let p = p_native();
    let mut out = vec![];
    // v >= p (non-canonical)
    out.push(("v>=p", le_padded(&(p + 1u32), 32).unwrap()));
    // u = 0 with the sign bit (ZIP 216)
    let mut b = le_padded(&BigUint::one(), 32).unwrap();
    b[31] |= 0x80;
    out.push(("u=0,sign=1", b));
    // the point of order 2: (0, -1)
    out.push(("order-2", le_padded(&(p - 1u32), 32).unwrap()));
    // v for which u^2 is not a square, and a curve point outside the subgroup
    let mut off = None;
    let mut tors = None;
    for _ in 0..200 {
        let v = BigUint::from_bytes_le(&rng.bytes(40)) % p;
        let b = le_padded(&v, 32).unwrap();
        match decompress_curve(&b) {
            None if off.is_none() => off = Some(b),
            Some(_) if tors.is_none() && decompress_subgroup(&b).is_none() => tors = Some(b),
            _ => {}
        }
        if off.is_some() && tors.is_some() {
            break;
        }
    }
    if let Some(b) = off {
        out.push(("not-on-curve", b));
    }
    if let Some(b) = tors {
        out.push(("not-in-subgroup", b));
    }
    out
}

impl Builder {
    /// Appends one step (or edits one witness) so that evaluation fails.
    /// Returns the intended kind.
    pub fn inject_failure(&mut self) -> Option<&'static str> {
        for _ in 0..6 {
            match self.below(8) {
                0 => {
                    // assert_equal of unequal values
                    let kinds = ["Bool", "Bytes", "Native", "BigUint", "JubjubPoint"];
                    let k = kinds[self.below(5)];
                    let x = self.pick(k, false);
                    let y = match &x.val {
                        MVal::Bool(b) => Var { name: (if *b { "0" } else { "1" }).into(), val: MVal::Bool(!b), big: None, scalar_bytes: None },
                        MVal::Bytes(b) if !b.is_empty() => {
                            let mut c = b.clone();
                            let i = self.below(c.len());
                            c[i] ^= 1 << self.below(8);
                            Var { name: hex::encode(&c), val: MVal::Bytes(c), big: None, scalar_bytes: None }
                        }
                        MVal::Native(v) => {
                            let w = (v + 1u32) % p_native();
                            let mut h = w.to_str_radix(16);
                            if h.len() % 2 == 1 {
                                h.insert(0, '0');
                            }
                            Var { name: format!("Native:{h}"), val: MVal::Native(w), big: None, scalar_bytes: None }
                        }
                        MVal::Big(v) => {
                            let w = v + 1u32;
                            Var { name: format!("BigUint:{}", w.to_str_radix(16)), big: Some(BigTy::constant(&w)), val: MVal::Big(w), scalar_bytes: None }
                        }
                        MVal::Point(q) => {
                            let w = padd(q, &jub().g);
                            Var { name: format!("Jubjub:{}", hex::encode(compress(&w))), val: MVal::Point(w), big: None, scalar_bytes: None }
                        }
                        _ => continue,
                    };
                    if y.name.len() == 1 && !matches!(y.val, MVal::Bool(_)) {
                        continue;
                    }
                    if matches!(y.val, MVal::Big(_)) && Self::big_of(&x).0.is_empty() {
                        continue;
                    }
                    let (a, b) = if self.chance(1, 2) { (x, y) } else { (y, x) };
                    if self.emit_failing(HOp::AssertEqual, vec![a, b]) {
                        return Some("assertion");
                    }
                }
                1 => {
                    let kinds = ["Bool", "Bytes", "Native", "BigUint", "JubjubPoint"];
                    let k = kinds[self.below(5)];
                    let x = self.pick(k, false);
                    if self.emit_failing(HOp::AssertNotEqual, vec![x.clone(), x]) {
                        return Some("assertion");
                    }
                }
                2 | 3 => {
                    // BigUint underflow
                    let x = self.pick("BigUint", true);
                    let MVal::Big(v) = &x.val else { continue };
                    let w = v + 1u32 + BigUint::from(self.rng.below(1000));
                    let y = if self.chance(1, 2) {
                        Var { name: format!("BigUint:{}", w.to_str_radix(16)), big: Some(BigTy::constant(&w)), val: MVal::Big(w), scalar_bytes: None }
                    } else {
                        let cands: Vec<usize> = self.vars_of("BigUint").into_iter().filter(|i| matches!(&self.vars[*i].val, MVal::Big(b) if b > v)).collect();
                        if cands.is_empty() {
                            continue;
                        }
                        { let j = self.below(cands.len()); self.vars[cands[j]].clone() }
                    };
                    if Self::big_of(&x).nb_bits() == 0 {
                        continue;
                    }
                    if self.emit_failing(HOp::Sub, vec![x, y]) {
                        return Some("underflow");
                    }
                }
                4 => {
                    // into_bytes with too few bytes
                    let k = if self.chance(1, 2) { "Native" } else { "BigUint" };
                    let cands: Vec<usize> = self
                        .vars_of(k)
                        .into_iter()
                        .filter(|i| matches!(&self.vars[*i].val, MVal::Native(v) | MVal::Big(v) if v.bits() > 8))
                        .collect();
                    if cands.is_empty() {
                        continue;
                    }
                    let x = { let j = self.below(cands.len()); self.vars[cands[j]].clone() };
                    let (MVal::Native(v) | MVal::Big(v)) = &x.val else { continue };
                    let need = (v.bits() as usize).div_ceil(8);
                    let n = if self.chance(1, 2) { need - 1 } else { 1 + self.below(need - 1) };
                    if n == 0 {
                        continue;
                    }
                    if self.emit_failing(HOp::IntoBytes(n), vec![x]) {
                        return Some("range");
                    }
                }
                5 => {
                    // from_bytes(JubjubPoint) of a non-canonical / invalid encoding
                    let encs = bad_point_encodings(&mut self.rng);
                    let (_, b) = encs[self.below(encs.len())].clone();
                    let i = self.load(HType::Bytes(32), 1)[0];
                    self.vars[i].val = MVal::Bytes(b.clone());
                    let name = self.vars[i].name.clone();
                    self.witness.insert(name, MVal::Bytes(b).to_h());
                    let x = self.vars[i].clone();
                    self.has_jubjub = true;
                    if self.emit_failing(HOp::FromBytes(HType::JubjubPoint), vec![x]) {
                        return Some("encoding");
                    }
                }
                6 => {
                    // mod_exp with modulus 0
                    let x = self.pick("BigUint", true);
                    let zeros: Vec<usize> = self.vars_of("BigUint").into_iter().filter(|i| matches!(&self.vars[*i].val, MVal::Big(b) if b.is_zero())).collect();
                    let m = if !zeros.is_empty() && self.chance(1, 2) {
                        let j = self.below(zeros.len());
                        self.vars[zeros[j]].clone()
                    } else {
                        let z = BigUint::zero();
                        Var { name: "BigUint:0".into(), big: Some(BigTy::constant(&z)), val: MVal::Big(z), scalar_bytes: None }
                    };
                    let e = EXPONENTS[self.below(EXPONENTS.len() - 1)];
                    if self.emit_failing(HOp::ModExp(e), vec![x, m]) {
                        return Some("div-by-zero");
                    }
                }
                _ => {
                    // witness wider than the declared width
                    let loads: Vec<(String, u32)> = self
                        .steps
                        .iter()
                        .filter_map(|s| match s.op {
                            HOp::Load(HType::BigUint(n)) => Some(s.outputs.iter().map(move |o| (o.clone(), n))),
                            _ => None,
                        })
                        .flatten()
                        .collect();
                    if loads.is_empty() {
                        continue;
                    }
                    let (name, n) = loads[self.below(loads.len())].clone();
                    let extra = [0u32, 1, 7, 95][self.below(4)];
                    let v = (BigUint::one() << (n + extra)) + BigUint::from(self.rng.below(1 << 16) >> (16 - n.min(16)));
                    self.witness.insert(name, MVal::Big(v).to_h());
                    return Some("witness-range");
                }
            }
        }
        None
    }

    /// Emits a step expected to fail with a value error (outputs take the
    /// interpreter's placeholder values).
    fn emit_failing(&mut self, op: HOp, ins: Vec<Var>) -> bool {
        let vals: Vec<MVal> = ins.iter().map(|v| v.val.clone()).collect();
        let outs = match apply(&op, &vals, self.poseidon) {
            Err(OpErr::Value(_, _, ph)) => ph,
            _ => return false,
        };
        let names = ins.iter().map(|v| v.name.clone()).collect();
        let outs = outs
            .into_iter()
            .map(|v| {
                let big = if let MVal::Big(_) = &v { Some(BigTy::bounded(ins[0].big.as_ref().map(|b| b.nb_bits()).unwrap_or(1))) } else { None };
                (v, big, None)
            })
            .collect();
        self.push_step(op, names, outs);
        true
    }

    pub fn finish(self, intent: String, seed: u64, max_bit_len: u8) -> Case {
        Case {
            program: HProgram { steps: self.steps },
            witness: self.witness,
            intent,
            max_bit_len,
            seed,
            excl: self.excl.into_iter().collect(),
        }
    }
}

/// A full well-typed case from a seed.
pub fn build_case(seed: u64, cfg: &GenCfg, poseidon: PoseidonFn) -> Case {
    let mut b = Builder::new(seed, cfg.clone(), poseidon);
    let target = 1 + b.below(cfg.max_len);
    let want_err = b.rng.below(256) < cfg.err_rate as u64;
    let err_at = if want_err { b.below(target + 1) } else { usize::MAX };
    let mut intent = "ok".to_string();
    let mut tries = 0;
    let mut injected = false;
    while b.steps.len() < target && tries < 4 * target + 8 {
        tries += 1;
        if !injected && b.steps.len() >= err_at {
            injected = true;
            if let Some(k) = b.inject_failure() {
                intent = format!("err:{k}");
            }
            continue;
        }
        b.step();
    }
    if want_err && !injected {
        if let Some(k) = b.inject_failure() {
            intent = format!("err:{k}");
        }
    }
    // almost always end with a publish so that the program has an output
    if !b.steps.iter().any(|s| s.op == HOp::Publish) && b.chance(15, 16) {
        b.publish();
    }
    let mbl = [8u8, 8, 9, 10][b.below(4)];
    b.finish(intent, seed, mbl)
}

// ---------------------------------------------------------------------------
// proptest strategy with structural shrinking

fn uses_jubjub_const(p: &HProgram) -> bool {
    p.steps.iter().any(|s| s.inputs.iter().any(|i| i.starts_with("Jubjub")))
}
fn has_jubjub_chip(p: &HProgram) -> bool {
    p.steps.iter().any(|s| matches!(s.op, HOp::Load(t) | HOp::FromBytes(t) if t.is_jubjub()))
}

#[derive(Clone)]
pub struct CaseStrategy {
    pub cfg: GenCfg,
    pub poseidon: PoseidonFn,
    /// post-processing of the generated case (e.g. a mutation for the ill-formed stream)
    pub post: fn(Case, &mut SplitMix) -> Case,
}

impl std::fmt::Debug for CaseStrategy {
    fn fmt(&self, f: &mut std::fmt::Formatter<'_>) -> std::fmt::Result {
        write!(f, "CaseStrategy({:?})", self.cfg)
    }
}

pub struct CaseTree {
    base: Case,
    removed: Vec<bool>,
    cursor: usize,
    last: Option<usize>,
    progressed: bool,
}

impl CaseTree {
    fn program_with(&self, removed: &[bool]) -> HProgram {
        HProgram { steps: self.base.program.steps.iter().enumerate().filter(|(i, _)| !removed[*i]).map(|(_, s)| s.clone()).collect() }
    }
    fn removable(&self, i: usize) -> bool {
        if self.removed[i] {
            return false;
        }
        let s = &self.base.program.steps[i];
        let used = self.base.program.steps.iter().enumerate().any(|(j, t)| j > i && !self.removed[j] && t.inputs.iter().any(|n| s.outputs.contains(n)));
        if used {
            return false;
        }
        let mut r = self.removed.clone();
        r[i] = true;
        let p = self.program_with(&r);
        let _ = (uses_jubjub_const(&p), has_jubjub_chip(&p));
        true
    }
}

impl ValueTree for CaseTree {
    type Value = Case;
    fn current(&self) -> Case {
        let program = self.program_with(&self.removed);
        let live: BTreeSet<&String> = program.steps.iter().flat_map(|s| s.outputs.iter()).collect();
        let mut c = self.base.clone();
        c.witness.retain(|k, _| live.contains(k) || !self.base.program.steps.iter().any(|s| s.outputs.contains(k)));
        c.program = program;
        c
    }
    fn simplify(&mut self) -> bool {
        loop {
            while self.cursor > 0 {
                self.cursor -= 1;
                if self.removable(self.cursor) {
                    self.removed[self.cursor] = true;
                    self.last = Some(self.cursor);
                    self.progressed = true;
                    return true;
                }
            }
            if self.progressed {
                self.progressed = false;
                self.cursor = self.removed.len();
            } else {
                return false;
            }
        }
    }
    fn complicate(&mut self) -> bool {
        match self.last.take() {
            Some(i) => {
                self.removed[i] = false;
                true
            }
            None => false,
        }
    }
}

impl Strategy for CaseStrategy {
    type Tree = CaseTree;
    type Value = Case;
    fn new_tree(&self, runner: &mut TestRunner) -> NewTree<Self> {
        use proptest::prelude::RngCore;
        let seed = runner.rng().next_u64();
        let case = build_case(seed, &self.cfg, self.poseidon);
        let mut rng = SplitMix(seed ^ 0x5bd1_e995_9e37_79b9);
        let case = (self.post)(case, &mut rng);
        let n = case.program.steps.len();
        Ok(CaseTree { base: case, removed: vec![false; n], cursor: n, last: None, progressed: false })
    }
}

pub fn no_post(c: Case, _: &mut SplitMix) -> Case {
    c
}

// ---------------------------------------------------------------------------
// Ill-formed variants derived from a well-typed case

pub const MUTATIONS: [&str; 9] = [
    "wrong-arity", "duplicate-output", "missing-name", "ill-typed-operand", "unsupported-type", "missing-witness", "wrong-witness-type", "bad-constant",
    "witness-bytes-length",
];

fn other_kind_value(rng: &mut SplitMix, not: &str) -> MVal {
    let all = [
        MVal::Bool(true),
        MVal::Bytes(vec![1, 2, 3]),
        MVal::Native(BigUint::from(5u32)),
        MVal::Big(BigUint::from(5u32)),
        MVal::Point(jub().g.clone()),
        MVal::Scalar(BigUint::from(5u32)),
    ];
    loop {
        let v = all[rng.below(6) as usize].clone();
        if v.kind() != not {
            return v;
        }
    }
}

/// Literals that are NOT constants by the documented syntax.
pub const BAD_CONSTANTS: [&str; 13] = [
    "2",
    "zz_undefined",
    "abc",
    "Native:zz",
    "Native:73eda753299d7d483339d80809a1d80553bda402fffe5bfeffffffff00000001",
    "Native:0100000000000000000000000000000000000000000000000000000000000000ff",
    "BigUint:-1",
    "BigUint:xyz",
    "Jubjub:GEN",
    "Jubjub:00",
    // (0, -1): on the curve, order 2, not in the prime-order subgroup
    "Jubjub:00000000fffffffffe5bfeff02a4bd5305d8a10908d83933487d9d2953a7ed73",
    "JubjubScalar:0e7db4ea6533afa906673b0101343b00a6682093ccc81082d0970e5ed6f72cb7",
    "Foo:00",
];

pub fn mutate(mut c: Case, rng: &mut SplitMix) -> Case {
    let n = c.program.steps.len();
    if n == 0 {
        return c;
    }
    // values known at each point (by the documented semantics), for type-directed edits
    let kind = MUTATIONS[rng.below(MUTATIONS.len() as u64) as usize];
    c.intent = format!("mut:{kind}");
    let pick_step = |rng: &mut SplitMix, pred: &dyn Fn(&HStep) -> bool, c: &Case| -> Option<usize> {
        let idx: Vec<usize> = (0..c.program.steps.len()).filter(|i| pred(&c.program.steps[*i])).collect();
        if idx.is_empty() {
            None
        } else {
            Some(idx[rng.below(idx.len() as u64) as usize])
        }
    };
    match kind {
        "wrong-arity" => {
            let i = rng.below(n as u64) as usize;
            let s = &mut c.program.steps[i];
            let (ia, oa) = s.op.arity();
            match rng.below(4) {
                0 if !s.inputs.is_empty() => {
                    s.inputs.pop();
                    if ia.is_none() {
                        s.inputs.clear();
                    }
                }
                1 => {
                    let extra = s.inputs.first().cloned().unwrap_or_else(|| "1".into());
                    s.inputs.push(extra);
                    if ia.is_none() {
                        // variadic inputs: break the outputs instead
                        s.outputs.push("zz_extra".into());
                    }
                }
                2 if !s.outputs.is_empty() => {
                    s.outputs.pop();
                    if oa.is_none() {
                        s.outputs.clear();
                    }
                }
                _ => {
                    s.outputs.push("zz_extra".into());
                    if oa.is_none() {
                        s.inputs.push("1".into());
                    }
                }
            }
        }
        "duplicate-output" => {
            let defined: Vec<(usize, String)> = c.program.steps.iter().enumerate().flat_map(|(i, s)| s.outputs.iter().map(move |o| (i, o.clone()))).collect();
            if defined.len() >= 2 {
                let a = rng.below(defined.len() as u64 - 1) as usize;
                let b = a + 1 + rng.below((defined.len() - a - 1) as u64) as usize;
                let (ia, na) = defined[a].clone();
                let (ib, nb) = defined[b].clone();
                let _ = ia;
                // rename the later definition (and its witness, so that only the name clashes)
                for o in c.program.steps[ib].outputs.iter_mut() {
                    if *o == nb {
                        *o = na.clone();
                    }
                }
            } else if let Some((_, name)) = defined.first().cloned() {
                c.program.steps.push(HStep { op: HOp::Load(HType::Bool), inputs: vec![], outputs: vec![name] });
            }
        }
        "missing-name" => {
            if let Some(i) = pick_step(rng, &|s| !s.inputs.is_empty(), &c) {
                let s = &mut c.program.steps[i];
                let j = rng.below(s.inputs.len() as u64) as usize;
                s.inputs[j] = if rng.below(2) == 0 { "zz_undefined".into() } else { format!("{}_", s.inputs[j].replace(':', "_")) };
                if parse_const(&s.inputs[j]).is_some() {
                    s.inputs[j] = "zz_undefined".into();
                }
            } else {
                c.program.steps.push(HStep { op: HOp::Publish, inputs: vec!["zz_undefined".into()], outputs: vec![] });
            }
        }
        "ill-typed-operand" => {
            // replace one operand of a typed operation by a constant of another kind
            if let Some(i) = pick_step(rng, &|s| !s.inputs.is_empty() && s.op != HOp::Publish, &c) {
                let s = &mut c.program.steps[i];
                let j = rng.below(s.inputs.len() as u64) as usize;
                let lits = ["1", "00ff", "Native:05", "BigUint:05"];
                s.inputs[j] = lits[rng.below(4) as usize].into();
            }
        }
        "unsupported-type" => {
            // append an operation applied to a type it is documented not to support
            let name = "zz_u";
            let (t, v, op, ins): (HType, MVal, HOp, Vec<&str>) = match rng.below(10) {
                0 => (HType::Bool, MVal::Bool(true), HOp::Add, vec![name, name]),
                1 => (HType::BigUint(8), MVal::Big(BigUint::from(3u32)), HOp::Neg, vec![name]),
                2 => (HType::JubjubScalar, MVal::Scalar(BigUint::from(3u32)), HOp::IsEqual, vec![name, name]),
                3 => (HType::JubjubScalar, MVal::Scalar(BigUint::from(3u32)), HOp::IntoBytes(32), vec![name]),
                4 => (HType::JubjubPoint, MVal::Point(jub().g.clone()), HOp::IntoBytes(31), vec![name]),
                5 => (HType::Bytes(33), MVal::Bytes(vec![0; 33]), HOp::FromBytes(HType::JubjubPoint), vec![name]),
                6 => (HType::Bytes(2), MVal::Bytes(vec![0; 2]), HOp::FromBytes(HType::BigUint(15)), vec![name]),
                7 => (HType::Native, MVal::Native(BigUint::from(3u32)), HOp::Sha256, vec![name]),
                8 => (HType::JubjubScalar, MVal::Scalar(BigUint::from(3u32)), HOp::AssertEqual, vec![name, name]),
                _ => (HType::Native, MVal::Native(BigUint::from(3u32)), HOp::ModExp(3), vec![name, name]),
            };
            c.program.steps.push(HStep { op: HOp::Load(t), inputs: vec![], outputs: vec![name.into()] });
            c.witness.insert(name.into(), v.to_h());
            let outs = match op.arity().1 {
                Some(0) => vec![],
                _ => vec!["zz_o".to_string()],
            };
            c.program.steps.push(HStep { op, inputs: ins.into_iter().map(String::from).collect(), outputs: outs });
        }
        "missing-witness" => {
            let keys: Vec<String> = c.witness.keys().cloned().collect();
            if keys.is_empty() {
                c.program.steps.push(HStep { op: HOp::Load(HType::Bool), inputs: vec![], outputs: vec!["zz_w".into()] });
            } else {
                c.witness.remove(&keys[rng.below(keys.len() as u64) as usize]);
            }
        }
        "wrong-witness-type" => {
            let keys: Vec<String> = c.witness.keys().cloned().collect();
            if keys.is_empty() {
                c.program.steps.push(HStep { op: HOp::Load(HType::Bool), inputs: vec![], outputs: vec!["zz_w".into()] });
                c.witness.insert("zz_w".into(), MVal::Native(BigUint::one()).to_h());
            } else {
                let k = keys[rng.below(keys.len() as u64) as usize].clone();
                let old = c.witness[&k].to_m().map(|v| v.kind()).unwrap_or("?");
                c.witness.insert(k, other_kind_value(rng, old).to_h());
            }
        }
        "witness-bytes-length" => {
            c.program.steps.push(HStep { op: HOp::Load(HType::Bytes(4)), inputs: vec![], outputs: vec!["zz_b".into()] });
            let len = [0usize, 3, 5][rng.below(3) as usize];
            c.witness.insert("zz_b".into(), MVal::Bytes(vec![7; len]).to_h());
        }
        _ => {
            // bad-constant
            let lit = BAD_CONSTANTS[rng.below(BAD_CONSTANTS.len() as u64) as usize];
            if let Some(i) = pick_step(rng, &|s| !s.inputs.is_empty(), &c) {
                let s = &mut c.program.steps[i];
                let j = rng.below(s.inputs.len() as u64) as usize;
                s.inputs[j] = lit.into();
            } else {
                c.program.steps.push(HStep { op: HOp::Publish, inputs: vec![lit.into()], outputs: vec![] });
            }
        }
    }
    c
}

pub fn mutate_post(c: Case, rng: &mut SplitMix) -> Case {
    mutate(c, rng)
}
