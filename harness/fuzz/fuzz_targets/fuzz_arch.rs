#![no_main]
//! `ZkStdLibArch::read`; a descriptor that decodes re-encodes canonically and is configured (`nb_points`).
use libfuzzer_sys::fuzz_target;
use midnight_zk_stdlib::ZkStdLibArch;

fuzz_target!(|data: &[u8]| {
    c16_fuzz::init();
    let Some((res, rem)) = c16_fuzz::guard("ZkStdLibArch::read", || {
        let mut r = data;
        let res = ZkStdLibArch::read(&mut r);
        (res, r.len())
    }) else {
        return;
    };
    let Ok(arch) = res else { return };
    let mut w = vec![];
    let _ = arch.write(&mut w);
    if w[..] != data[..data.len() - rem] {
        c16_fuzz::fail("noncanonical:ZkStdLibArch::read", "decoded descriptor re-encodes differently");
    }
    let _ = c16_fuzz::guard("ZkStdLibArch::nb_points", || arch.nb_points());
});
