//! C18 — ZKIR: off-circuit evaluation and the compiled circuit agree on every
//! program.
//!
//! Sub-checks
//!  * zkir.agree       generated well-typed programs x boundary witnesses (75 % succeed, 25 % carry an
//!                     injected assertion / range / underflow / encoding / modulus-0 / witness-width failure):
//!                     interpreter of the documented semantics == off-circuit evaluator on P; own
//!                     encoding == format_instance(P); honest circuit verifies (k = min_k()), every
//!                     instance position edited once is rejected; failing evaluations are rejected
//!                     in-circuit for the read-back / zero / random instances; JSON and bincode round
//!                     trips are identities and the reloaded relations give the same P.
//!  * zkir.illformed   mutated programs / witnesses: Err from read / public_inputs / synthesis, no panic.
//!  * zkir.roundtrip.vk  reloaded relations give the same verifying-key bytes (small sample).
//!  * zkir.regress.*   fixed minimal programs (with controls) for the defects this check found and
//!                     that were repaired (F12, F13, F14, F15, F17, F20, F27, N1, N3-N6): must hold.
//!  * zkir.N2.publish-scalar-from-bytes   KNOWN FINDING, single signature
//!                     "zkir:publish:jubjub-scalar-from-bytes:unreduced": publish of a JubjubScalar
//!                     obtained with from_bytes (value >= group order, or a byte length whose unreduced
//!                     bits do not fit the one published field element). The same shape is excluded
//!                     (counted: "excluded-by-construction:scalar-from-bytes-publish") from zkir.agree.
//!  * zkir.observe.F21  load of BigUint(0): observation only, never judged.
//!
//! Only the entry points named by the property are judged: read / from_instructions, public_inputs,
//! circuit synthesis through MidnightCircuit::new(.., Some(max_bit_len)); min_k() is called on honest
//! circuits of successful evaluations only.
//!
//! Sensitivity (scratch worktree /tmp/wt-c18 + harness copy, VERIF_SEED=1 quick; all caught by zkir.agree):
//!  M1 in-circuit into_bytes(Native) = full 32-byte decomposition truncated to n (no range check)
//!       -> zkir:circuit-accepts-failing-eval:range:into_bytes (shrunk to load + into_bytes(31))
//!  M2 off-circuit BigUint sub saturating to 0 instead of the underflow error
//!       -> zkir:offcircuit-accepts:underflow:sub (shrunk to load + sub)
//!  M3 off-circuit publish pushes only its first input
//!       -> zkir:panic:public_inputs:zkir/src/zkir.rs:74 (assert on the number of published values)
//!  M4 in-circuit neg(JubjubPoint) returns its operand
//!       -> zkir:circuit-rejects-honest:verify:neg (shrunk to load + neg + publish)

use std::collections::HashMap;

use group::GroupEncoding;
use midnight_circuits::{hash::poseidon::PoseidonChip, instructions::hash::HashCPU};
use midnight_curves::{Fr as JFr, JubjubAffine, JubjubExtended, JubjubSubgroup};
use midnight_proofs::{
    circuit::Value,
    dev::{cost_model::dummy_synthesize_run, CellValue, InstanceValue, MockProver},
    plonk::Any,
};
use midnight_zk_stdlib::{MidnightCircuit, Relation};
use midnight_zkir::{Instruction, IrType, IrValue, ZkirRelation};
use num_bigint::BigUint;
use num_traits::{One, Zero};
use proptest::prelude::*;
use rayon::iter::ParallelIterator;
use vp_circ::zkir_gen::*;
use vpcore::{CaseResult, Failure, SplitMix, Verdict};

type F = midnight_curves::Fq;
type Wit = HashMap<&'static str, IrValue>;
type PI = Vec<(IrValue, IrType)>;

// ---------------------------------------------------------------------------
// conversions

fn f_of(x: &BigUint) -> F {
    vp_alg::from_big::<F>(x)
}
fn big_of_f(x: &F) -> BigUint {
    vp_alg::to_big(x)
}

/// Off-circuit Poseidon of midnight-circuits (checked against a textbook
/// implementation by another property).
fn poseidon_ref(xs: &[BigUint]) -> BigUint {
    let v: Vec<F> = xs.iter().map(f_of).collect();
    big_of_f(&<PoseidonChip<F> as HashCPU<F, F>>::hash(&v))
}

fn leak(s: String) -> &'static str {
    Box::leak(s.into_boxed_str())
}

fn to_ir(v: &MVal) -> Option<IrValue> {
    Some(match v {
        MVal::Bool(b) => IrValue::Bool(*b),
        MVal::Bytes(b) => IrValue::Bytes(b.clone()),
        MVal::Native(x) => IrValue::Native(vp_alg::from_big_checked::<F>(x)?),
        MVal::Big(x) => IrValue::BigUint(x.clone()),
        MVal::Point(p) => {
            let b: [u8; 32] = compress(p).try_into().ok()?;
            IrValue::JubjubPoint(Option::from(JubjubSubgroup::from_bytes(&b))?)
        }
        MVal::Scalar(x) => IrValue::JubjubScalar(vp_alg::from_big_checked::<JFr>(x)?),
    })
}

fn from_ir(v: &IrValue) -> MVal {
    match v {
        IrValue::Bool(b) => MVal::Bool(*b),
        IrValue::Bytes(b) => MVal::Bytes(b.clone()),
        IrValue::Native(x) => MVal::Native(big_of_f(x)),
        IrValue::BigUint(x) => MVal::Big(x.clone()),
        IrValue::JubjubPoint(p) => {
            let a: JubjubAffine = JubjubExtended::from(*p).into();
            MVal::Point((big_of_f(&a.get_u()), big_of_f(&a.get_v())))
        }
        IrValue::JubjubScalar(s) => MVal::Scalar(vp_alg::to_big(s)),
    }
}

fn ir_witness(w: &Witness) -> Result<Wit, String> {
    let mut m = HashMap::new();
    for (k, h) in w {
        let v = h.to_m().and_then(|v| to_ir(&v)).ok_or_else(|| format!("witness {k} = {h:?} has no IrValue"))?;
        m.insert(leak(k.clone()), v);
    }
    Ok(m)
}

/// Own encoding of a published value (kind / length / limb count from the
/// type the relation reports).
fn encode(v: &MVal, t: &IrType) -> Option<Vec<F>> {
    Some(match (v, t) {
        (MVal::Bool(b), IrType::Bool) => vec![F::from(*b as u64)],
        (MVal::Bytes(b), IrType::Bytes(n)) if b.len() == *n => b.iter().map(|x| F::from(*x as u64)).collect(),
        (MVal::Native(x), IrType::Native) => vec![f_of(x)],
        (MVal::Big(x), IrType::BigUint(n)) => {
            if x.bits() > *n as u64 {
                return None;
            }
            let nl = n.div_ceil(96);
            let mask = (BigUint::one() << 96u32) - 1u32;
            (0..nl).map(|i| f_of(&((x >> (96 * i as usize)) & &mask))).collect()
        }
        (MVal::Point(p), IrType::JubjubPoint) => vec![f_of(&p.0), f_of(&p.1)],
        (MVal::Scalar(s), IrType::JubjubScalar) => vec![f_of(s)],
        _ => return None,
    })
}

// ---------------------------------------------------------------------------
// guarded calls of the entry points

enum Call<T> {
    Ok(T),
    Err(String),
    Panic(String),
}

fn call<T, E: std::fmt::Debug>(f: impl FnOnce() -> Result<T, E>) -> Call<T> {
    match vpcore::catch(f) {
        Ok(Ok(v)) => Call::Ok(v),
        Ok(Err(e)) => Call::Err(format!("{e:?}")),
        Err(p) => Call::Panic(p),
    }
}

/// Stable signature of a panic at an entry point.
fn panic_sig(entry: &str, p: &str) -> String {
    let (loc, msg) = p.split_once(": ").unwrap_or((p, ""));
    let loc = loc.replace("/repo/", "");
    if loc.contains("proofs/src/dev/cost_model.rs") {
        // F27: DevAssembly::run(circuit).unwrap() in cost_model_options
        return "zkir:panic:cost-model-unwrap".into();
    }
    if let Some(i) = loc.find("/registry/src/") {
        // a panic inside a dependency (expect/unwrap helpers): crate-relative location + message words
        let rest = &loc[i + "/registry/src/".len()..];
        let rest = rest.split_once('/').map(|x| x.1).unwrap_or(rest);
        let words: Vec<String> = msg
            .split(|c: char| !c.is_ascii_alphanumeric())
            .filter(|w| !w.is_empty() && !w.chars().all(|c| c.is_ascii_digit()))
            .filter(|w| !["assertion", "left", "right", "failed"].contains(w))
            .take(7)
            .map(String::from)
            .collect();
        return format!("zkir:panic:{entry}:{rest}:{}", words.join("-"));
    }
    format!("zkir:panic:{entry}:{loc}")
}

/// Operations of the case other than load / publish (for signatures of shrunk cases).
fn ops_suffix(c: &Case) -> String {
    let mut ops: Vec<String> = c
        .program
        .steps
        .iter()
        .filter_map(|s| match s.op {
            HOp::Load(_) | HOp::Publish => None,
            HOp::ModExp(n) if n <= 1 => Some(format!("mod_exp({n})")),
            HOp::FromBytes(t) => Some(format!("from_bytes({})", t.kind())),
            o => Some(o.name().to_string()),
        })
        .collect();
    ops.sort();
    ops.dedup();
    if ops.is_empty() {
        "load+publish".into()
    } else if ops.len() <= 3 {
        ops.join("+")
    } else {
        "many-ops".into()
    }
}

fn panic_fail(entry: &str, p: &str, c: &Case) -> Failure {
    Failure::new(panic_sig(entry, p), format!("{entry} panicked: {p}\nprogram: {}\nwitness: {}", c.program.render(), serde_json::to_string(&c.witness).unwrap_or_default()))
}

fn ctx(c: &Case) -> String {
    format!("program: {}\nwitness: {}", c.program.render(), serde_json::to_string(&c.witness).unwrap_or_default())
}

fn step_sig(c: &Case, i: usize) -> String {
    match c.program.steps.get(i) {
        Some(s) => s.op.name().to_string(),
        None => "?".into(),
    }
}

// ---------------------------------------------------------------------------
// circuit side

fn set_instance(prover: &mut MockProver<F>, inst: &[F]) {
    let col = &mut prover.instance_mut()[1];
    for (r, slot) in col.iter_mut().enumerate() {
        *slot = match inst.get(r) {
            Some(v) => InstanceValue::Assigned(*v),
            None => InstanceValue::Padding,
        };
    }
}

/// The values the assignment exposes: for every row of the plain instance
/// column that is copy-constrained, the value of a cell of its cycle.
fn read_back(prover: &MockProver<F>) -> Vec<F> {
    let perm = prover.permutation();
    let cols = perm.columns().to_vec();
    let mapping: Vec<Vec<(usize, usize)>> = perm.mapping().map(|c| c.collect::<Vec<_>>()).collect();
    let Some(ci) = cols.iter().position(|c| *c.column_type() == Any::Instance && c.index() == 1) else { return vec![] };
    let mut out = vec![];
    for r in 0..mapping[ci].len().min(4096) {
        let start = (ci, r);
        let mut cur = mapping[start.0][start.1];
        if cur == start {
            break;
        }
        let mut val = F::from(0);
        let mut steps = 0;
        while cur != start && steps < 1 << 16 {
            let col = cols[cur.0];
            let v = match col.column_type() {
                Any::Advice(_) => Some(prover.advice()[col.index()][cur.1]),
                Any::Fixed => Some(prover.fixed()[col.index()][cur.1]),
                Any::Instance => None,
            };
            if let Some(CellValue::Assigned(v)) = v {
                val = v;
                break;
            }
            cur = mapping[cur.0][cur.1];
            steps += 1;
        }
        out.push(val);
    }
    out
}

fn first_failure(e: &[midnight_proofs::dev::VerifyFailure]) -> String {
    format!("{} failures; first: {}", e.len(), e.first().map(|f| format!("{f:?}").chars().take(400).collect::<String>()).unwrap_or_default())
}

/// Honest circuit: k = min_k(), must verify with exactly `inst`; every
/// position edited once (+1) must be rejected. Ok(k).
fn complete_and_s1(c: &Case, rel: &ZkirRelation, pi: &PI, w: &Wit, inst: &[F], seed: u64) -> Result<u32, Failure> {
    let mbl = c.max_bit_len;
    let circuit = MidnightCircuit::new(rel, Value::known(pi.clone()), Value::known(w.clone()), Some(mbl));
    let k = match vpcore::catch(|| circuit.min_k()) {
        Ok(k) => k,
        Err(p) => return Err(panic_fail("min_k", &p, c)),
    };
    let mut prover = match call(|| MockProver::run(k, &circuit, vec![vec![], inst.to_vec()])) {
        Call::Ok(p) => p,
        Call::Err(e) => return Err(Failure::new(format!("zkir:circuit-rejects-honest:synthesis:{}", ops_suffix(c)), format!("MockProver::run(k={k}) = Err({e}) for an evaluation that succeeds\n{}", ctx(c)))),
        Call::Panic(p) => return Err(panic_fail("synthesize", &p, c)),
    };
    match vpcore::catch(|| prover.verify()) {
        Ok(Ok(())) => {}
        Ok(Err(e)) => return Err(Failure::new(format!("zkir:circuit-rejects-honest:verify:{}", ops_suffix(c)), format!("k={k}: {}\n{}", first_failure(&e), ctx(c)))),
        Err(p) => return Err(panic_fail("verify", &p, c)),
    }
    // S1: permutation-only check for every position, full verification for a few
    let mut rng = SplitMix(seed ^ 0x51);
    let full: Vec<usize> = if inst.is_empty() { vec![] } else { vec![0, inst.len() - 1, rng.below(inst.len() as u64) as usize] };
    for pos in 0..inst.len() {
        let mut wrong = inst.to_vec();
        wrong[pos] += F::from(1);
        set_instance(&mut prover, &wrong);
        let r = if full.contains(&pos) { vpcore::catch(|| prover.verify()) } else { vpcore::catch(|| prover.verify_at_rows(0..0, 0..0)) };
        match r {
            Ok(Err(_)) => {}
            Ok(Ok(())) => {
                return Err(Failure::new(
                    "zkir:instance-position-unconstrained",
                    format!("honest witness accepted with instance position {pos} of {} changed by +1 (instance {:?})\n{}", inst.len(), inst, ctx(c)),
                ))
            }
            Err(p) => return Err(panic_fail("verify", &p, c)),
        }
    }
    Ok(k)
}

/// A failing evaluation must be rejected in-circuit: synthesis error, or
/// `verify()` fails for the read-back instance, zeros and a random one.
fn circuit_rejects(c: &Case, rel: &ZkirRelation, w: &Wit, what: &str, seed: u64) -> Result<String, Failure> {
    let mut rng = SplitMix(seed ^ 0x77);
    for k in 10..=17u32 {
        let circuit = MidnightCircuit::new(rel, Value::known(vec![]), Value::known(w.clone()), Some(c.max_bit_len));
        let mut prover = match call(|| MockProver::run(k, &circuit, vec![vec![], vec![]])) {
            Call::Ok(p) => p,
            Call::Err(e) if e.contains("NotEnoughRowsAvailable") => continue,
            Call::Err(_) => return Ok("synthesis-err".into()),
            // MockProver asserts (instead of returning NotEnoughRowsAvailable) when a row is out of range
            Call::Panic(p) if p.contains("usable_rows") => continue,
            Call::Panic(p) => {
                // (for a failing evaluation a panic of the witness generation counts as "circuit rejects")
                let loc = p.split(": ").next().unwrap_or("?").replace("/repo/", "");
                let loc = match loc.find("/registry/src/") {
                    Some(i) => loc[i + 14..].split_once('/').map(|x| x.1.to_string()).unwrap_or(loc.clone()),
                    None => loc,
                };
                return Ok(format!("witness-gen-panic@{loc}"));
            }
        };
        let rb = read_back(&prover);
        let candidates: Vec<Vec<F>> = vec![rb.clone(), vec![F::from(0); rb.len()], (0..rb.len().max(1)).map(|_| F::from(rng.next_u64())).collect()];
        for inst in candidates {
            set_instance(&mut prover, &inst);
            match vpcore::catch(|| prover.verify()) {
                Ok(Err(_)) => {}
                Ok(Ok(())) => {
                    return Err(Failure::new(
                        format!("zkir:circuit-accepts-failing-eval:{what}"),
                        format!("evaluation fails ({what}) but MockProver (k={k}) accepts the assignment with instance {inst:?}\n{}", ctx(c)),
                    ))
                }
                Err(p) => return Err(panic_fail("verify", &p, c)),
            }
        }
        return Ok("verify-fails".into());
    }
    Err(Failure::new("harness:k-too-small", format!("k up to 17 not enough\n{}", ctx(c))))
}

// ---------------------------------------------------------------------------
// round trips

fn instructions_of(json: &str) -> Result<Vec<Instruction>, String> {
    let v: serde_json::Value = serde_json::from_str(json).map_err(|e| e.to_string())?;
    serde_json::from_value(v["instructions"].clone()).map_err(|e| e.to_string())
}

/// JSON and bincode round trips are identities; reloaded relations give the same P.
fn roundtrips(c: &Case, json: &str, rel: &ZkirRelation, w: &Wit, pi: &PI) -> Result<(ZkirRelation, ZkirRelation), Failure> {
    let bad = |sig: &str, d: String| Failure::new(format!("zkir:roundtrip:{sig}"), format!("{d}\n{}", ctx(c)));
    let ins = instructions_of(json).map_err(|e| bad("json-parse", e))?;
    // JSON: serialise with the crate's serde, parse again
    let text = serde_json::to_string(&ins).map_err(|e| bad("json-serialise", e.to_string()))?;
    let ins2: Vec<Instruction> = serde_json::from_str(&text).map_err(|e| bad("json-reparse", e.to_string()))?;
    if ins2 != ins {
        return Err(bad("json-not-identity", format!("{ins:?} -> {text} -> {ins2:?}")));
    }
    let rel_json = match call(|| ZkirRelation::read(leak(format!("{{\"instructions\":{text}}}")))) {
        Call::Ok(r) => r,
        Call::Err(e) => return Err(bad("json-reload", e)),
        Call::Panic(p) => return Err(panic_fail("read", &p, c)),
    };
    // bincode through the Relation API, and directly
    let mut buf = vec![];
    rel.write_relation(&mut buf).map_err(|e| bad("write_relation", e.to_string()))?;
    let (dec, used): (Vec<Instruction>, usize) = bincode::decode_from_slice(&buf, bincode::config::standard()).map_err(|e| bad("bincode-decode", e.to_string()))?;
    if used != buf.len() || dec != ins {
        return Err(bad("bincode-not-identity", format!("decoded {dec:?} ({used} of {} bytes) != {ins:?}", buf.len())));
    }
    match call(|| ZkirRelation::from_instructions(&dec)) {
        Call::Ok(_) => {}
        Call::Err(e) => return Err(bad("from_instructions", e)),
        Call::Panic(p) => return Err(panic_fail("from_instructions", &p, c)),
    }
    let mut reader = &buf[..];
    let rel_bin = match call(|| ZkirRelation::read_relation(&mut reader)) {
        Call::Ok(r) => r,
        Call::Err(e) => return Err(bad("read_relation", e)),
        Call::Panic(p) => return Err(panic_fail("read_relation", &p, c)),
    };
    if !reader.is_empty() {
        return Err(bad("read_relation", format!("{} bytes left unread", reader.len())));
    }
    let mut buf2 = vec![];
    rel_bin.write_relation(&mut buf2).map_err(|e| bad("write_relation", e.to_string()))?;
    if buf2 != buf {
        return Err(bad("bincode-rewrite-differs", format!("{} vs {}", hex::encode(&buf), hex::encode(&buf2))));
    }
    for (name, r) in [("json", &rel_json), ("bincode", &rel_bin)] {
        match call(|| r.public_inputs(w.clone())) {
            Call::Ok(p2) if &p2 == pi => {}
            Call::Ok(p2) => return Err(bad(&format!("{name}-reload-different-P"), format!("{pi:?} vs {p2:?}"))),
            Call::Err(e) => return Err(bad(&format!("{name}-reload-eval-err"), e)),
            Call::Panic(p) => return Err(panic_fail("public_inputs", &p, c)),
        }
    }
    Ok((rel_json, rel_bin))
}

// ---------------------------------------------------------------------------
// the oracle

#[derive(Clone, Copy, PartialEq)]
enum Depth {
    /// everything (circuit runs included)
    Full,
    /// no mock-prover run for successful evaluations (ill-formed stream controls)
    NoCircuit,
}

fn check_case(c: &Case, depth: Depth) -> CaseResult {
    let it = interpret(&c.program, &c.witness, poseidon_ref);
    let json = leak(c.program.render());
    let mut v = Verdict::of(false, "");
    v.classes.clear();
    let types: std::collections::BTreeSet<&str> = c
        .program
        .steps
        .iter()
        .filter_map(|s| match s.op {
            HOp::Load(t) | HOp::FromBytes(t) => Some(t.kind()),
            HOp::Sha256 | HOp::Sha512 | HOp::IntoBytes(_) => Some("Bytes"),
            HOp::IsEqual => Some("Bool"),
            HOp::Poseidon | HOp::AffineCoordinates => Some("Native"),
            _ => None,
        })
        .chain(c.program.steps.iter().flat_map(|s| s.inputs.iter()).filter_map(|i| parse_const(i).map(|m| m.kind())))
        .collect();
    let has_publish = c.program.steps.iter().any(|s| s.op == HOp::Publish);
    v.nontrivial = c.program.steps.len() >= 3 && types.len() >= 2 && has_publish;
    for o in c.ops_used() {
        v.classes.push(format!("op:{o}"));
    }
    for t in &types {
        v.classes.push(format!("ty:{t}"));
    }
    for e in &c.excl {
        v.classes.push(format!("excluded-by-construction:{e}"));
    }
    v.classes.push(format!("len:{}", match c.program.steps.len() { 0..=2 => "1-2", 3..=8 => "3-8", 9..=16 => "9-16", _ => "17+" }));

    // ---- read
    let static_kind = it.static_error.as_ref().map(|e| e.kind);
    let rel = match call(|| ZkirRelation::read(json)) {
        Call::Panic(p) => return Err(panic_fail("read", &p, c)),
        Call::Err(e) => {
            if static_kind == Some(ErrKind::Arity) {
                v.classes.insert(0, "outcome:ill-formed:arity:rejected-at-read".into());
                return Ok(v);
            }
            return Err(Failure::new("zkir:read-rejects-well-formed", format!("read = Err({e}) but the documented arities hold\n{}", ctx(c))));
        }
        Call::Ok(r) => r,
    };
    if static_kind == Some(ErrKind::Arity) {
        return Err(Failure::new("zkir:illformed-accepted:arity:read", format!("read accepts a program with a wrong arity ({})\n{}", it.static_error.as_ref().unwrap().msg, ctx(c))));
    }
    let w = match ir_witness(&c.witness) {
        Ok(w) => w,
        Err(e) => return Err(Failure::new("harness:witness", e)),
    };
    let off = call(|| rel.public_inputs(w.clone()));

    // ---- ill-formed program / witness: Err on both sides, no panic
    if let Some(se) = &it.static_error {
        let kind = se.kind.label();
        let op = step_sig(c, se.step);
        match off {
            Call::Panic(p) => return Err(panic_fail("public_inputs", &p, c)),
            Call::Ok(p) => {
                return Err(Failure::new(
                    format!("zkir:illformed-accepted:{kind}:public_inputs:{op}"),
                    format!("documented: {} — but public_inputs = Ok({p:?})\n{}", se.msg, ctx(c)),
                ))
            }
            Call::Err(_) => {}
        }
        let witness_side = matches!(se.kind, ErrKind::WitnessMissing | ErrKind::WitnessType);
        // program errors show without a witness; witness errors need it
        let wv = if witness_side { Value::known(w.clone()) } else { Value::unknown() };
        let circuit = MidnightCircuit::new(&rel, Value::unknown(), wv, Some(8));
        match call(|| dummy_synthesize_run(&circuit)) {
            Call::Panic(p) => return Err(panic_fail("synthesize", &p, c)),
            Call::Ok(()) => {
                return Err(Failure::new(
                    format!("zkir:illformed-accepted:{kind}:synthesize:{op}"),
                    format!("documented: {} — but circuit synthesis succeeds\n{}", se.msg, ctx(c)),
                ))
            }
            Call::Err(_) => {}
        }
        if depth == Depth::Full && witness_side {
            let circuit = MidnightCircuit::new(&rel, Value::known(vec![]), Value::known(w.clone()), Some(8));
            match call(|| MockProver::run(12, &circuit, vec![vec![], vec![]])) {
                Call::Panic(p) => return Err(panic_fail("synthesize", &p, c)),
                Call::Ok(_) => return Err(Failure::new(format!("zkir:illformed-accepted:{kind}:mock-run"), ctx(c))),
                Call::Err(_) => {}
            }
        }
        v.classes.insert(0, format!("outcome:ill-formed:{kind}"));
        v.classes.push(format!("ill-formed-at:{op}"));
        return Ok(v);
    }

    // ---- well-typed program, evaluation fails
    if let Some(ve) = &it.value_error {
        let kind = ve.kind.label();
        let op = step_sig(c, ve.step);
        match off {
            Call::Panic(p) => return Err(panic_fail("public_inputs", &p, c)),
            Call::Ok(p) => {
                return Err(Failure::new(
                    format!("zkir:offcircuit-accepts:{kind}:{op}"),
                    format!("documented: evaluation fails ({}) — but public_inputs = Ok({p:?})\n{}", ve.msg, ctx(c)),
                ))
            }
            Call::Err(_) => {}
        }
        let how = if depth == Depth::Full { circuit_rejects(c, &rel, &w, &format!("{kind}:{op}"), c.seed)? } else { "skipped".to_string() };
        v.classes.insert(0, format!("outcome:eval-error:{kind}"));
        v.classes.push(format!("eval-error:{kind}:{op}:circuit={how}"));
        return Ok(v);
    }

    // ---- evaluation succeeds
    let pi = match off {
        Call::Panic(p) => return Err(panic_fail("public_inputs", &p, c)),
        Call::Err(e) => {
            return Err(Failure::new(
                format!("zkir:offcircuit-rejects-valid:{}", ops_suffix(c)),
                format!("documented semantics give P = {:?} but public_inputs = Err({e})\n{}", it.published, ctx(c)),
            ))
        }
        Call::Ok(p) => p,
    };
    if pi.len() != it.published.len() {
        return Err(Failure::new("zkir:offcircuit!=documented:count", format!("{} published values, documented {}\n{}", pi.len(), it.published.len(), ctx(c))));
    }
    let mut own_inst = vec![];
    for (i, ((val, ty), m)) in pi.iter().zip(it.published.iter()).enumerate() {
        let got = from_ir(val);
        if &got != m {
            let op = it.producers[i].map(|s| step_sig(c, s)).unwrap_or_else(|| "constant".into());
            return Err(Failure::new(
                format!("zkir:offcircuit!=documented:{op}:{}", m.kind()),
                format!("published value #{i}: evaluator {got:?}, documented semantics {m:?}\n{}", ctx(c)),
            ));
        }
        match encode(m, ty) {
            Some(e) => own_inst.extend(e),
            None => {
                return Err(Failure::new(
                    format!("zkir:published-type:{}", m.kind()),
                    format!("published value #{i} = {m:?} does not have the reported type {ty:?}\n{}", ctx(c)),
                ))
            }
        }
    }
    let inst = match call(|| ZkirRelation::format_instance(&pi)) {
        Call::Ok(i) => i,
        Call::Err(e) => return Err(Failure::new("zkir:format_instance:err", format!("{e}\n{}", ctx(c)))),
        Call::Panic(p) => return Err(panic_fail("format_instance", &p, c)),
    };
    if inst != own_inst {
        return Err(Failure::new("zkir:format_instance!=documented-encoding", format!("{inst:?} vs {own_inst:?} for {pi:?}\n{}", ctx(c))));
    }
    roundtrips(c, json, &rel, &w, &pi)?;
    if depth == Depth::Full {
        let k = complete_and_s1(c, &rel, &pi, &w, &inst, c.seed)?;
        v.classes.push(format!("k:{k}"));
    }
    v.classes.insert(0, "outcome:ok".into());
    v.classes.push(format!("published:{}", match inst.len() { 0 => "0", 1..=4 => "1-4", 5..=40 => "5-40", _ => "41+" }));
    Ok(v)
}

// ---------------------------------------------------------------------------
// suspected defects: minimal programs with controls

fn big(x: u64) -> MVal {
    MVal::Big(BigUint::from(x))
}
fn nat(x: u64) -> MVal {
    MVal::Native(BigUint::from(x))
}
fn le_bytes(v: &BigUint, n: usize) -> MVal {
    let mut b = if v.is_zero() { vec![] } else { v.to_bytes_le() };
    assert!(b.len() <= n);
    b.resize(n, 0);
    MVal::Bytes(b)
}

/// What the circuit side does with the case (for the report only).
fn probe_circuit(c: &Case) -> String {
    let json = leak(c.program.render());
    let Call::Ok(rel) = call(|| ZkirRelation::read(json)) else { return "read fails".into() };
    let Ok(w) = ir_witness(&c.witness) else { return "witness not convertible".into() };
    let circuit = MidnightCircuit::new(&rel, Value::unknown(), Value::unknown(), Some(8));
    let stat = match call(|| dummy_synthesize_run(&circuit)) {
        Call::Ok(()) => "Ok".to_string(),
        Call::Err(e) => format!("Err({e})"),
        Call::Panic(p) => format!("PANIC({p})"),
    };
    let circuit = MidnightCircuit::new(&rel, Value::known(vec![]), Value::known(w.clone()), Some(8));
    let run = match call(|| MockProver::run(14, &circuit, vec![vec![], vec![]])) {
        Call::Ok(prover) => {
            let rb = read_back(&prover);
            let mut prover = prover;
            set_instance(&mut prover, &rb);
            match vpcore::catch(|| prover.verify()) {
                Ok(Ok(())) => format!("satisfiable with the exposed instance {rb:?}"),
                Ok(Err(e)) => format!("unsatisfiable with the exposed instance {rb:?}: {}", first_failure(&e)),
                Err(p) => format!("verify PANIC({p})"),
            }
        }
        Call::Err(e) => format!("Err({e})"),
        Call::Panic(p) => format!("PANIC({p})"),
    };
    let off = match call(|| rel.public_inputs(w.clone())) {
        Call::Ok(p) => format!("Ok({p:?})"),
        Call::Err(e) => format!("Err({e})"),
        Call::Panic(p) => format!("PANIC({p})"),
    };
    format!("[probe] public_inputs: {off}\n[probe] synthesis without witness (max_bit_len 8): {stat}\n[probe] MockProver::run(k=14) with the witness: {run}")
}

/// Known finding N2: publish of a JubjubScalar obtained with from_bytes — the
/// evaluator publishes the reduced scalar, the circuit exposes the unreduced
/// bit chunks of the bytes. One signature for every shape of it.
const N2_SIGNATURE: &str = "zkir:publish:jubjub-scalar-from-bytes:unreduced";

fn check_n2(c: &Case) -> CaseResult {
    match check_case(c, Depth::Full) {
        Ok(v) => Ok(v.with(format!("case:{}", c.intent))),
        Err(mut f) => {
            if f.signature.starts_with("zkir:circuit-rejects-honest:verify:from_bytes(JubjubScalar)") || f.signature == "zkir:instance-position-unconstrained" {
                f.detail = format!("[{}] ({}) {}\n{}", c.intent, f.signature, f.detail, probe_circuit(c));
                f.signature = N2_SIGNATURE.into();
            }
            Err(f)
        }
    }
}

/// F21 (load of BigUint(0)) is an observation, not judged.
fn observe(c: &Case) -> CaseResult {
    Ok(match check_case(c, Depth::Full) {
        Ok(v) => Verdict::trivial(format!("observation:{}:agrees", c.intent)).with(v.classes.first().cloned().unwrap_or_default()),
        Err(f) => Verdict::trivial(format!("observation:{}:{}", c.intent, f.signature)),
    })
}

fn check_defect(c: &Case) -> CaseResult {
    match check_case(c, Depth::Full) {
        Ok(v) => Ok(v.with(format!("case:{}", c.intent))),
        Err(mut f) => {
            // fixed cases: one signature per case, so that every failing case is reported
            let slug: String = c.intent.chars().map(|ch| if ch.is_ascii_alphanumeric() { ch } else { '-' }).take(60).collect();
            f.signature = format!("{}@{}", f.signature, slug.trim_matches('-'));
            f.detail = format!("[{}] {}\n{}", c.intent, f.detail, probe_circuit(c));
            Err(f)
        }
    }
}

/// `Relation::read_relation(write_relation(rel))` must give back the relation
/// and consume exactly the bytes written (MidnightPK::read continues reading
/// the proving key from the same reader).
fn check_read_relation(c: &Case) -> CaseResult {
    use std::io::Read;
    let json = leak(c.program.render());
    let Call::Ok(rel) = call(|| ZkirRelation::read(json)) else { return Err(Failure::new("zkir:read-rejects-well-formed", ctx(c))) };
    let mut buf = vec![];
    rel.write_relation(&mut buf).map_err(|e| Failure::new("zkir:roundtrip:write_relation", e.to_string()))?;
    let exact = call(|| ZkirRelation::read_relation(&mut &buf[..]));
    let mut padded = buf.clone();
    padded.extend_from_slice(&[0x2a, 0x2b, 0x2c]);
    let mut reader = &padded[..];
    let with_trailer = call(|| ZkirRelation::read_relation(&mut reader));
    let mut rest = vec![];
    let _ = reader.read_to_end(&mut rest);
    match (&exact, &with_trailer) {
        (Call::Ok(r2), Call::Ok(_)) if rest == [0x2a, 0x2b, 0x2c] => {
            let mut b2 = vec![];
            r2.write_relation(&mut b2).map_err(|e| Failure::new("zkir:roundtrip:write_relation", e.to_string()))?;
            vpcore::ensure!(b2 == buf, "zkir:roundtrip:read_relation:different-program", "{} vs {}", hex::encode(&buf), hex::encode(&b2));
            Ok(Verdict::nontrivial("read_relation-identity"))
        }
        _ => {
            let d = |x: &Call<ZkirRelation>| match x {
                Call::Ok(_) => "Ok".to_string(),
                Call::Err(e) => format!("Err({e})"),
                Call::Panic(p) => format!("PANIC({p})"),
            };
            Err(Failure::new(
                "zkir:roundtrip:read_relation",
                format!(
                    "write_relation gives {} bytes ({}); read_relation on exactly these bytes: {}; on these bytes followed by 2a2b2c: {} leaving {:?} unread (expected [2a, 2b, 2c])\n{}",
                    buf.len(),
                    hex::encode(&buf),
                    d(&exact),
                    d(&with_trailer),
                    rest,
                    ctx(c)
                ),
            ))
        }
    }
}

fn defect_cases() -> Vec<(&'static str, &'static str, Vec<Case>)> {
    use HOp::*;
    use HType as T;
    let g = || MVal::Point(jub().g.clone());
    let r = r_jubjub().clone();
    let p = p_native().clone();
    let sc = |x: u64| MVal::Scalar(BigUint::from(x));
    vec![
        (
            "zkir.regress.F12.jubjub-constant-without-load",
            "Jubjub constants in a program without a Jubjub load (documented: constants may be used and published)",
            vec![
                Case::fixed("F12 publish Jubjub:GENERATOR, no load", vec![(Publish, vec!["Jubjub:GENERATOR"], vec![])], vec![]),
                Case::fixed(
                    "F12 affine_coordinates of a constant, no Jubjub load",
                    vec![(Load(T::Native), vec![], vec!["x"]), (AffineCoordinates, vec!["Jubjub:GENERATOR"], vec!["a", "b"]), (Add, vec!["a", "x"], vec!["s"]), (Publish, vec!["s"], vec![])],
                    vec![("x", nat(1))],
                ),
                Case::fixed("F12 publish JubjubScalar constant, no load", vec![(Publish, vec!["JubjubScalar:05"], vec![])], vec![]),
                Case::fixed(
                    "F12 control: same with a JubjubPoint load",
                    vec![(Load(T::JubjubPoint), vec![], vec!["q"]), (Publish, vec!["Jubjub:GENERATOR", "JubjubScalar:05", "q"], vec![])],
                    vec![("q", g())],
                ),
            ],
        ),
        (
            "zkir.regress.F13.into_bytes-biguint-n-beyond-limbs",
            "into_bytes(n) on BigUint, documented 'for any n'",
            vec![
                Case::fixed("F13 BigUint(8) into_bytes(20)", vec![(Load(T::BigUint(8)), vec![], vec!["x"]), (IntoBytes(20), vec!["x"], vec!["y"]), (Publish, vec!["y"], vec![])], vec![("x", big(5))]),
                Case::fixed("F13 BigUint(96) into_bytes(13)", vec![(Load(T::BigUint(96)), vec![], vec!["x"]), (IntoBytes(13), vec!["x"], vec!["y"]), (Publish, vec!["y"], vec![])], vec![("x", big(5))]),
                Case::fixed("F13 control BigUint(8) into_bytes(12)", vec![(Load(T::BigUint(8)), vec![], vec!["x"]), (IntoBytes(12), vec!["x"], vec!["y"]), (Publish, vec!["y"], vec![])], vec![("x", big(5))]),
                Case::fixed("F13 control BigUint(97) into_bytes(24)", vec![(Load(T::BigUint(97)), vec![], vec!["x"]), (IntoBytes(24), vec!["x"], vec!["y"]), (Publish, vec!["y"], vec![])], vec![("x", big(5))]),
            ],
        ),
        (
            "zkir.regress.F14.equality-on-mismatched-types",
            "is_equal / assert_(not_)equal on different or unsupported types must be rejected by both sides (programs without publish: public_inputs skips its in-circuit pass)",
            vec![
                Case::fixed("F14 is_equal(Native, Bool)", vec![(Load(T::Native), vec![], vec!["x"]), (Load(T::Bool), vec![], vec!["b"]), (IsEqual, vec!["x", "b"], vec!["o"])], vec![("x", nat(1)), ("b", MVal::Bool(true))]),
                Case::fixed("F14 is_equal(JubjubScalar, JubjubScalar)", vec![(Load(T::JubjubScalar), vec![], vec!["s", "t"]), (IsEqual, vec!["s", "t"], vec!["o"])], vec![("s", sc(1)), ("t", sc(1))]),
                Case::fixed("F14 assert_equal(JubjubScalar, JubjubScalar) equal", vec![(Load(T::JubjubScalar), vec![], vec!["s"]), (AssertEqual, vec!["s", "s"], vec![])], vec![("s", sc(1))]),
                Case::fixed(
                    "F14 assert_not_equal(Bytes(2), Bytes(3))",
                    vec![(Load(T::Bytes(2)), vec![], vec!["a"]), (Load(T::Bytes(3)), vec![], vec!["b"]), (AssertNotEqual, vec!["a", "b"], vec![])],
                    vec![("a", MVal::Bytes(vec![1, 2])), ("b", MVal::Bytes(vec![1, 2, 3]))],
                ),
                Case::fixed(
                    "F14+F27 is_equal(Native, Bool) then publish",
                    vec![(Load(T::Native), vec![], vec!["x"]), (Load(T::Bool), vec![], vec!["b"]), (IsEqual, vec!["x", "b"], vec!["o"]), (Publish, vec!["o"], vec![])],
                    vec![("x", nat(1)), ("b", MVal::Bool(true))],
                ),
                Case::fixed("F14 control is_equal(BigUint(8), BigUint(300))", vec![(Load(T::BigUint(8)), vec![], vec!["x"]), (Load(T::BigUint(300)), vec![], vec!["y"]), (IsEqual, vec!["x", "y"], vec!["o"]), (Publish, vec!["o"], vec![])], vec![("x", big(7)), ("y", big(7))]),
            ],
        ),
        (
            "zkir.regress.F15.mod_exp-modulus-0",
            "mod_exp with modulus 0: evaluation must fail with an error value, circuit unsatisfiable",
            vec![
                Case::fixed("F15 mod_exp(3) m=0", vec![(Load(T::BigUint(8)), vec![], vec!["x", "m"]), (ModExp(3), vec!["x", "m"], vec!["o"]), (Publish, vec!["o"], vec![])], vec![("x", big(3)), ("m", big(0))]),
                Case::fixed("F15 control mod_exp(3) m=1", vec![(Load(T::BigUint(8)), vec![], vec!["x", "m"]), (ModExp(3), vec!["x", "m"], vec!["o"]), (Publish, vec!["o"], vec![])], vec![("x", big(3)), ("m", big(1))]),
            ],
        ),
        (
            "zkir.regress.F17.into_bytes-native-n-above-32",
            "into_bytes(n) on Native, documented 'for any n'",
            vec![
                Case::fixed("F17 Native into_bytes(33)", vec![(Load(T::Native), vec![], vec!["x"]), (IntoBytes(33), vec!["x"], vec!["y"]), (Publish, vec!["y"], vec![])], vec![("x", nat(5))]),
                Case::fixed("F17 control Native into_bytes(32) of p-1", vec![(Load(T::Native), vec![], vec!["x"]), (IntoBytes(32), vec!["x"], vec!["y"]), (Publish, vec!["y"], vec![])], vec![("x", MVal::Native(&p - 1u32))]),
            ],
        ),
        (
            "zkir.regress.F20.mod_exp-exponent-0-1",
            "mod_exp(n) is documented as x^n % m",
            vec![
                Case::fixed("F20 mod_exp(1) x>=m", vec![(Load(T::BigUint(16)), vec![], vec!["x", "m"]), (ModExp(1), vec!["x", "m"], vec!["o"]), (Publish, vec!["o"], vec![])], vec![("x", big(1000)), ("m", big(7))]),
                Case::fixed("F20 mod_exp(0) m=1", vec![(Load(T::BigUint(16)), vec![], vec!["x", "m"]), (ModExp(0), vec!["x", "m"], vec!["o"]), (Publish, vec!["o"], vec![])], vec![("x", big(1000)), ("m", big(1))]),
                Case::fixed("F20 control mod_exp(1) x<m", vec![(Load(T::BigUint(16)), vec![], vec!["x", "m"]), (ModExp(1), vec!["x", "m"], vec!["o"]), (Publish, vec!["o"], vec![])], vec![("x", big(5)), ("m", big(7))]),
                Case::fixed("F20 control mod_exp(0) m=7", vec![(Load(T::BigUint(16)), vec![], vec!["x", "m"]), (ModExp(0), vec!["x", "m"], vec!["o"]), (Publish, vec!["o"], vec![])], vec![("x", big(5)), ("m", big(7))]),
                Case::fixed("F20 control mod_exp(3)", vec![(Load(T::BigUint(16)), vec![], vec!["x", "m"]), (ModExp(3), vec!["x", "m"], vec!["o"]), (Publish, vec!["o"], vec![])], vec![("x", big(1000)), ("m", big(7))]),
            ],
        ),
        (
            "zkir.observe.F21.load-biguint-0",
            "load of BigUint(0)",
            vec![
                Case::fixed("F21 load BigUint(0) = 0", vec![(Load(T::BigUint(0)), vec![], vec!["x"]), (Publish, vec!["x"], vec![])], vec![("x", big(0))]),
                Case::fixed("F21 load BigUint(0) = 1 (too wide)", vec![(Load(T::BigUint(0)), vec![], vec!["x"]), (Publish, vec!["x"], vec![])], vec![("x", big(1))]),
                Case::fixed("F21 BigUint(0) in arithmetic", vec![(Load(T::BigUint(0)), vec![], vec!["x"]), (Load(T::BigUint(8)), vec![], vec!["y"]), (Add, vec!["x", "y"], vec!["s"]), (Sub, vec!["s", "x"], vec!["d"]), (Publish, vec!["d"], vec![])], vec![("x", big(0)), ("y", big(9))]),
            ],
        ),
        (
            "zkir.N2.publish-scalar-from-bytes",
            "from_bytes(JubjubScalar) interprets the bytes as an integer (reduced off-circuit); publish is supported on all types",
            vec![
                Case::fixed("scalar from 32 bytes = r+5, published", vec![(Load(T::Bytes(32)), vec![], vec!["b"]), (FromBytes(T::JubjubScalar), vec!["b"], vec!["s"]), (Publish, vec!["s"], vec![])], vec![("b", le_bytes(&(&r + 5u32), 32))]),
                Case::fixed("scalar from 32 bytes = 5, published", vec![(Load(T::Bytes(32)), vec![], vec!["b"]), (FromBytes(T::JubjubScalar), vec!["b"], vec!["s"]), (Publish, vec!["s"], vec![])], vec![("b", le_bytes(&BigUint::from(5u32), 32))]),
                Case::fixed("scalar from 32 bytes = 2^255, published", vec![(Load(T::Bytes(32)), vec![], vec!["b"]), (FromBytes(T::JubjubScalar), vec!["b"], vec!["s"]), (Publish, vec!["s"], vec![])], vec![("b", le_bytes(&(BigUint::one() << 255u32), 32))]),
                Case::fixed("scalar from 40 bytes = 5, published", vec![(Load(T::Bytes(40)), vec![], vec!["b"]), (FromBytes(T::JubjubScalar), vec!["b"], vec!["s"]), (Publish, vec!["s"], vec![])], vec![("b", le_bytes(&BigUint::from(5u32), 40))]),
                Case::fixed("scalar from 70 bytes 0xff.., published", vec![(Load(T::Bytes(70)), vec![], vec!["b"]), (FromBytes(T::JubjubScalar), vec!["b"], vec!["s"]), (Publish, vec!["s"], vec![])], vec![("b", MVal::Bytes(vec![0xff; 70]))]),
                Case::fixed("from_bytes(JubjubScalar) of empty bytes, publish", vec![(Load(T::JubjubPoint), vec![], vec!["q"]), (FromBytes(T::JubjubScalar), vec![""], vec!["s"]), (Publish, vec!["s"], vec![])], vec![("q", g())]),
                Case::fixed("control: scalar from 31 bytes, published", vec![(Load(T::Bytes(31)), vec![], vec!["b"]), (FromBytes(T::JubjubScalar), vec!["b"], vec!["s"]), (Publish, vec!["s"], vec![])], vec![("b", MVal::Bytes(vec![0xff; 31]))]),
                Case::fixed(
                    "control: scalar from 32 bytes = r+5 used in mul",
                    vec![(Load(T::Bytes(32)), vec![], vec!["b"]), (Load(T::JubjubPoint), vec![], vec!["q"]), (FromBytes(T::JubjubScalar), vec!["b"], vec!["s"]), (Mul, vec!["s", "q"], vec!["t"]), (Publish, vec!["t"], vec![])],
                    vec![("b", le_bytes(&(&r + 5u32), 32)), ("q", g())],
                ),
                Case::fixed(
                    "control: scalar from 70 bytes 0xff.. used in inner_product",
                    vec![(Load(T::Bytes(70)), vec![], vec!["b"]), (Load(T::JubjubPoint), vec![], vec!["q"]), (FromBytes(T::JubjubScalar), vec!["b"], vec!["s"]), (InnerProduct, vec!["s", "JubjubScalar:02", "q", "Jubjub:GENERATOR"], vec!["t"]), (Publish, vec!["t"], vec![])],
                    vec![("b", MVal::Bytes(vec![0xff; 70])), ("q", g())],
                ),
                Case::fixed("control: native from 32 bytes = p+3", vec![(Load(T::Bytes(32)), vec![], vec!["b"]), (FromBytes(T::Native), vec!["b"], vec!["x"]), (Publish, vec!["x"], vec![])], vec![("b", le_bytes(&(&p + 3u32), 32))]),
                Case::fixed("control: native from 70 bytes 0xff..", vec![(Load(T::Bytes(70)), vec![], vec!["b"]), (FromBytes(T::Native), vec!["b"], vec!["x"]), (Publish, vec!["x"], vec![])], vec![("b", MVal::Bytes(vec![0xff; 70]))]),
            ],
        ),
        (
            "zkir.regress.bytes0",
            "byte arrays of length 0 (Bytes(n) 'array of bytes of the given length'; load supported on all IR types)",
            vec![
                Case::fixed("load Bytes(0), publish", vec![(Load(T::Bytes(0)), vec![], vec!["b"]), (Load(T::Bool), vec![], vec!["c"]), (Publish, vec!["b", "c"], vec![])], vec![("b", MVal::Bytes(vec![])), ("c", MVal::Bool(true))]),
                Case::fixed("is_equal of two empty-bytes constants", vec![(IsEqual, vec!["", ""], vec!["o"]), (Publish, vec!["o"], vec![])], vec![]),
                Case::fixed("assert_equal of two empty-bytes constants", vec![(Load(T::Bool), vec![], vec!["c"]), (AssertEqual, vec!["", ""], vec![]), (Publish, vec!["c"], vec![])], vec![("c", MVal::Bool(true))]),
                Case::fixed("sha256 of the empty-bytes constant", vec![(Sha256, vec![""], vec!["h"]), (Publish, vec!["h"], vec![])], vec![]),
                Case::fixed("Native 0 into_bytes(0), sha256", vec![(Load(T::Native), vec![], vec!["x"]), (IntoBytes(0), vec!["x"], vec!["y"]), (Sha256, vec!["y"], vec!["h"]), (Publish, vec!["h"], vec![])], vec![("x", nat(0))]),
                Case::fixed("Native 1 into_bytes(0) (range)", vec![(Load(T::Native), vec![], vec!["x"]), (IntoBytes(0), vec!["x"], vec!["y"]), (Publish, vec!["x"], vec![])], vec![("x", nat(1))]),
                Case::fixed("BigUint 0 into_bytes(0)", vec![(Load(T::BigUint(8)), vec![], vec!["x"]), (IntoBytes(0), vec!["x"], vec!["y"]), (Publish, vec!["x"], vec![])], vec![("x", big(0))]),
                Case::fixed("from_bytes(BigUint(0)) of empty bytes, publish", vec![(Load(T::Bool), vec![], vec!["c"]), (FromBytes(T::BigUint(0)), vec![""], vec!["z"]), (Publish, vec!["z", "c"], vec![])], vec![("c", MVal::Bool(true))]),
                Case::fixed("from_bytes(BigUint(8)) of empty bytes, add", vec![(Load(T::BigUint(8)), vec![], vec!["x"]), (FromBytes(T::BigUint(8)), vec![""], vec!["z"]), (Add, vec!["z", "x"], vec!["s"]), (Publish, vec!["s"], vec![])], vec![("x", big(3))]),
                Case::fixed("from_bytes(BigUint(8)) of empty bytes, mul by itself", vec![(Load(T::Bool), vec![], vec!["c"]), (FromBytes(T::BigUint(8)), vec![""], vec!["z"]), (Mul, vec!["z", "z"], vec!["s"]), (Publish, vec!["c"], vec![])], vec![("c", MVal::Bool(true))]),
                Case::fixed("from_bytes(JubjubScalar) of empty bytes, mul", vec![(Load(T::JubjubPoint), vec![], vec!["q"]), (FromBytes(T::JubjubScalar), vec![""], vec!["s"]), (Mul, vec!["s", "q"], vec!["t"]), (Publish, vec!["t"], vec![])], vec![("q", g())]),
                Case::fixed("from_bytes(Native) of empty bytes", vec![(FromBytes(T::Native), vec![""], vec!["x"]), (Publish, vec!["x"], vec![])], vec![]),
            ],
        ),
        (
            "zkir.regress.constants",
            "constant syntax: literals outside the documented syntax are not constants (error value, no panic); documented ones are accepted",
            vec![
                Case::fixed("Jubjub constant of order 2 (not in the subgroup)", vec![(Load(T::JubjubPoint), vec![], vec!["q"]), (Publish, vec!["Jubjub:00000000fffffffffe5bfeff02a4bd5305d8a10908d83933487d9d2953a7ed73", "q"], vec![])], vec![("q", g())]),
                Case::fixed("Native constant = p", vec![(Publish, vec!["Native:73eda753299d7d483339d80809a1d80553bda402fffe5bfeffffffff00000001"], vec![])], vec![]),
                Case::fixed("JubjubScalar constant = r", vec![(Load(T::JubjubPoint), vec![], vec!["q"]), (Publish, vec!["JubjubScalar:0e7db4ea6533afa906673b0101343b00a6682093ccc81082d0970e5ed6f72cb7", "q"], vec![])], vec![("q", g())]),
                Case::fixed(
                    "control: every documented syntax",
                    vec![(Load(T::JubjubPoint), vec![], vec!["q"]), (Publish, vec!["0", "1", "0xDEADbeef", "00", "Native:-0x11", "Native:FF00", "BigUint:0x1234", "BigUint:abc", "Jubjub:GENERATOR", "Jubjub:IDENTITY", "JubjubScalar:0407", "q"], vec![])],
                    vec![("q", g())],
                ),
                Case::fixed("control: Native:-0 and p-1", vec![(Publish, vec!["Native:-00", "Native:73eda753299d7d483339d80809a1d80553bda402fffe5bfeffffffff00000000"], vec![])], vec![]),
            ],
        ),
    ]
}

// ---------------------------------------------------------------------------
// verifying-key bytes of reloaded relations

fn params(k: u32) -> std::sync::Arc<midnight_proofs::poly::kzg::params::ParamsKZG<midnight_curves::Bls12>> {
    use rand_chacha::rand_core::SeedableRng;
    use std::sync::{Arc, Mutex, OnceLock};
    type P = midnight_proofs::poly::kzg::params::ParamsKZG<midnight_curves::Bls12>;
    static CACHE: OnceLock<Mutex<HashMap<u32, Arc<P>>>> = OnceLock::new();
    let m = CACHE.get_or_init(|| Mutex::new(HashMap::new()));
    let mut g = m.lock().unwrap();
    g.entry(k).or_insert_with(|| Arc::new(P::unsafe_setup(k, rand_chacha::ChaCha20Rng::seed_from_u64(0xC18)))).clone()
}

fn check_vk(c: &Case) -> CaseResult {
    let it = interpret(&c.program, &c.witness, poseidon_ref);
    if !it.ok() {
        return Ok(Verdict::trivial("skipped:evaluation-fails"));
    }
    let json = leak(c.program.render());
    let Call::Ok(rel) = call(|| ZkirRelation::read(json)) else { return Err(Failure::new("zkir:read-rejects-well-formed", ctx(c))) };
    let w = ir_witness(&c.witness).map_err(|e| Failure::new("harness:witness", e))?;
    let pi = match call(|| rel.public_inputs(w.clone())) {
        Call::Ok(p) => p,
        Call::Err(e) => return Err(Failure::new("zkir:offcircuit-rejects-valid", format!("{e}\n{}", ctx(c)))),
        Call::Panic(p) => return Err(panic_fail("public_inputs", &p, c)),
    };
    let (rj, rb) = roundtrips(c, json, &rel, &w, &pi)?;
    let k = match vpcore::catch(|| MidnightCircuit::from_relation(&rel).min_k()) {
        Ok(k) => k,
        Err(p) => return Err(panic_fail("from_relation.min_k", &p, c)),
    };
    if k > 12 {
        return Ok(Verdict::trivial("skipped:k>12"));
    }
    let srs = params(k);
    let mut keys = vec![];
    for (name, r) in [("original", &rel), ("json", &rj), ("bincode", &rb)] {
        let vk = match vpcore::catch(|| midnight_zk_stdlib::setup_vk(&srs, r)) {
            Ok(vk) => vk,
            Err(p) => return Err(panic_fail(&format!("setup_vk[{name}]"), &p, c)),
        };
        let mut buf = vec![];
        vk.write(&mut buf, midnight_proofs::utils::SerdeFormat::RawBytes).map_err(|e| Failure::new("zkir:vk-write", e.to_string()))?;
        keys.push((name, buf));
    }
    for (name, b) in &keys[1..] {
        if b != &keys[0].1 {
            return Err(Failure::new(format!("zkir:roundtrip:vk-differs:{name}"), format!("vk bytes of the {name}-reloaded relation differ ({} vs {} bytes)\n{}", b.len(), keys[0].1.len(), ctx(c))));
        }
    }
    let nt = c.program.steps.len() >= 3 && c.program.steps.iter().any(|s| s.op == HOp::Publish);
    Ok(Verdict::of(nt, "vk-identical").with(format!("k:{k}")))
}

// ---------------------------------------------------------------------------

fn sample(strategy: &CaseStrategy, n: usize, seed: u64) -> Vec<Case> {
    use proptest::strategy::ValueTree;
    use proptest::test_runner::{Config, RngAlgorithm, TestRng, TestRunner};
    let mut sb = [0u8; 32];
    let mut sm = SplitMix(seed);
    sb.copy_from_slice(&sm.bytes(32));
    let mut runner = TestRunner::new_with_rng(Config::default(), TestRng::from_seed(RngAlgorithm::ChaCha, &sb));
    (0..n).map(|_| strategy.new_tree(&mut runner).expect("strategy").current()).collect()
}

fn main() {
    vpcore::main("C18", "exploration", (1500, 14400), |p| {
        p.assume("the off-circuit Poseidon of midnight-circuits (PoseidonChip as HashCPU) is the reference for the poseidon operation (checked against a textbook implementation by C07)");
        p.assume("the sha2 crate, num-bigint and the affine twisted-Edwards model of vp_alg (a = -1, d = -10240/10241) are the references for sha256/sha512, integers and Jubjub");
        p.assume("MockProver::verify is the judge of satisfiability (it ignores additive-selector gates: F2)");
        let _ = jub(); // harness self-checks of the curve model
        let nt_rule = "program has >= 3 operations, >= 2 distinct types and a publish";

        let cfg = GenCfg::default();
        let strat = CaseStrategy { cfg: cfg.clone(), poseidon: poseidon_ref, post: no_post };
        let n = p.tier.pick(320, 5000);
        {
            let s = strat.clone();
            p.sub_cfg("zkir.agree", nt_rule, n, 16, 100, move || s.clone().boxed(), |c| check_case(c, Depth::Full));
        }

        // ill-formed programs and witnesses (enumerated so that one panic signature does not end the exploration)
        let ill = CaseStrategy { cfg: GenCfg { max_len: 10, err_rate: 0, ..cfg.clone() }, poseidon: poseidon_ref, post: mutate_post };
        let items = sample(&ill, p.tier.pick(320, 4000), vpcore::derive_seed(&["C18", "zkir.illformed"], p.seed));
        p.enumerate(
            "zkir.illformed",
            "a well-typed generated program with one mutation (wrong arity, duplicate output, missing name, ill-typed operand, unsupported type, missing witness, wrong witness type, bad constant); non-trivial if the documented semantics reject it",
            items,
            16,
            false,
            |c| {
                let it = interpret(&c.program, &c.witness, poseidon_ref);
                let r = check_case(c, Depth::NoCircuit)?;
                let mut v = r.with(c.intent.clone());
                v.nontrivial = it.static_error.is_some();
                Ok(v)
            },
        );

        // range boundary of into_bytes: every bit bound (aligned or not) x every n around bound/8 x
        // values just inside / outside 2^(8n); bounds reached by a load or by an addition
        {
            use HOp::*;
            let mut cases = vec![];
            let one = BigUint::from(1u32);
            let mut widths: Vec<u32> = (2..=p.tier.pick(40, 130)).collect();
            widths.extend([63, 65, 95, 97, 127, 129, 255, 257, 300]);
            widths.sort();
            widths.dedup();
            for w in widths {
                let lo = (w / 8) as usize;
                let hi = w.div_ceil(8) as usize;
                let mut ns = vec![lo.saturating_sub(1), lo, hi, hi + 1];
                ns.retain(|n| *n >= 1);
                ns.dedup();
                for n in ns {
                    let mut vals = vec![(&one << w) - &one];
                    if 8 * n as u32 <= w {
                        vals.push((&one << (8 * n)) - &one);
                        if 8 * (n as u32) < w {
                            vals.push(&one << (8 * n));
                            vals.push(&one << (w - 1));
                        }
                    }
                    vals.dedup();
                    for v in vals {
                        cases.push(Case::fixed(
                            &format!("boundary: BigUint({w}) = {v:#x}, into_bytes({n})"),
                            vec![(Load(HType::BigUint(w)), vec![], vec!["x"]), (IntoBytes(n), vec!["x"], vec!["y"]), (Publish, vec!["y"], vec![])],
                            vec![("x", MVal::Big(v))],
                        ));
                    }
                }
            }
            for w in [8u32, 16, 24, 64, 96] {
                let n = (w / 8) as usize;
                let m = (&one << w) - &one;
                for (a, b) in [(m.clone(), m.clone()), (m.clone(), one.clone()), (m.clone(), BigUint::from(0u32)), (&m >> 1u32, &m >> 1u32)] {
                    for n in [n, n + 1] {
                        cases.push(Case::fixed(
                            &format!("boundary: BigUint({w}) {a:#x} + {b:#x} (bound {} bits), into_bytes({n})", w + 1),
                            vec![
                                (Load(HType::BigUint(w)), vec![], vec!["a", "b"]),
                                (Add, vec!["a", "b"], vec!["s"]),
                                (IntoBytes(n), vec!["s"], vec!["y"]),
                                (Publish, vec!["y"], vec![]),
                            ],
                            vec![("a", MVal::Big(a.clone())), ("b", MVal::Big(b.clone()))],
                        ));
                    }
                }
            }
            for n in [1usize, 2, 15, 16, 30, 31] {
                for v in [(&one << (8 * n)) - &one, &one << (8 * n), p_native() - &one] {
                    cases.push(Case::fixed(
                        &format!("boundary: Native {v:#x}, into_bytes({n})"),
                        vec![(Load(HType::Native), vec![], vec!["x"]), (IntoBytes(n), vec!["x"], vec!["y"]), (Publish, vec!["y"], vec![])],
                        vec![("x", MVal::Native(v))],
                    ));
                }
            }
            p.enumerate(
                "zkir.into_bytes.boundary",
                "load (or sum of two loads) of every bit bound, into_bytes(n) for n around bound/8, values just inside and just outside 2^(8n): evaluator and circuit agree (bytes exposed, or both refuse); non-trivial if the value does not fit n bytes (range error expected) or sits exactly on the boundary",
                cases,
                16,
                false,
                |c| {
                    let it = interpret(&c.program, &c.witness, poseidon_ref);
                    let mut v = check_case(c, Depth::Full)?;
                    v.nontrivial = true;
                    v.classes.push(if it.value_error.is_some() { "expects:range-error".into() } else { "expects:bytes".into() });
                    Ok(v)
                },
            );
        }

        // byte arrays that are equal as integers modulo the native modulus (or modulo 2^k) but
        // differ as arrays: equality tests must tell them apart
        {
            use HOp::*;
            let pm = p_native().clone();
            let one = BigUint::from(1u32);
            let mut cases = vec![];
            let put = |buf: &mut Vec<u8>, at: usize, width: usize, v: &BigUint, be: bool| {
                let mut b = v.to_bytes_le();
                b.resize(width, 0);
                if be {
                    b.reverse();
                }
                buf[at..at + width].copy_from_slice(&b);
            };
            for len in [31usize, 32, 33, 40, 64, 70] {
                for (at, width) in [(0usize, 32usize), (len.saturating_sub(32), 32), (0, 31), (0, 16), (8, 32)] {
                    if at + width > len {
                        continue;
                    }
                    for be in [false, true] {
                        let top = &one << (8 * width);
                        // pairs (w, w') congruent modulo p, modulo 2^(8*width - 1), or adjacent
                        let mut pairs: Vec<(BigUint, BigUint, &str)> = vec![];
                        if width == 32 {
                            pairs.push((BigUint::from(42u32), &pm + 42u32, "congruent-mod-p"));
                            pairs.push((BigUint::from(0u32), pm.clone(), "congruent-mod-p"));
                            pairs.push((&top - &pm - 1u32, &top - 1u32, "congruent-mod-p"));
                        }
                        pairs.push((BigUint::from(7u32), (&one << (8 * width - 1)) + 7u32, "top-bit"));
                        pairs.push((BigUint::from(255u32), BigUint::from(256u32), "adjacent"));
                        for (w1, w2, kind) in pairs {
                            let mut a = vec![0x5au8; len];
                            let mut b = a.clone();
                            put(&mut a, at, width, &w1, be);
                            put(&mut b, at, width, &w2, be);
                            for op in [IsEqual, AssertNotEqual, AssertEqual] {
                                let mut steps = vec![(Load(HType::Bytes(len)), vec![], vec!["a", "b"])];
                                match op {
                                    IsEqual => {
                                        steps.push((IsEqual, vec!["a", "b"], vec!["e"]));
                                        steps.push((Publish, vec!["e"], vec![]));
                                    }
                                    o => steps.push((o, vec!["a", "b"], vec![])),
                                }
                                cases.push(Case::fixed(
                                    &format!("bytes({len}) {kind} window [{at}..{}) {} : {}", at + width, if be { "BE" } else { "LE" }, op.name()),
                                    steps,
                                    vec![("a", MVal::Bytes(a.clone())), ("b", MVal::Bytes(b.clone()))],
                                ));
                            }
                        }
                    }
                }
            }
            p.enumerate(
                "zkir.bytes.congruent",
                "two byte arrays of length 31..70 that differ only inside a 16/31/32-byte window whose little- or big-endian integers are congruent modulo the native modulus, differ in the top bit, or are adjacent; is_equal + publish, assert_not_equal, assert_equal: evaluator and circuit agree; every case non-trivial",
                cases,
                16,
                false,
                |c| {
                    let mut v = check_case(c, Depth::Full)?;
                    v.nontrivial = true;
                    Ok(v.with(c.intent.split(" window").next().unwrap_or("").split(") ").nth(1).unwrap_or("").to_string()))
                },
            );
        }

        let small = CaseStrategy { cfg: GenCfg { max_len: 7, err_rate: 0, ..cfg.clone() }, poseidon: poseidon_ref, post: no_post };
        {
            let s = small.clone();
            p.sub_cfg("zkir.roundtrip.vk", "program with >= 3 operations and a publish whose reloaded relations are keyed (k <= 12)", p.tier.pick(8, 64), 8, 8, move || s.clone().boxed(), check_vk);
        }

        {
            use HOp::*;
            let cases = vec![
                Case::fixed("read_relation: one load", vec![(Load(HType::Bool), vec![], vec!["c"])], vec![("c", MVal::Bool(true))]),
                Case::fixed(
                    "read_relation: load, add, publish",
                    vec![(Load(HType::Native), vec![], vec!["x"]), (Add, vec!["x", "Native:01"], vec!["y"]), (Publish, vec!["y"], vec![])],
                    vec![("x", nat(1))],
                ),
            ];
            p.enumerate("zkir.regress.read_relation", "Relation::read_relation o write_relation is the identity and consumes exactly the bytes written", cases, 2, false, check_read_relation);
        }
        for (name, rule, cases) in defect_cases() {
            if name.starts_with("zkir.N2.") {
                p.enumerate(name, rule, cases, 1, false, check_n2);
            } else if name.starts_with("zkir.observe.") {
                p.enumerate(name, rule, cases, 4, false, observe);
            } else {
                p.enumerate(name, rule, cases, 4, false, check_defect);
            }
        }
    });
}
