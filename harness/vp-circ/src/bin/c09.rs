//! C09 — circuit structure never depends on witness or instance values.
//!
//! Every op of the C04 / C05 / C06 / C07 catalogues is
//! synthesised with several in-domain witnesses chosen to steer the
//! off-circuit helpers' data-dependent branches differently; required:
//! (b) the MockProver tables that constitute the fixed part — fixed columns,
//!     selectors, the copy-constraint permutation, the number of public inputs,
//!     and the k computed by the cost model — are identical for all witnesses;
//! (a) the verifying key generated WITHOUT a witness is byte-identical to the
//!     one generated with a witness present (sampled ops in quick, all in
//!     thorough).

use num_bigint::BigUint;
use serde::{Deserialize, Serialize};
use vp_alg::Int;
use vp_circ::{
    e2::{self, Op, OpVisitor},
    ops_ecc, ops_foreign, ops_hash, ops_native,
};
use vpcore::{CaseResult, Failure, Verdict};

#[derive(Clone, Debug, Serialize, Deserialize)]
struct Item {
    catalogue: String,
    op: String,
    inputs: Vec<Vec<Int>>,
    with_vk: bool,
}

struct Collect {
    catalogue: &'static str,
    items: Vec<Item>,
    vk_every: u64,
}

impl OpVisitor for Collect {
    fn visit<O: Op>(&mut self, op: &O, inputs: &[Vec<BigUint>]) {
        let name = op.name();
        self.items.push(Item {
            catalogue: self.catalogue.into(),
            with_vk: vpcore::digest(&name) % self.vk_every == 0,
            op: name,
            inputs: inputs.iter().map(|x| x.iter().map(|v| Int::of("", v)).collect()).collect(),
        });
    }
}

impl ops_hash::ScratchVisitor for Collect {
    fn visit<O: ops_hash::ScratchOp>(&mut self, op: &O, inputs: &[Vec<BigUint>]) {
        let name = op.name();
        self.items.push(Item {
            catalogue: "hash-scratch".into(),
            with_vk: vpcore::digest(&name) % self.vk_every == 0,
            op: name,
            inputs: inputs.iter().map(|x| x.iter().map(|v| Int::of("", v)).collect()).collect(),
        });
    }
}

struct Runner<'a> {
    item: &'a Item,
    result: Option<CaseResult>,
}

fn judge(item: &Item, structures: Vec<Result<e2::Structure, String>>, vks: Option<(Result<Vec<u8>, String>, Result<Vec<u8>, String>)>) -> CaseResult {
    let name = &item.op;
    let mut first: Option<e2::Structure> = None;
    for (i, s) in structures.into_iter().enumerate() {
        let s = s.map_err(|e| Failure::new(format!("{name}:cannot-synthesise-visited-input"), format!("input #{i} {:?}: {e}", item.inputs[i])))?;
        match &first {
            None => first = Some(s),
            Some(f) => {
                let what = if f.k != s.k {
                    "k"
                } else if f.n_public != s.n_public {
                    "number-of-public-inputs"
                } else if f.selectors != s.selectors {
                    "selectors"
                } else if f.fixed != s.fixed {
                    "fixed-columns"
                } else if f.permutation != s.permutation {
                    "copy-constraints"
                } else {
                    ""
                };
                if !what.is_empty() {
                    return Err(Failure::new(
                        format!("{name}:structure-depends-on-witness:{what}"),
                        format!("inputs #0 {:?} and #{i} {:?} give different {what}: {f:?} vs {s:?}", item.inputs[0], item.inputs[i]),
                    ));
                }
            }
        }
    }
    if let Some((without, with)) = vks {
        let without = without.map_err(|e| Failure::new(format!("{name}:keygen-without-witness-fails"), e))?;
        let with = with.map_err(|e| Failure::new(format!("{name}:keygen-with-witness-fails"), e))?;
        if without != with {
            return Err(Failure::new(format!("{name}:vk-depends-on-witness"), format!("vk bytes generated with witness {:?} differ from those generated without", item.inputs[0])));
        }
    }
    Ok(Verdict::of(item.inputs.len() >= 2, item.catalogue.clone()).with(if item.with_vk { "structure+vk" } else { "structure" }))
}

impl OpVisitor for Runner<'_> {
    fn visit<O: Op>(&mut self, op: &O, _inputs: &[Vec<BigUint>]) {
        if op.name() != self.item.op || self.result.is_some() {
            return;
        }
        let xs: Vec<Vec<BigUint>> = self.item.inputs.iter().map(|x| x.iter().map(|v| v.big()).collect()).collect();
        let structures: Vec<_> = xs.iter().map(|x| e2::structure_of(op, x)).collect();
        let vks = if self.item.with_vk {
            structures[0].as_ref().ok().map(|s| (e2::vk_bytes(op, None, s.k), e2::vk_bytes(op, Some(&xs[0]), s.k)))
        } else {
            None
        };
        self.result = Some(judge(self.item, structures, vks));
    }
}

impl ops_hash::ScratchVisitor for Runner<'_> {
    fn visit<O: ops_hash::ScratchOp>(&mut self, op: &O, _inputs: &[Vec<BigUint>]) {
        if op.name() != self.item.op || self.result.is_some() {
            return;
        }
        let xs: Vec<Vec<BigUint>> = self.item.inputs.iter().map(|x| x.iter().map(|v| v.big()).collect()).collect();
        let structures: Vec<_> = xs.iter().map(|x| ops_hash::scratch_structure_of(op, x)).collect();
        let vks = if self.item.with_vk {
            structures[0].as_ref().ok().map(|s| (ops_hash::scratch_vk_bytes(op, None, s.k), ops_hash::scratch_vk_bytes(op, Some(&xs[0]), s.k)))
        } else {
            None
        };
        self.result = Some(judge(self.item, structures, vks));
    }
}

// ---------------------------------------------------------------------------
// ZKIR programs: one compiled program, several witnesses

mod zk {
    use std::collections::HashMap;

    use group::GroupEncoding;
    use midnight_circuits::{hash::poseidon::PoseidonChip, instructions::hash::HashCPU};
    use midnight_curves::{Fr as JFr, JubjubSubgroup};
    use midnight_zk_stdlib::Relation;
    use midnight_zkir::{IrValue, ZkirRelation};
    use num_bigint::BigUint;
    use num_traits::{One, Zero};
    use serde::{Deserialize, Serialize};
    use vp_circ::{e2, zkir_gen::*};
    use vpcore::{CaseResult, Failure, SplitMix, Verdict};

    type F = midnight_curves::Fq;

    fn poseidon_ref(xs: &[BigUint]) -> BigUint {
        let v: Vec<F> = xs.iter().map(vp_alg::from_big::<F>).collect();
        vp_alg::to_big(&<PoseidonChip<F> as HashCPU<F, F>>::hash(&v))
    }

    fn to_ir(v: &MVal) -> Option<IrValue> {
        Some(match v {
            MVal::Bool(b) => IrValue::Bool(*b),
            MVal::Bytes(b) => IrValue::Bytes(b.clone()),
            MVal::Native(x) => IrValue::Native(vp_alg::from_big_checked::<F>(x)?),
            MVal::Big(x) => IrValue::BigUint(x.clone()),
            MVal::Point(p) => {
                let b: [u8; 32] = compress(p).try_into().ok()?;
                IrValue::JubjubPoint(Option::from(JubjubSubgroup::from_bytes(&b))?)
            }
            MVal::Scalar(x) => IrValue::JubjubScalar(vp_alg::from_big_checked::<JFr>(x)?),
        })
    }

    #[derive(Clone, Debug, Serialize, Deserialize)]
    pub struct ZCase {
        pub case: Case,
        pub seed: u64,
    }

    pub fn strategy() -> CaseStrategy {
        CaseStrategy { cfg: GenCfg { max_len: 14, err_rate: 0, ..GenCfg::default() }, poseidon: poseidon_ref, post: no_post }
    }

    /// A value of the type in one of the classes {minimal, maximal, random}.
    fn value(t: &HType, class: u64, rng: &mut SplitMix) -> MVal {
        let rnd = |rng: &mut SplitMix, m: &BigUint| BigUint::from_bytes_le(&rng.bytes((m.bits() as usize).div_ceil(8) + 8)) % m;
        match t {
            HType::Bool => MVal::Bool(match class { 0 => false, 1 => true, _ => rng.next_u64() & 1 == 1 }),
            HType::Bytes(n) => MVal::Bytes(match class { 0 => vec![0; *n], 1 => vec![0xff; *n], _ => rng.bytes(*n) }),
            HType::Native => MVal::Native(match class { 0 => BigUint::zero(), 1 => p_native() - 1u32, _ => rnd(rng, p_native()) }),
            HType::BigUint(n) => {
                let m = BigUint::one() << *n;
                MVal::Big(match class { 0 => BigUint::zero(), 1 => &m - 1u32, _ => rnd(rng, &m) })
            }
            HType::JubjubPoint => MVal::Point(match class { 0 => pid(), 1 => jub().g.clone(), _ => pmul(&jub().g, &rnd(rng, r_jubjub())) }),
            HType::JubjubScalar => MVal::Scalar(match class { 0 => BigUint::zero(), 1 => r_jubjub() - 1u32, _ => rnd(rng, r_jubjub()) }),
        }
    }

    /// Witnesses for the program other than the generated one on which evaluation succeeds.
    fn alternatives(c: &Case, seed: u64, want: usize) -> Vec<Witness> {
        let loads: Vec<(String, HType)> = c.program.steps.iter().filter_map(|s| if let HOp::Load(t) = s.op { Some(s.outputs.iter().map(move |o| (o.clone(), t))) } else { None }).flatten().collect();
        let mut rng = SplitMix(seed);
        let mut out: Vec<Witness> = vec![];
        for attempt in 0..24u64 {
            if out.len() >= want {
                break;
            }
            let mut w = c.witness.clone();
            match attempt {
                // everything minimal / maximal / random
                0 | 1 | 2 => {
                    for (name, t) in &loads {
                        w.insert(name.clone(), value(t, attempt, &mut rng).to_h());
                    }
                }
                // the generated witness with one (then two) loaded values replaced
                _ => {
                    if loads.is_empty() {
                        break;
                    }
                    for _ in 0..1 + attempt % 2 {
                        let (name, t) = &loads[rng.below(loads.len() as u64) as usize];
                        let cls = rng.below(4);
                        w.insert(name.clone(), value(t, cls, &mut rng).to_h());
                    }
                }
            }
            if w == c.witness || out.contains(&w) {
                continue;
            }
            let it = interpret(&c.program, &w, poseidon_ref);
            if it.ok() {
                out.push(w);
            }
        }
        out
    }

    pub fn run(z: &ZCase) -> CaseResult {
        let c = &z.case;
        let it = interpret(&c.program, &c.witness, poseidon_ref);
        if !it.ok() {
            return Ok(Verdict::trivial("generated-evaluation-fails"));
        }
        let json: &'static str = Box::leak(c.program.render().into_boxed_str());
        let rel = match vpcore::catch(|| ZkirRelation::read(json)) {
            Ok(Ok(r)) => r,
            // agreement of read with the documented semantics is C18's business
            _ => return Ok(Verdict::trivial("program-not-read")),
        };
        let mut ws = vec![c.witness.clone()];
        ws.extend(alternatives(c, z.seed, 3));
        let mut first: Option<e2::Structure> = None;
        let mut used = 0;
        for (i, w) in ws.iter().enumerate() {
            let mut m: HashMap<&'static str, IrValue> = HashMap::new();
            let mut ok = true;
            for (k, h) in w {
                match h.to_m().and_then(|v| to_ir(&v)) {
                    Some(v) => {
                        m.insert(Box::leak(k.clone().into_boxed_str()), v);
                    }
                    None => ok = false,
                }
            }
            if !ok {
                continue;
            }
            let Ok(Ok(pi)) = vpcore::catch(|| rel.public_inputs(m.clone())) else { continue };
            let Ok(Ok(inst)) = vpcore::catch(|| ZkirRelation::format_instance(&pi)) else { continue };
            let s = match e2::structure_of_relation(&rel, pi, m, &inst, c.max_bit_len) {
                Ok(s) => s,
                Err(e) if i == 0 => return Ok(Verdict::trivial("cannot-synthesise").with(e.chars().take(40).collect::<String>())),
                Err(e) => return Err(Failure::new("zkir:synthesis-depends-on-witness", format!("witness #{i} {w:?} cannot be synthesised ({e}) although evaluation succeeds and the generated witness can; program {}", c.program.render()))),
            };
            used += 1;
            match &first {
                None => first = Some(s),
                Some(f) => {
                    let what = if f.k != s.k {
                        "k"
                    } else if f.n_public != s.n_public {
                        "number-of-public-inputs"
                    } else if f.selectors != s.selectors {
                        "selectors"
                    } else if f.fixed != s.fixed {
                        "fixed-columns"
                    } else if f.permutation != s.permutation {
                        "copy-constraints"
                    } else {
                        ""
                    };
                    if !what.is_empty() {
                        let ops: Vec<_> = c.ops_used().into_iter().collect();
                        return Err(Failure::new(
                            format!("zkir:structure-depends-on-witness:{what}:{}", ops.join("+")),
                            format!("witnesses {:?} and {w:?} give different {what} ({f:?} vs {s:?}) for program {}", ws[0], c.program.render()),
                        ));
                    }
                }
            }
        }
        let mut v = Verdict::of(used >= 2, format!("witnesses:{used}"));
        for o in c.ops_used() {
            v = v.with(format!("op:{o}"));
        }
        Ok(v)
    }
}

// ---------------------------------------------------------------------------
// parsing gadgets of the standard library (shipped Jwt automaton, base64 decoding)

mod parsing_ops {
    use midnight_circuits::{instructions::*, parsing::StdLibParser, types::AssignedByte};
    use midnight_proofs::{
        circuit::{Layouter, Value},
        plonk::Error,
    };
    use midnight_zk_stdlib::{ZkStdLib, ZkStdLibArch};
    use num_bigint::BigUint;
    use vp_circ::e2::{Op, OpVisitor, F};

    #[derive(Clone)]
    pub enum PK {
        Jwt { len: usize },
        B64 { url: bool, padded: bool, len: usize },
    }
    #[derive(Clone)]
    pub struct ParseOp(pub PK);

    impl Op for ParseOp {
        fn name(&self) -> String {
            match &self.0 {
                PK::Jwt { len } => format!("automaton.parse(Jwt,len={len})"),
                PK::B64 { url, padded, len } => format!("decode_base64{}(len={len},padded={padded})", if *url { "url" } else { "" }),
            }
        }
        fn arch(&self) -> ZkStdLibArch {
            match &self.0 {
                PK::Jwt { .. } => ZkStdLibArch { automaton: true, ..Default::default() },
                PK::B64 { .. } => ZkStdLibArch { base64: true, ..Default::default() },
            }
        }
        fn circuit<L: Layouter<F>>(&self, std: &ZkStdLib, l: &mut L, x: Value<Vec<BigUint>>) -> Result<(), Error> {
            let len = match &self.0 {
                PK::Jwt { len } | PK::B64 { len, .. } => *len,
            };
            let vals: Vec<Value<u8>> = (0..len).map(|i| x.as_ref().map(|x| u8::try_from(&x[i]).unwrap())).collect();
            let input: Vec<AssignedByte<F>> = std.assign_many(l, &vals)?;
            match &self.0 {
                PK::Jwt { .. } => {
                    let _ = std.automaton().parse(l, &StdLibParser::Jwt, &input)?;
                }
                PK::B64 { url, padded, .. } => {
                    let _ = if *url { std.base64().decode_base64url(l, &input, *padded)? } else { std.base64().decode_base64(l, &input, *padded)? };
                }
            }
            Ok(())
        }
        // nothing is exposed: only the structure of the synthesis is of interest here
        fn reference(&self, _x: &[BigUint]) -> Option<Vec<F>> {
            Some(vec![])
        }
        fn n_input_scalars(&self) -> usize {
            0
        }
    }

    fn bytes(s: &[u8]) -> Vec<BigUint> {
        s.iter().map(|b| BigUint::from(*b)).collect()
    }

    pub fn visit_ops<V: OpVisitor>(v: &mut V, _quick: bool, _seed: u64) {
        // accepted words of one length: the sample of the in-repo test with other field contents
        let base = vp_circ::MINIMAL_JWT.as_bytes().to_vec();
        let swap = |from: &str, to: &str| -> Vec<u8> { String::from_utf8(base.clone()).unwrap().replace(&format!("\"{from}\""), &format!("\"{to}\"")).into_bytes() };
        let words = vec![base.clone(), swap("fn", "zz"), swap("bd", "00"), swap("gn", "Ab")];
        let words: Vec<Vec<BigUint>> = words.into_iter().filter(|w| w.len() == base.len()).map(|w| bytes(&w)).collect();
        v.visit(&ParseOp(PK::Jwt { len: base.len() }), &words);
        for (url, padded, words) in [
            (false, true, vec![&b"TWFu"[..], b"AAAA", b"TWE=", b"TQ==", b"////"]),
            (true, true, vec![&b"TWFu"[..], b"____", b"-A==", b"TWE="]),
            (false, false, vec![&b"TWFu"[..], b"AAAA", b"++++"]),
            (false, true, vec![&b"TWFuTWFuTWFu"[..], b"AAAAAAAAAAAA", b"TWFuTWFuTQ==", b"TWFuTWFuTWE="]),
            (true, false, vec![&b"TWFuTWFu"[..], b"--__--__"]),
        ] {
            let len = words[0].len();
            let ws: Vec<Vec<BigUint>> = words.iter().map(|w| bytes(w)).collect();
            v.visit(&ParseOp(PK::B64 { url, padded, len }), &ws);
        }
    }
}

// ---------------------------------------------------------------------------
// emulated-field chains with selects: the limb-bound bookkeeping (which decides whether later
// operations lay out a normalisation) must not look at the values of condition bits

mod ff_chains {
    use num_bigint::BigUint;
    use serde::{Deserialize, Serialize};
    use vp_circ::{
        e2::{self, Op},
        ops_foreign::{gen_chain, model, BlsBase, EmField, FOp, Prog, SecpBase, SecpScalar, Step, Term},
    };
    use vpcore::{CaseResult, Failure, SplitMix, Verdict};

    #[derive(Clone, Debug, Serialize, Deserialize)]
    pub struct ChainCase {
        pub field: u8,
        pub seed: u64,
    }

    fn program<Fd: EmField>(rng: &mut SplitMix) -> Prog {
        let md = model::<Fd>();
        let mut p = gen_chain(&md, rng);
        p.n_bits = 2;
        // selects between earlier values (typically one lazily bounded, one well formed), in both
        // operand orders, followed by operations that normalise their operands
        let n_vals = p.n_field + p.steps.len();
        let last = n_vals - 1;
        let other = rng.below(p.n_field as u64) as usize;
        let (a, b) = if rng.below(2) == 0 { (last, other) } else { (other, last) };
        p.steps.push(Step::Select(0, a, b));
        let s1 = n_vals;
        p.steps.push(Step::Select(1, s1, rng.below(n_vals as u64) as usize));
        let s2 = n_vals + 1;
        match rng.below(3) {
            0 => p.steps.push(Step::Mul(s2, other)),
            1 => p.steps.push(Step::Add(s2, s1)),
            _ => {}
        }
        let end = p.n_field + p.steps.len() - 1;
        p.term = match rng.below(4) {
            0 => Term::Expose(end),
            1 => Term::IsZero(end),
            2 => Term::IsEq(end, other),
            _ => Term::ToBits(end, None, true),
        };
        p
    }

    fn go<Fd: EmField>(c: &ChainCase) -> CaseResult {
        let mut rng = SplitMix(c.seed);
        let prog = program::<Fd>(&mut rng);
        let md = model::<Fd>();
        let op = FOp::<Fd>::new(prog.clone());
        let fields: Vec<BigUint> = (0..prog.n_field).map(|_| BigUint::from_bytes_le(&rng.bytes(48)) % &md.m).collect();
        let mut first: Option<e2::Structure> = None;
        let mut used = 0;
        for bits in 0..4u32 {
            let mut x = fields.clone();
            x.push(BigUint::from(bits & 1));
            x.push(BigUint::from(bits >> 1));
            if op.reference(&x).is_none() {
                continue; // e.g. a division by zero on this branch
            }
            let s = e2::structure_of(&op, &x).map_err(|e| Failure::new(format!("{}:cannot-synthesise", op.name()), e))?;
            used += 1;
            match &first {
                None => first = Some(s),
                Some(f) => {
                    let what = if f.k != s.k {
                        "k"
                    } else if f.selectors != s.selectors {
                        "selectors"
                    } else if f.fixed != s.fixed {
                        "fixed-columns"
                    } else if f.permutation != s.permutation {
                        "copy-constraints"
                    } else {
                        ""
                    };
                    if !what.is_empty() {
                        return Err(Failure::new(
                            format!("emulated-field-chain:structure-depends-on-witness:{what}"),
                            format!("condition bits {bits:02b} versus the first pattern give different {what} ({f:?} vs {s:?}) for {}", op.name()),
                        ));
                    }
                }
            }
        }
        Ok(Verdict::of(used >= 2, format!("bit-patterns:{used}")).with(format!("modulus-bits:{}", md.m.bits())))
    }

    pub fn run(c: &ChainCase) -> CaseResult {
        match c.field % 3 {
            0 => go::<SecpScalar>(c),
            1 => go::<SecpBase>(c),
            _ => go::<BlsBase>(c),
        }
    }
}

fn main() {
    vpcore::main("C09", "exploration", (3600, 21600), |p| {
        p.assume("witnesses are the representative in-domain tuples provided by the op catalogues of C04/C05/C06/C07 (zero/non-zero, equal/unequal, carries, identity points, different actual lengths and fillers for variable-length gadgets)");
        let quick = p.quick();
        let seed = p.seed;
        let vk_every = if quick { 8 } else { 1 };
        {
            use proptest::prelude::*;
            p.sub(
                "zkir.structure",
                "generated well-typed ZKIR programs (all operations, <= 14 steps) compiled once and synthesised with the generated witness and up to three others on which evaluation also succeeds (all-minimal, all-maximal, random, one or two loaded values replaced): identical k / fixed columns / selectors / copy constraints / number of public inputs; non-trivial = at least two witnesses synthesised",
                p.tier.pick(160, 3000),
                16,
                || (zk::strategy(), any::<u64>()).prop_map(|(case, seed)| zk::ZCase { case, seed }).boxed(),
                zk::run,
            );
        }
        {
            use proptest::prelude::*;
            p.sub(
                "emulated-field.chains.structure",
                "generated chains of emulated-field operations (lazy additions, constants, products) extended by two selects between a late and an early value (both operand orders) and a normalising consumer, synthesised with one set of field inputs and all four values of the two condition bits: identical k / fixed columns / selectors / copy constraints; non-trivial = at least two bit patterns in the domain",
                p.tier.pick(96, 2000),
                16,
                || (0u8..3, any::<u64>()).prop_map(|(field, seed)| ff_chains::ChainCase { field, seed }).boxed(),
                ff_chains::run,
            );
        }
        let mut items = vec![];
        for (cat, which) in [("native", 0), ("ecc", 1), ("hash", 2), ("hash-scratch", 3), ("foreign", 4), ("parsing", 5)] {
            let mut c = Collect { catalogue: cat, items: vec![], vk_every };
            match which {
                0 => ops_native::visit_ops(&mut c, quick, seed),
                1 => ops_ecc::visit_ops(&mut c, quick, seed),
                2 => ops_hash::visit_ops(&mut c, quick, seed),
                3 => ops_hash::visit_scratch_ops(&mut c, quick, seed),
                4 => ops_foreign::visit_ops(&mut c, quick, seed),
                _ => parsing_ops::visit_ops(&mut c, quick, seed),
            }
            items.extend(c.items);
        }
        p.enumerate(
            "catalogue.structure",
            "every catalogue op x its representative witnesses: identical k / fixed columns / selectors / copy constraints / number of public inputs under MockProver, and (sampled ops in quick) vk generated without witness == vk generated with a witness; non-trivial = at least two distinct witnesses",
            items,
            16,
            false,
            move |item: &Item| -> CaseResult {
                let mut r = Runner { item, result: None };
                match item.catalogue.as_str() {
                    "native" => ops_native::visit_ops(&mut r, quick, seed),
                    "ecc" => ops_ecc::visit_ops(&mut r, quick, seed),
                    "hash" => ops_hash::visit_ops(&mut r, quick, seed),
                    "foreign" => ops_foreign::visit_ops(&mut r, quick, seed),
                    "parsing" => parsing_ops::visit_ops(&mut r, quick, seed),
                    _ => ops_hash::visit_scratch_ops(&mut r, quick, seed),
                }
                r.result.unwrap_or_else(|| Err(Failure::new("harness:op-not-found-in-catalogue", item.op.clone())))
            },
        );
    });
}
