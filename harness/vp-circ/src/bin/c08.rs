//! C08 — the off-circuit public-input encoding is exactly what the circuit binds.
//!
//! For every exposable type reachable through the standard library (bit, byte,
//! native, Jubjub point and scalar, secp256k1 scalar / base field, BLS12-381
//! base field, secp256k1 and BLS12-381 G1 points, BigUint of many widths) and
//! both exposure paths (`constrain_as_public_input` after `assign`, and
//! `assign_as_public_input`):
//! (i) the circuit exposing v is satisfied with the LIBRARY's off-circuit
//!     encoding `as_public_input(v)`;
//! (ii) every single-position edit of that vector (+1, -1, random, swap with a
//!     neighbour) is rejected under the honest witness;
//! (iii) injectivity and fixed length: over all generated values of a type plus
//!     targeted near-misses, different values never share an encoding and all
//!     encodings of a type/width have the same length;
//! (iv) `setup_vk` records the number of raw public inputs the verifier
//!     insists on: relations exposing 0..40 values of mixed types verify with
//!     the exact vector and return `InvalidInstances` for |pi| +- 1.

use std::collections::HashMap;
use std::sync::Mutex;

use ff::{Field, PrimeField};
use group::Group;
use midnight_circuits::{
    biguint::AssignedBigUint,
    ecc::{foreign::AssignedForeignPoint, native::AssignedScalarOfNativeCurve},
    field::foreign::{params::MultiEmulationParams as MEP, AssignedField},
    instructions::*,
    types::{AssignedBit, AssignedByte, AssignedNative, AssignedNativePoint, Instantiable},
};
use midnight_curves::{k256, G1Projective, JubjubExtended, JubjubSubgroup};
use midnight_proofs::{
    circuit::{Layouter, Value},
    plonk::Error,
    poly::kzg::params::ParamsKZG,
};
use midnight_zk_stdlib::{MidnightCircuit, Relation, ZkStdLib, ZkStdLibArch};
use num_bigint::BigUint;
use num_traits::{One, Zero};
use proptest::prelude::*;
use rand_chacha::ChaCha20Rng;
use rand_core::SeedableRng;
use serde::{Deserialize, Serialize};
use vp_circ::e2::*;
use vpcore::{ensure, CaseResult, Failure, SplitMix, Verdict};

#[derive(Clone, Copy, Debug, PartialEq, Eq, Hash, Serialize, Deserialize)]
enum Ty {
    Bit,
    Byte,
    Native,
    JubjubPoint,
    JubjubScalar,
    SecpScalar,
    SecpBase,
    BlsBase,
    SecpPoint,
    BlsPoint,
    BigUint(u32),
}

/// How the exposed value comes to exist in the circuit.
#[derive(Clone, Copy, Debug, PartialEq, Eq, Hash, PartialOrd, Ord, Serialize, Deserialize, Default)]
enum Prov {
    /// freshly assigned witness
    #[default]
    Fresh,
    /// a + b of two witnesses (emulated elements stay un-normalised, BigUint grows by one bit)
    Sum,
    /// a - b of two witnesses (points: a + (-b))
    Diff,
    /// 3 * a + 5 (fields) / 2a + b (points)
    Lin,
}

#[derive(Clone, Debug)]
struct Expose {
    ty: Ty,
    /// true: assign + constrain_as_public_input; false: assign_as_public_input
    constrain: bool,
    prov: Prov,
}

/// A second operand derived from the value (so that the case is a function of the value):
/// all-ones limbs, the largest element, the value itself or a pseudo-random element.
fn operand(x: &BigUint, m: &BigUint) -> BigUint {
    let h = vpcore::digest(&x.to_bytes_le());
    match h % 5 {
        0 => m - 1u32,
        1 => ((BigUint::one() << 192u32) - 1u32) % m,
        2 => x.clone() % m,
        3 => (BigUint::one() << 64u32) % m,
        _ => (BigUint::from(h) * BigUint::from(h) * BigUint::from(h) * BigUint::from(h) * BigUint::from(0x9e3779b97f4a7c15u64)) % m,
    }
}

fn sub_mod(a: &BigUint, b: &BigUint, m: &BigUint) -> BigUint {
    ((a % m) + m - (b % m)) % m
}

fn inv3(m: &BigUint) -> BigUint {
    // m is a prime > 3
    BigUint::from(3u32).modpow(&(m - 2u32), m)
}

fn big_to_field<K: PrimeField>(x: &BigUint) -> K {
    // little-endian repr for the fields used here is not uniform: go through decimal
    K::from_str_vartime(&x.to_string()).expect("in range")
}

fn field_modulus<K: PrimeField>() -> BigUint {
    BigUint::parse_bytes(K::MODULUS.trim_start_matches("0x").as_bytes(), 16).unwrap()
}

impl Ty {
    /// Domain size (values are 0..size) of the BigUint parameter x[0].
    fn domain(&self) -> BigUint {
        match self {
            Ty::Bit => BigUint::from(2u32),
            Ty::Byte => BigUint::from(256u32),
            Ty::Native => modulus(),
            Ty::JubjubPoint | Ty::JubjubScalar => field_modulus::<midnight_curves::Fr>(),
            Ty::SecpScalar | Ty::SecpPoint => field_modulus::<k256::Fq>(),
            Ty::SecpBase => field_modulus::<k256::Fp>(),
            Ty::BlsBase => field_modulus::<midnight_curves::Fp>(),
            Ty::BlsPoint => modulus(),
            Ty::BigUint(n) => BigUint::one() << *n,
        }
    }
    fn arch(&self) -> ZkStdLibArch {
        let d = ZkStdLibArch::default();
        match self {
            Ty::JubjubPoint | Ty::JubjubScalar => ZkStdLibArch { jubjub: true, ..d },
            Ty::SecpScalar | Ty::SecpBase | Ty::SecpPoint => ZkStdLibArch { secp256k1: true, ..d },
            Ty::BlsBase | Ty::BlsPoint => ZkStdLibArch { bls12_381: true, ..d },
            _ => d,
        }
    }
    /// Which provenances the type supports (others fall back to `Fresh`).
    fn prov(&self, p: Prov) -> Prov {
        match (self, p) {
            (Ty::JubjubScalar, _) => Prov::Fresh,
            (Ty::Bit | Ty::Byte, Prov::Diff | Prov::Lin) => Prov::Sum,
            (Ty::BigUint(_), Prov::Lin) => Prov::Sum,
            (_, p) => p,
        }
    }
    /// Off-circuit encoding of a value exposed with the given provenance (only the declared
    /// width of a BigUint depends on it).
    fn encode_as(&self, x: &BigUint, prov: Prov) -> Vec<F> {
        match (self, self.prov(prov)) {
            (Ty::BigUint(_), p @ (Prov::Sum | Prov::Diff)) => AssignedBigUint::<F>::as_public_input(x, self.derived_width(p)),
            _ => self.encode(x),
        }
    }
    /// The bit bound the BigUint gadget derives for a computed integer (limb-granular after
    /// normalisation, e.g. 96 + 96 bits -> 192): the caller of constrain_as_public_input must
    /// pass exactly this bound, and encodes off-circuit with it. Read from a dry synthesis.
    fn derived_width(&self, prov: Prov) -> u32 {
        let Ty::BigUint(n) = self else { unreachable!() };
        if let Some(w) = WIDTHS.lock().unwrap().get(&(*n, prov)) {
            return *w;
        }
        let _ = op_k(&Expose { ty: *self, constrain: true, prov }, &[BigUint::zero()]);
        *WIDTHS.lock().unwrap().get(&(*n, prov)).expect("dry synthesis records the derived width")
    }
    /// The library's off-circuit encoding of the value denoted by `x`.
    fn encode(&self, x: &BigUint) -> Vec<F> {
        match self {
            Ty::Bit => AssignedBit::<F>::as_public_input(&!x.is_zero()),
            Ty::Byte => AssignedByte::<F>::as_public_input(&(x.to_u64_digits().first().copied().unwrap_or(0) as u8)),
            Ty::Native => AssignedNative::<F>::as_public_input(&big_to_f(x)),
            Ty::JubjubPoint => {
                let p: JubjubSubgroup = JubjubSubgroup::generator() * big_to_field::<midnight_curves::Fr>(x);
                AssignedNativePoint::<JubjubExtended>::as_public_input(&p)
            }
            Ty::JubjubScalar => AssignedScalarOfNativeCurve::<JubjubExtended>::as_public_input(&big_to_field::<midnight_curves::Fr>(x)),
            Ty::SecpScalar => AssignedField::<F, k256::Fq, MEP>::as_public_input(&big_to_field::<k256::Fq>(x)),
            Ty::SecpBase => AssignedField::<F, k256::Fp, MEP>::as_public_input(&big_to_field::<k256::Fp>(x)),
            Ty::BlsBase => AssignedField::<F, midnight_curves::Fp, MEP>::as_public_input(&big_to_field::<midnight_curves::Fp>(x)),
            Ty::SecpPoint => {
                let p = k256::K256::generator() * big_to_field::<k256::Fq>(x);
                AssignedForeignPoint::<F, k256::K256, MEP>::as_public_input(&p)
            }
            Ty::BlsPoint => {
                let p = G1Projective::generator() * big_to_f(x);
                AssignedForeignPoint::<F, G1Projective, MEP>::as_public_input(&p)
            }
            Ty::BigUint(n) => AssignedBigUint::<F>::as_public_input(x, *n),
        }
    }
    /// Assigns and exposes the value inside a circuit.
    fn expose<L: Layouter<F>>(&self, std: &ZkStdLib, l: &mut L, x: Value<BigUint>, constrain: bool) -> Result<(), Error> {
        self.expose_as(std, l, x, constrain, Prov::Fresh)
    }

    fn expose_as<L: Layouter<F>>(&self, std: &ZkStdLib, l: &mut L, x: Value<BigUint>, constrain: bool, prov: Prov) -> Result<(), Error> {
        let prov = self.prov(prov);
        if prov == Prov::Fresh {
            return self.expose_fresh(std, l, x, constrain);
        }
        let m = self.domain();
        // operands (a, b) with a (+|-) b = x, or 3a + 5 = x, in the type's field / scalar field
        let ab: Value<(BigUint, BigUint)> = x.clone().map(|x| {
            let r = operand(&x, &m);
            match prov {
                Prov::Sum => (sub_mod(&x, &r, &m), r),
                Prov::Diff => ((&x + &r) % &m, r),
                // fields: 3a + 5 = x ; points: 2a + b = x
                _ => match self {
                    Ty::Native | Ty::SecpScalar | Ty::SecpBase | Ty::BlsBase => (sub_mod(&x, &BigUint::from(5u32), &m) * inv3(&m) % &m, r),
                    _ => {
                        let half = (&m + 1u32) >> 1; // 1/2 mod odd m
                        (sub_mod(&x, &r, &m) * half % &m, r)
                    }
                },
            }
        });
        let a = ab.clone().map(|t| t.0);
        let b = ab.map(|t| t.1);
        macro_rules! field {
            ($chip:expr, $t:ty, $k:ty) => {{
                let chip = $chip;
                let va: $t = chip.assign(l, a.map(|a| big_to_field::<$k>(&a)))?;
                let vb: $t = chip.assign(l, b.map(|b| big_to_field::<$k>(&b)))?;
                let s: $t = match prov {
                    Prov::Sum => chip.add(l, &va, &vb)?,
                    Prov::Diff => chip.sub(l, &va, &vb)?,
                    _ => {
                        let t: $t = chip.mul_by_constant(l, &va, <$k>::from(3u64))?;
                        chip.add_constant(l, &t, <$k>::from(5u64))?
                    }
                };
                chip.constrain_as_public_input(l, &s)
            }};
        }
        macro_rules! point {
            ($chip:expr, $t:ty, $g:expr, $k:ty) => {{
                let chip = $chip;
                let va: $t = chip.assign(l, a.map(|a| $g * big_to_field::<$k>(&a)))?;
                let vb: $t = chip.assign(l, b.map(|b| $g * big_to_field::<$k>(&b)))?;
                let s: $t = match prov {
                    Prov::Sum => chip.add(l, &va, &vb)?,
                    Prov::Diff => {
                        let nb = chip.negate(l, &vb)?;
                        chip.add(l, &va, &nb)?
                    }
                    _ => {
                        let d = chip.double(l, &va)?;
                        chip.add(l, &d, &vb)?
                    }
                };
                chip.constrain_as_public_input(l, &s)
            }};
        }
        match self {
            Ty::Bit => {
                // x = a xor b
                let xb = x.map(|x| !x.is_zero());
                let rb = xb.map(|x| !x);
                let va: AssignedBit<F> = std.assign(l, xb.zip(rb).map(|(x, r)| x ^ r))?;
                let vb: AssignedBit<F> = std.assign(l, rb)?;
                let s = std.xor(l, &[va, vb])?;
                std.constrain_as_public_input(l, &s)
            }
            Ty::Byte => {
                // a native value converted to a byte
                let v: AssignedNative<F> = std.assign(l, x.map(|x| big_to_f(&x)))?;
                let y: AssignedByte<F> = std.convert(l, &v)?;
                std.constrain_as_public_input(l, &y)
            }
            Ty::Native => field!(std, AssignedNative<F>, F),
            Ty::SecpScalar => field!(std.secp256k1_scalar(), AssignedField<F, k256::Fq, MEP>, k256::Fq),
            Ty::SecpBase => field!(std.secp256k1_curve().base_field_chip(), AssignedField<F, k256::Fp, MEP>, k256::Fp),
            Ty::BlsBase => field!(std.bls12_381_curve().base_field_chip(), AssignedField<F, midnight_curves::Fp, MEP>, midnight_curves::Fp),
            Ty::JubjubPoint => point!(std.jubjub(), AssignedNativePoint<JubjubExtended>, JubjubSubgroup::generator(), midnight_curves::Fr),
            Ty::SecpPoint => point!(std.secp256k1_curve(), AssignedForeignPoint<F, k256::K256, MEP>, k256::K256::generator(), k256::Fq),
            Ty::BlsPoint => point!(std.bls12_381_curve(), AssignedForeignPoint<F, G1Projective, MEP>, G1Projective::generator(), F),
            Ty::BigUint(n) => {
                // integers: a + b = x with b <= x, or (x + b) - b
                let big = std.biguint();
                let xb = x.clone().map(|x| {
                    let r = operand(&x, &(&x + 1u32));
                    (x, r)
                });
                match prov {
                    Prov::Sum => {
                        let va = big.assign_biguint(l, xb.clone().map(|(x, r)| x - r), *n)?;
                        let vb = big.assign_biguint(l, xb.map(|(_, r)| r), *n)?;
                        let s = big.add(l, &va, &vb)?;
                        WIDTHS.lock().unwrap().insert((*n, prov), s.nb_bits());
                        big.constrain_as_public_input(l, &s, s.nb_bits())
                    }
                    _ => {
                        // (x + r) may need n + 1 bits
                        let va = big.assign_biguint(l, xb.clone().map(|(x, r)| x + r), *n + 1)?;
                        let vb = big.assign_biguint(l, xb.map(|(_, r)| r), *n)?;
                        let s = big.sub(l, &va, &vb)?;
                        WIDTHS.lock().unwrap().insert((*n, prov), s.nb_bits());
                        big.constrain_as_public_input(l, &s, s.nb_bits())
                    }
                }
            }
            Ty::JubjubScalar => unreachable!(),
        }
    }

    fn expose_fresh<L: Layouter<F>>(&self, std: &ZkStdLib, l: &mut L, x: Value<BigUint>, constrain: bool) -> Result<(), Error> {
        macro_rules! go {
            ($chip:expr, $t:ty, $v:expr) => {{
                let chip = $chip;
                if constrain {
                    let a: $t = chip.assign(l, $v)?;
                    chip.constrain_as_public_input(l, &a)
                } else {
                    let _a: $t = chip.assign_as_public_input(l, $v)?;
                    Ok(())
                }
            }};
        }
        match self {
            Ty::Bit => go!(std, AssignedBit<F>, x.map(|x| !x.is_zero())),
            Ty::Byte => go!(std, AssignedByte<F>, x.map(|x| x.to_u64_digits().first().copied().unwrap_or(0) as u8)),
            Ty::Native => go!(std, AssignedNative<F>, x.map(|x| big_to_f(&x))),
            Ty::JubjubPoint => go!(
                std.jubjub(),
                AssignedNativePoint<JubjubExtended>,
                x.map(|x| JubjubSubgroup::generator() * big_to_field::<midnight_curves::Fr>(&x))
            ),
            Ty::JubjubScalar => go!(std.jubjub(), AssignedScalarOfNativeCurve<JubjubExtended>, x.map(|x| big_to_field::<midnight_curves::Fr>(&x))),
            Ty::SecpScalar => go!(std.secp256k1_scalar(), AssignedField<F, k256::Fq, MEP>, x.map(|x| big_to_field::<k256::Fq>(&x))),
            Ty::SecpBase => go!(std.secp256k1_curve().base_field_chip(), AssignedField<F, k256::Fp, MEP>, x.map(|x| big_to_field::<k256::Fp>(&x))),
            Ty::BlsBase => go!(
                std.bls12_381_curve().base_field_chip(),
                AssignedField<F, midnight_curves::Fp, MEP>,
                x.map(|x| big_to_field::<midnight_curves::Fp>(&x))
            ),
            Ty::SecpPoint => go!(
                std.secp256k1_curve(),
                AssignedForeignPoint<F, k256::K256, MEP>,
                x.map(|x| k256::K256::generator() * big_to_field::<k256::Fq>(&x))
            ),
            Ty::BlsPoint => go!(std.bls12_381_curve(), AssignedForeignPoint<F, G1Projective, MEP>, x.map(|x| G1Projective::generator() * big_to_f(&x))),
            Ty::BigUint(n) => {
                // BigUint has a dedicated API (no assign_as_public_input)
                let a = std.biguint().assign_biguint(l, x, *n)?;
                std.biguint().constrain_as_public_input(l, &a, *n)
            }
        }
    }
}

impl Op for Expose {
    fn name(&self) -> String {
        format!("expose({:?},{}{})", self.ty, if self.constrain { "constrain" } else { "assign_as_pi" }, match self.ty.prov(self.prov) { Prov::Fresh => "", Prov::Sum => ",sum", Prov::Diff => ",diff", Prov::Lin => ",lin" })
    }
    fn arch(&self) -> ZkStdLibArch {
        self.ty.arch()
    }
    fn circuit<L: Layouter<F>>(&self, std: &ZkStdLib, l: &mut L, x: Value<Vec<BigUint>>) -> Result<(), Error> {
        self.ty.expose_as(std, l, x.map(|x| x[0].clone()), self.constrain, self.prov)
    }
    fn reference(&self, x: &[BigUint]) -> Option<Vec<F>> {
        if x[0] < self.ty.domain() {
            Some(self.ty.encode_as(&x[0], self.prov))
        } else {
            None
        }
    }
    fn n_input_scalars(&self) -> usize {
        usize::MAX
    }
    fn judge(&self, _public: &[F]) -> bool {
        false
    }
}

#[derive(Clone, Debug, Serialize, Deserialize)]
struct Case {
    ty: Ty,
    constrain: bool,
    value: Int,
    seed: u64,
    #[serde(default)]
    prov: Prov,
}

use vp_alg::Int;

fn value_strategy(ty: Ty) -> BoxedStrategy<Int> {
    let d = ty.domain();
    if d <= BigUint::from(256u32) {
        let n = d.to_u64_digits()[0];
        return (0..n).prop_map(|v| Int::of("small-domain", &BigUint::from(v))).boxed();
    }
    // boundary representatives of the domain + limb boundaries + uniform
    let mut b: Vec<(String, BigUint)> = vec![
        ("0".into(), BigUint::zero()),
        ("1".into(), BigUint::one()),
        ("2".into(), BigUint::from(2u32)),
        ("max".into(), &d - 1u32),
        ("max-1".into(), &d - 2u32),
        ("half".into(), &d >> 1),
    ];
    for k in [8u32, 64, 96, 128, 192, 255] {
        let v = BigUint::one() << k;
        if &v + 1u32 < d {
            b.push((format!("2^{k}-1"), &v - 1u32));
            b.push((format!("2^{k}"), v.clone()));
            b.push((format!("2^{k}+1"), v + 1u32));
        }
    }
    let nbytes = (d.bits() as usize).div_ceil(8) + 8;
    let d2 = d.clone();
    prop_oneof![
        (0..b.len()).prop_map(move |i| Int::of(&b[i].0, &b[i].1)),
        proptest::collection::vec(any::<u8>(), nbytes).prop_map(move |v| Int::of("random", &(BigUint::from_bytes_le(&v) % &d2))),
        (0u64..300).prop_map(|v| Int::of("small", &BigUint::from(v))),
    ]
    .boxed()
}

fn types(quick: bool) -> Vec<Ty> {
    let mut v = vec![Ty::Bit, Ty::Byte, Ty::Native, Ty::JubjubPoint, Ty::JubjubScalar, Ty::SecpScalar, Ty::SecpBase, Ty::BlsBase, Ty::SecpPoint, Ty::BlsPoint];
    let widths: Vec<u32> = if quick { vec![1, 8, 95, 96, 97, 192, 256, 1024, 2048] } else { (1..=22).map(|k| 96 * k).chain((1..=22).map(|k| 96 * k - 1)).chain((0..=21).map(|k| 96 * k + 1)).chain([2048, 2047]).collect() };
    for w in widths {
        v.push(Ty::BigUint(w));
    }
    v
}

/// (type, encoding) -> value: shared across cases of a run for injectivity.
static ENCODINGS: Mutex<Option<HashMap<(String, Vec<[u8; 32]>), BigUint>>> = Mutex::new(None);
static LENGTHS: Mutex<Option<HashMap<String, usize>>> = Mutex::new(None);
/// (declared width, provenance) -> bit bound derived by the BigUint gadget for the computed value
static WIDTHS: Mutex<std::collections::BTreeMap<(u32, Prov), u32>> = Mutex::new(std::collections::BTreeMap::new());

fn enc_key(v: &[F]) -> Vec<[u8; 32]> {
    v.iter()
        .map(|f| {
            let mut b = [0u8; 32];
            b.copy_from_slice(f.to_repr().as_ref());
            b
        })
        .collect()
}

fn one(c: &Case, mock: bool) -> CaseResult {
    let op = Expose { ty: c.ty, constrain: c.constrain || c.prov != Prov::Fresh, prov: c.prov };
    let x = vec![c.value.big()];
    let inst = op.reference(&x).ok_or_else(|| Failure::new("harness:value-out-of-domain", format!("{c:?}")))?;
    let tname = match (c.ty, c.ty.prov(c.prov)) {
        // a BigUint sum is declared one bit wider: its encodings live in the wider type
        (Ty::BigUint(_), p @ (Prov::Sum | Prov::Diff)) => format!("{:?}", Ty::BigUint(c.ty.derived_width(p))),
        _ => format!("{:?}", c.ty),
    };
    // (iii) injectivity and fixed length (cheap: off-circuit only)
    {
        let mut g = LENGTHS.lock().unwrap();
        let m = g.get_or_insert_with(HashMap::new);
        let len = *m.entry(tname.clone()).or_insert(inst.len());
        ensure!(len == inst.len(), format!("{tname}:encoding-length-varies"), "value {} encodes to {} scalars, another value of the type to {len}", x[0], inst.len());
        drop(g);
        let mut g = ENCODINGS.lock().unwrap();
        let m = g.get_or_insert_with(HashMap::new);
        // the semantic value: points are keyed by the scalar mod the group order,
        // everything else by the integer itself
        let sem = x[0].clone();
        if let Some(prev) = m.insert((tname.clone(), enc_key(&inst)), sem.clone()) {
            ensure!(prev == sem, format!("{tname}:encoding-not-injective"), "values {prev} and {sem} share the encoding {inst:?}");
        }
    }
    if !mock {
        return Ok(Verdict::of(c.value.class != "random", format!("{tname}/offcircuit")));
    }
    // (i) satisfied with the off-circuit encoding
    let run = run_given(&op, &x, &inst);
    ensure!(
        run.outcome.accepted(),
        format!("{}:circuit-rejects-offcircuit-encoding:{}", op.name(), run.outcome.label()),
        "value {} (class {}): circuit exposing it is not satisfied with as_public_input(v) = {inst:?}: {:?}",
        x[0],
        c.value.class,
        run.outcome
    );
    // (ii) every single-position edit is rejected
    let mut rng = SplitMix(c.seed);
    for pos in 0..inst.len() {
        let mut variants = vec![inst[pos] + F::ONE, inst[pos] - F::ONE, F::from(rng.next_u64()) * F::from(rng.next_u64())];
        if inst.len() >= 2 {
            variants.push(inst[(pos + 1) % inst.len()]);
        }
        // limb-level near misses for multi-limb encodings: +-2^64, +-2^96, all bits of a limb
        variants.push(inst[pos] + F::from(1u64 << 32) * F::from(1u64 << 32));
        let v = variants[rng.below(variants.len() as u64) as usize];
        if v == inst[pos] {
            continue;
        }
        let mut wrong = inst.clone();
        wrong[pos] = v;
        let r = run_given(&op, &x, &wrong);
        ensure!(
            !r.outcome.accepted(),
            format!("{}:accepts-edited-encoding", op.name()),
            "value {}: honest witness accepted with position {pos} changed from {:?} to {:?}",
            x[0],
            inst[pos],
            v
        );
    }
    // truncated / extended vectors must not be accepted either
    if !inst.is_empty() {
        let mut short = inst.clone();
        short.pop();
        let r = run_given(&op, &x, &short);
        // a missing trailing instance value is padded with zero by the proving system: only a
        // violation if the dropped value was non-zero
        if *inst.last().unwrap() != F::ZERO {
            ensure!(!r.outcome.accepted(), format!("{}:accepts-truncated-encoding", op.name()), "value {}", x[0]);
        }
    }
    Ok(Verdict::of(c.value.class != "random", format!("{tname}/{}", if c.constrain { "constrain" } else { "assign_as_pi" })).with(c.value.class.clone()).with(format!("provenance:{:?}", c.ty.prov(c.prov))))
}

// ---------------------------------------------------------------------------
// (iv) mixed relations: number of public inputs recorded at key generation

#[derive(Clone, Debug)]
struct Mix {
    items: Vec<Ty>,
}

impl Relation for Mix {
    type Instance = Vec<F>;
    type Witness = Vec<BigUint>;
    fn format_instance(i: &Vec<F>) -> Result<Vec<F>, Error> {
        Ok(i.clone())
    }
    fn circuit(&self, std: &ZkStdLib, l: &mut impl Layouter<F>, _i: Value<Vec<F>>, w: Value<Vec<BigUint>>) -> Result<(), Error> {
        for (j, ty) in self.items.iter().enumerate() {
            ty.expose(std, l, w.clone().map(|w| w[j].clone()), j % 2 == 0)?;
        }
        Ok(())
    }
    fn used_chips(&self) -> ZkStdLibArch {
        let mut a = ZkStdLibArch::default();
        for t in &self.items {
            let b = t.arch();
            a.jubjub |= b.jubjub;
            a.secp256k1 |= b.secp256k1;
            a.bls12_381 |= b.bls12_381;
        }
        a
    }
    fn write_relation<W: std::io::Write>(&self, _w: &mut W) -> std::io::Result<()> {
        Ok(())
    }
    fn read_relation<R: std::io::Read>(_r: &mut R) -> std::io::Result<Self> {
        Err(std::io::Error::other("not serialisable"))
    }
}

#[derive(Clone, Debug, Serialize, Deserialize)]
struct MixCase {
    items: Vec<Ty>,
    seed: u64,
}

fn mix_case(c: &MixCase) -> CaseResult {
    let rel = Mix { items: c.items.clone() };
    let mut rng = SplitMix(c.seed);
    let mut wit = vec![];
    let mut inst = vec![];
    for t in &c.items {
        let d = t.domain();
        let v = BigUint::from_bytes_le(&rng.bytes((d.bits() as usize).div_ceil(8) + 8)) % &d;
        inst.extend(t.encode(&v));
        wit.push(v);
    }
    let k = vpcore::catch(|| MidnightCircuit::from_relation(&rel).min_k()).map_err(|p| Failure::new("mix:min_k-panics", p))?;
    let params = ParamsKZG::<midnight_curves::Bls12>::unsafe_setup(k, ChaCha20Rng::seed_from_u64(8));
    let vk = midnight_zk_stdlib::setup_vk(&params, &rel);
    let pk = midnight_zk_stdlib::setup_pk(&rel, &vk);
    type H = blake2b_simd::State;
    let proof = midnight_zk_stdlib::prove::<Mix, H>(&params, &pk, &rel, &inst, wit, ChaCha20Rng::seed_from_u64(c.seed)).map_err(|e| Failure::new("mix:prove-fails", format!("{e:?}; items={:?}", c.items)))?;
    let vp = params.verifier_params();
    let r = midnight_zk_stdlib::verify::<Mix, H>(&vp, &vk, &inst, None, &proof);
    ensure!(r.is_ok(), "mix:honest-proof-rejected", "items={:?}: {r:?} (|pi| = {})", c.items, inst.len());
    let mut longer = inst.clone();
    longer.push(F::ZERO);
    let r = midnight_zk_stdlib::verify::<Mix, H>(&vp, &vk, &longer, None, &proof);
    ensure!(matches!(r, Err(Error::InvalidInstances)), "mix:accepts-or-misreports-longer-instance", "items={:?}: |pi|+1 gives {r:?}", c.items);
    if !inst.is_empty() {
        let shorter = inst[..inst.len() - 1].to_vec();
        let r = midnight_zk_stdlib::verify::<Mix, H>(&vp, &vk, &shorter, None, &proof);
        ensure!(matches!(r, Err(Error::InvalidInstances)), "mix:accepts-or-misreports-shorter-instance", "items={:?}: |pi|-1 gives {r:?}", c.items);
        let mut wrong = inst.clone();
        let pos = rng.below(wrong.len() as u64) as usize;
        wrong[pos] += F::ONE;
        let r = midnight_zk_stdlib::verify::<Mix, H>(&vp, &vk, &wrong, None, &proof);
        ensure!(r.is_err(), "mix:accepts-edited-instance", "items={:?} pos={pos}", c.items);
    }
    let distinct: std::collections::HashSet<_> = c.items.iter().map(|t| std::mem::discriminant(t)).collect();
    Ok(Verdict::of(distinct.len() >= 3, format!("n={} types={}", c.items.len(), distinct.len())))
}

// ---------------------------------------------------------------------------
// (v) accumulators of the in-circuit verifier: all-plain encoding and the encoding whose
// right-hand-side scalars go through the committed instance column

#[derive(Clone, Debug, Serialize, Deserialize)]
struct AccCase {
    n_fixed: usize,
    n_perm: usize,
    terms: (usize, usize),
    committed_scalars: bool,
    seed: u64,
}

fn acc_case(c: &AccCase) -> CaseResult {
    use midnight_circuits::verifier::AssignedAccumulator;
    use midnight_proofs::dev::MockProver;
    use vp_circ::acc_circuit::{names, synthetic, AccCircuit, ACC_K, S};
    let mut rng = ChaCha20Rng::seed_from_u64(c.seed);
    let nm = names(c.n_fixed, c.n_perm);
    let acc = synthetic(&nm, c.terms, &mut rng);
    let circuit = AccCircuit { names: nm.clone(), lens: c.terms, acc: Value::known(acc.clone()), committed_scalars: c.committed_scalars };
    let (plain, committed): (Vec<F>, Vec<F>) = if c.committed_scalars { AssignedAccumulator::<S>::as_public_input_with_committed_scalars(&acc) } else { (AssignedAccumulator::<S>::as_public_input(&acc), vec![]) };
    let run = |committed: Vec<F>, plain: Vec<F>| -> Result<bool, String> {
        match vpcore::catch(|| MockProver::run(ACC_K, &circuit, vec![committed, plain]).map(|p| p.verify().is_ok())) {
            Err(p) => Err(format!("panic: {p}")),
            Ok(Err(e)) => Err(format!("synthesis: {e:?}")),
            Ok(Ok(b)) => Ok(b),
        }
    };
    let what = if c.committed_scalars { "committed-scalars" } else { "all-plain" };
    let r = run(committed.clone(), plain.clone());
    ensure!(r == Ok(true), format!("accumulator:{what}:circuit-rejects-offcircuit-encoding"), "{} fixed / {} permutation commitments, terms {:?}: {r:?} (|plain| = {}, |committed| = {})", c.n_fixed, c.n_perm, c.terms, plain.len(), committed.len());
    let mut srng = SplitMix(c.seed ^ 0xacc);
    // one position of each vector edited; the other encoding of the same value
    for (which, len) in [("plain", plain.len()), ("committed", committed.len())] {
        if len == 0 {
            continue;
        }
        let pos = srng.below(len as u64) as usize;
        let (mut p2, mut c2) = (plain.clone(), committed.clone());
        if which == "plain" {
            p2[pos] += F::ONE;
        } else {
            c2[pos] += F::ONE;
        }
        let r = run(c2, p2);
        ensure!(r != Ok(true), format!("accumulator:{what}:accepts-edited-{which}-position"), "position {pos} of {len}");
    }
    if c.committed_scalars {
        let r = run(vec![], AssignedAccumulator::<S>::as_public_input(&acc));
        ensure!(r != Ok(true), "accumulator:committed-scalars:accepts-all-plain-encoding", "the circuit binding the scalars in the committed column is satisfied by the all-plain encoding and an empty committed column");
    } else if !committed.is_empty() || true {
        let (p2, c2) = AssignedAccumulator::<S>::as_public_input_with_committed_scalars(&acc);
        if !c2.is_empty() {
            let r = run(c2, p2);
            ensure!(r != Ok(true), "accumulator:all-plain:accepts-committed-scalars-encoding", "");
        }
    }
    Ok(Verdict::nontrivial(format!("accumulator/{what}")).with(format!("names:{}", nm.len())))
}

fn main() {
    vpcore::main("C08", "exploration", (2400, 14400), |p| {
        p.assume("the reference encoding is the library's own off-circuit encoder (Instantiable::as_public_input / AssignedBigUint::as_public_input): the property relates it to what the circuit binds");
        p.assume("edits are judged under the honest witness (values exposed through assign_as_public_input skip in-circuit structure checks by contract)");
        let tys = types(p.quick());
        let tys2 = tys.clone();
        // off-circuit: injectivity and length over many values (cheap)
        p.sub(
            "offcircuit.injective",
            "all types x values from boundary classes (0,1,2,max,max-1,half,2^k-1,2^k,2^k+1 for limb boundaries) and uniform: encodings of one type have one length; different values never share an encoding; non-trivial = boundary class value",
            p.tier.pick(20_000, 400_000),
            16,
            move || {
                let tys = tys2.clone();
                (0..tys.len()).prop_flat_map(move |i| {
                    let ty = tys[i];
                    (value_strategy(ty), any::<u64>()).prop_map(move |(value, seed)| Case { ty, constrain: true, value, seed, prov: Prov::Fresh })
                })
                .boxed()
            },
            |c| one(c, false),
        );
        // in-circuit: cheap types get many cases, emulated ones few (0.2-0.6 s per mock run)
        for &ty in &tys {
            let cheap = matches!(ty, Ty::Bit | Ty::Byte | Ty::Native | Ty::BigUint(_) | Ty::JubjubScalar | Ty::JubjubPoint);
            let n = if cheap { p.tier.pick(160, 2000) } else { p.tier.pick(48, 600) };
            p.sub_cfg(
                &format!("circuit.{ty:?}"),
                "circuit exposing v (both exposure paths for fresh witnesses; constrain_as_public_input for values computed in-circuit as a+b, a-b, 3a+5 / 2a+b, which leaves emulated elements un-normalised) satisfied with as_public_input(v); every position edited once (+1,-1,random,neighbour,+2^64) rejected; truncated vector rejected when the dropped value is non-zero; non-trivial = boundary class value",
                n,
                16,
                8,
                move || {
                    (value_strategy(ty), any::<bool>(), any::<u64>(), prop_oneof![3 => Just(Prov::Fresh), 1 => Just(Prov::Sum), 1 => Just(Prov::Diff), 1 => Just(Prov::Lin)])
                        .prop_map(move |(value, constrain, seed, prov)| Case { ty, constrain: constrain || matches!(ty, Ty::BigUint(_)), value, seed, prov })
                        .boxed()
                },
                |c| one(c, true),
            );
        }
        {
            let mut rng = SplitMix(p.seed ^ 0xacc08);
            let mut items = vec![];
            for (n_fixed, n_perm) in if p.quick() { vec![(3usize, 2usize), (12, 5)] } else { vec![(1, 1), (3, 2), (12, 5), (7, 13), (30, 11)] } {
                for committed_scalars in [false, true] {
                    items.push(AccCase { n_fixed, n_perm, terms: (1 + rng.below(2) as usize, 1 + rng.below(2) as usize), committed_scalars, seed: rng.next_u64() });
                }
            }
            p.enumerate(
                "accumulator.encoding",
                "synthetic accumulators of the in-circuit verifier (BLS12-381 self-emulation) witnessed and exposed all-plain or with committed right-hand-side scalars: the circuit is satisfied with (committed, plain) = the off-circuit encoding of that path, and not with an edited position of either vector nor with the other path's encoding; every case non-trivial",
                items,
                4,
                false,
                acc_case,
            );
        }
        let base: Vec<Ty> = vec![Ty::Bit, Ty::Byte, Ty::Native, Ty::JubjubPoint, Ty::JubjubScalar, Ty::BigUint(200), Ty::SecpScalar, Ty::BlsPoint];
        let mut rng = SplitMix(p.seed ^ 0xc08);
        let mut items = vec![MixCase { items: vec![], seed: rng.next_u64() }];
        for n in if p.quick() { vec![1usize, 2, 3, 7, 20, 40] } else { vec![1, 2, 3, 4, 5, 8, 13, 21, 30, 40, 40] } {
            let its: Vec<Ty> = (0..n).map(|_| base[rng.below(if p.quick() { 6 } else { base.len() as u64 }) as usize]).collect();
            items.push(MixCase { items: its, seed: rng.next_u64() });
        }
        p.enumerate(
            "mixed.nb_public_inputs",
            "relations exposing 0..40 values of mixed types through both paths, real proofs: verify accepts exactly enc(values); |pi|+1 and |pi|-1 give Err(InvalidInstances); an edited value is rejected; non-trivial = >= 3 distinct types",
            items,
            4,
            false,
            mix_case,
        );
    });
}
