//! C02 — the verifier enforces every constraint class and agrees with the
//! mock checker.
//!
//! Generator: E1 spec x honest plan x one fault: a plain advice assignment or an
//! instance cell, fault value in {+1, 0, swap with neighbour, random}. The
//! fault is applied to the plan before MockProver and create_proof see it.
//! Oracles: (a) verdict(real prover+verifier) == verdict(MockProver) on every
//! case; (b) a fault that violates a constraint according to the harness's
//! own evaluation of the plan (Plan::violated: gate equations, lookup
//! membership, copies, pinned constants, instance links) is rejected by both;
//! (c) a fault that violates nothing (unused cell, unread instance cell,
//! absorbed by a zero coefficient/factor) is accepted by both.

use ff::Field;
use midnight_proofs::transcript::{CircuitTranscript, Transcript};
use proptest::prelude::*;
use serde::{Deserialize, Serialize};
use vp_plonk::{
    e1::{build_plan, expand, knobs_strategy, Knobs, Plan, Spec, F},
    pv::{self, Blake, Poseidon},
};
use vpcore::{idx, CaseResult, Failure, SplitMix, Verdict};

#[derive(Clone, Debug, Serialize, Deserialize)]
struct FaultKnob {
    site: u16,
    kind: u8,
    rnd: u64,
    instance: bool,
}

#[derive(Clone, Debug, Serialize, Deserialize)]
struct Case {
    knobs: Knobs,
    wseed: u64,
    poseidon: bool,
    faults: Vec<FaultKnob>,
}

fn strategy(max_ops: usize, nfaults: usize) -> BoxedStrategy<Case> {
    let fault = (any::<u16>(), 0u8..4, any::<u64>(), proptest::bool::weighted(0.2))
        .prop_map(|(site, kind, rnd, instance)| FaultKnob { site, kind, rnd, instance });
    (knobs_strategy(max_ops), any::<u64>(), any::<bool>(), proptest::collection::vec(fault, 1..=nfaults))
        .prop_map(|(knobs, wseed, poseidon, faults)| Case { knobs, wseed, poseidon, faults })
        .boxed()
}

fn real_verdict(spec: &Spec, pk: &midnight_proofs::plonk::ProvingKey<F, pv::CS>, vk: &midnight_proofs::plonk::VerifyingKey<F, pv::CS>, plan: &Plan, poseidon: bool, seed: u64) -> Result<(), String> {
    let st = pv::statement(vk, spec, &[plan.instances.clone()], 0);
    if poseidon {
        let mut t = CircuitTranscript::<Poseidon>::init();
        pv::prove(pk, spec, std::slice::from_ref(plan), 0, seed, &mut t)?;
        let proof = t.finalize();
        let mut t = CircuitTranscript::<Poseidon>::init_from_bytes(&proof);
        pv::verify(vk, spec.k, &st, &mut t)
    } else {
        let mut t = CircuitTranscript::<Blake>::init();
        pv::prove(pk, spec, std::slice::from_ref(plan), 0, seed, &mut t)?;
        let proof = t.finalize();
        let mut t = CircuitTranscript::<Blake>::init_from_bytes(&proof);
        pv::verify(vk, spec.k, &st, &mut t)
    }
}

fn run(c: &Case) -> CaseResult {
    let spec = expand(&c.knobs);
    let honest = build_plan(&spec, c.wseed);
    pv::mock(&spec, &honest).map_err(|e| Failure::new("mock-rejects-honest-plan", format!("{e}; spec={spec:?}")))?;
    let (pk, vk) = pv::keygen(&spec).map_err(|e| Failure::new("keygen-fails", format!("{e}; spec={spec:?}")))?;
    let sites = honest.fault_sites();
    let inst_sites: Vec<(usize, usize)> = honest.instances.iter().enumerate().flat_map(|(c, col)| (0..col.len()).map(move |r| (c, r))).collect();
    let mut verdict = Verdict::of(false, "no-fault");
    let mut any_nt = false;
    for fk in &c.faults {
        let mut plan = honest.clone();
        let mut rng = SplitMix(fk.rnd);
        let classes: Vec<&'static str>;
        let desc;
        if fk.instance && !inst_sites.is_empty() {
            let (col, row) = inst_sites[idx(fk.site, inst_sites.len())];
            let old = plan.instances[col][row];
            let new = match fk.kind {
                0 => old + F::ONE,
                1 => if old == F::ZERO { F::ONE } else { F::ZERO },
                2 => {
                    let (c2, r2) = inst_sites[(idx(fk.site, inst_sites.len()) + 1) % inst_sites.len()];
                    let o = plan.instances[c2][r2];
                    if o == old { old + F::ONE } else { o }
                }
                _ => old + F::from(rng.next_u64() | 1),
            };
            plan.instances[col][row] = new;
            classes = honest.classes_of_instance(col, row);
            desc = format!("instance[{col}][{row}] kind={}", fk.kind);
        } else {
            if sites.is_empty() {
                continue;
            }
            let si = idx(fk.site, sites.len());
            let (r, i) = sites[si];
            let a = &honest.regions[r].assigns[i];
            let delta = match fk.kind {
                0 => F::ONE,
                1 => if a.base == F::ZERO && a.chal.is_none() { F::ONE } else if a.chal.is_some() { F::ONE } else { -a.base },
                2 => {
                    let (r2, i2) = sites[(si + 1) % sites.len()];
                    let o = honest.regions[r2].assigns[i2].base;
                    if o == a.base || a.chal.is_some() { F::ONE } else { o - a.base }
                }
                _ => F::from(rng.next_u64() | 1),
            };
            plan.regions[r].assigns[i].delta = delta;
            classes = honest.classes_of(r, i);
            desc = format!("advice region={r} assign={i} col={} offset={} kind={}", a.col, a.offset, fk.kind);
        }
        let violated = plan.violated(&spec);
        let expect_reject = !violated.is_empty();
        let mock = pv::mock(&spec, &plan);
        let real = real_verdict(&spec, &pk, &vk, &plan, c.poseidon, fk.rnd ^ 0x77);
        let cls = if classes.is_empty() { "none".to_string() } else { classes.join("+") };
        if mock.is_ok() != real.is_ok() {
            let which = if violated.is_empty() { "none".to_string() } else { violated.join("+") };
            return Err(Failure::new(
                format!("verdict-mismatch:mock={}:real={}:violated={which}", if mock.is_ok() { "accept" } else { "reject" }, if real.is_ok() { "accept" } else { "reject" }),
                format!("fault {desc} (classes {cls}): MockProver {:?} but prover+verifier {:?}; spec={spec:?}", mock.as_ref().err(), real.as_ref().err()),
            ));
        }
        if expect_reject && real.is_ok() {
            return Err(Failure::new(
                format!("violating-fault-accepted:{}", violated.join("+")),
                format!("fault {desc} violates {violated:?} but the proof verifies (and MockProver accepts); spec={spec:?}"),
            ));
        }
        if !expect_reject && real.is_err() {
            return Err(Failure::new(
                format!("benign-fault-rejected:{cls}"),
                format!("fault {desc} (classes {cls}) violates no constraint by the harness evaluation but is rejected: mock {:?} real {:?}; spec={spec:?}", mock.err(), real.err()),
            ));
        }
        let label = if expect_reject { format!("rejected:{}", violated.join("+")) } else if cls == "none" { "accepted:unused-cell".to_string() } else { format!("accepted:absorbed:{cls}") };
        any_nt |= expect_reject;
        verdict = verdict.with(label);
    }
    verdict.nontrivial = any_nt;
    Ok(verdict)
}

fn main() {
    vpcore::main("C02", "fault_enumeration", (1800, 10800), |p| {
        p.assume("single-cell faults (one advice assignment or one instance cell differs from the honest assignment); blinding rows cannot be assigned through the public API and are not faulted");
        p.assume("harness evaluation Plan::violated decides which faults must be rejected; challenge equations are judged symbolically");
        let nfaults = p.tier.pick(6, 24);
        p.sub_cfg(
            "e1.faults",
            "E1 specs x honest plan x faults (advice assignment or instance cell; +1 / zero / neighbour's value / random): real verdict == MockProver verdict; violating faults rejected; benign faults (unused cells, absorbed) accepted; non-trivial = at least one fault of the case violates a constraint; classes = violated constraint classes per fault",
            p.tier.pick(400, 8000),
            16,
            48,
            || strategy(p.tier.pick(10, 16), nfaults),
            run,
        );
    });
}
